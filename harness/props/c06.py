"""C06 — policy management behaves as operations on a duplicate-free ordered rule set.
Proof: Props/C06.v (refinement of policy.py's list code to an abstract ordered set, by induction over
histories).  Correspondence: management histories on the real Enforcer vs the Mgmt model; the set
semantics (harness/specs.py) evaluated on the implementation's own observations after every call."""
import itertools

from ..core import Check
from .. import mgmt
from ..specs import ordered_set_history, stores, fmatch, nodup, without, truthy

PROP = "C06"
W = dict(p_update_filtered=0, probe=0, query=5, load=0.7, save=0.5, clear=0, build=0.2, long_g=0.15, alias_remove=0.6)  # clear_policy leaves the adapter untouched: a later reload is outside C06


def spec_check(kind, rows, lf, ops, obs, impl):
    init = {0: [], 1: [], 2: []}
    if lf:
        for pt, r in rows:
            init[pt].append(r)
    # histories containing reload / clear are cut at that point for the step-wise set semantics
    out = []
    cur_ops, cur_obs, cur_init = [], [], init
    for op, o in zip(ops, obs):
        if op[0] in (30, 31, 32, 33, 34, 35, 36, 37, 38, 8):
            out.extend(ordered_set_history(kind, rows, cur_ops, cur_obs, cur_init, prio_on=kind.prio))
            base = len(cur_ops)
            cur_ops, cur_obs, cur_init = [], [], stores(o)
            # renumber lazily: indices are only used to cut the history, keep them relative to the segment start
            continue
        cur_ops.append(op)
        cur_obs.append(o)
    seg = ordered_set_history(kind, rows, cur_ops, cur_obs, cur_init, prio_on=kind.prio)
    out.extend(seg)
    # map segment-relative indices back to absolute ones (needed for truncation before shrinking)
    if out:
        # recompute absolutely: walk again and find the first violating absolute step
        cur = init
        seg_ops, seg_obs, seg_start = [], [], 0
        for i, (op, o) in enumerate(zip(ops, obs)):
            if op[0] in (30, 31, 32, 33, 34, 35, 36, 37, 38, 8):
                v = ordered_set_history(kind, rows, seg_ops, seg_obs, cur, prio_on=kind.prio)
                if v:
                    return [(seg_start + v[0][0], v[0][1])]
                cur, seg_ops, seg_obs, seg_start = stores(o), [], [], i + 1
                continue
            seg_ops.append(op)
            seg_obs.append(o)
        v = ordered_set_history(kind, rows, seg_ops, seg_obs, cur, prio_on=kind.prio)
        if v:
            return [(seg_start + v[0][0], v[0][1])]
    return []


CUTS = (30, 31, 32, 33, 34, 35, 36, 37, 38, 8)


def in_sync(kind, p_rules, adapter_rows):
    """no adapter, or the adapter holds exactly the in-memory p rules (as a set)"""
    if not kind.adapter:
        return True
    return sorted(r for pt, r in adapter_rows if pt == 0) == sorted(p_rules)


def update_filtered_step(kind, op, before, after, res, synced):
    """update_filtered_policies(new_rules, i, *values) read through the property text: the FILTER selects exactly the
    rules whose fields equal every non-empty value, the call replaces the selected rules by the new ones.  Only the
    cases in which the text leaves no choice are demanded:
      * a call that raises changes nothing;
      * nothing selected: refused, nothing changes;
      * something selected and the new rules are non-empty, pairwise distinct and absent from the rules that stay:
        accepted, the selected rules are gone, the others keep their order, the new rules follow in the given order.
    With an adapter the enforcer asks the ADAPTER which rules the filter selects (known finding C09/update-filtered-
    policies), so the last two clauses are evaluated only while the adapter held exactly the in-memory rules before the call."""
    msgs = []
    new, i, vs = op[1], op[2], op[3]
    b, a = before[0], after[0]
    for pt in (0, 1, 2):
        if not nodup(after[pt]):
            msgs.append(f"stored rules of type {pt} contain a duplicate: {after[pt]}")
    if after[1] != before[1] or after[2] != before[2]:
        msgs.append("update_filtered_policies changed the role assignments")
    if res[0] != 0:
        if a != b:
            msgs.append(f"update_filtered_policies raised (code {res[1]}) but the stored rules changed")
        return msgs
    ms = [fmatch(r, i, vs) for r in b]
    if None in ms or not synced:
        return msgs
    ok = truthy(res)
    sel = [r for r, m in zip(b, ms) if m]
    rem = without(b, sel)
    if not sel:
        if ok:
            msgs.append("update_filtered_policies reported success although the filter selects no rule")
        if a != b:
            msgs.append("update_filtered_policies changed the stored rules although the filter selects no rule")
    elif new and nodup(new) and all(n not in rem for n in new):
        if not ok:
            msgs.append("update_filtered_policies of a non-empty selection by distinct rules absent from the remaining ones was rejected")
        if any(r in a for r in sel if r not in new):
            msgs.append("update_filtered_policies left a selected rule in the store")
        if a != rem + new:
            msgs.append("update_filtered_policies did not leave exactly the unselected rules (in order) followed by the new rules")
    return msgs


def walk(kind, rows, ops, obs, init, start=0, db0=None):
    """the step-wise set semantics from step `start` on (stores before it: `init`), cut at reload/clear/flag calls as in
    spec_check, plus the update_filtered_policies clauses; first violation with its absolute step"""
    cur, seg_ops, seg_obs, seg_start = init, [], [], start
    for i in range(start, min(len(ops), len(obs))):
        op, o = ops[i], obs[i]
        if op[0] in CUTS:
            v = ordered_set_history(kind, rows, seg_ops, seg_obs, cur, prio_on=kind.prio)
            if v:
                return [(seg_start + v[0][0], v[0][1])]
            if op[0] == 8:
                before = stores(obs[i - 1]) if i > 0 else init
                db = obs[i - 1][6] if i > 0 else (db0 or [])
                m = update_filtered_step(kind, op, before, stores(o), o[0], in_sync(kind, before[0], db))
                if m:
                    return [(i, m[0])]
            cur, seg_ops, seg_obs, seg_start = stores(o), [], [], i + 1
            continue
        seg_ops.append(op)
        seg_obs.append(o)
    v = ordered_set_history(kind, rows, seg_ops, seg_obs, cur, prio_on=kind.prio)
    if v:
        return [(seg_start + v[0][0], v[0][1])]
    return []


def prio_spec_check(kind, rows, lf, ops, obs, impl):
    """explicit-priority models: WHERE a rule stands is C07's subject, so the history starts by reading the store
    (get_policy) and every later clause is relative to the stores the implementation showed one step earlier:
    add succeeds iff absent and then the rule is present once among otherwise undisturbed rules, remove succeeds iff
    present, batches are all-or-nothing, a call that raises (priority mismatch) changes nothing, has_policy / get_policy /
    get_filtered_policy agree, an update of a present rule to an absent one of the SAME priority replaces it in place.
    The first observation must hold exactly the loaded rules, as a set."""
    if not ops or tuple(ops[0]) != (52, 0) or not obs:
        return []
    o = obs[0]
    p = o[3]
    loaded = {0: [], 1: [], 2: []}
    if lf:
        for pt, r in rows:
            loaded[pt].append(r)
    if o[0] != [0, p]:
        return [(0, "get_policy differs from the stored rules")]
    if not nodup(p) or sorted(p) != sorted(loaded[0]):
        return [(0, "after loading, the stored permission rules are not exactly the adapter's rules, each once")]
    if o[4] != loaded[1] or o[5] != loaded[2]:
        return [(0, "after loading, the stored role assignments are not the adapter's")]
    return walk(kind, rows, ops, obs, stores(o), start=1)


def spec_all(kind, rows, lf, ops, obs, impl):
    """every clause of this module (replays and the strata added later use it)"""
    if kind.prio:
        return prio_spec_check(kind, rows, lf, ops, obs, impl)
    v = spec_check(kind, rows, lf, ops, obs, impl)
    if v:
        return v
    init = {0: [], 1: [], 2: []}
    if lf:
        for pt, r in rows:
            init[pt].append(r)
    return walk(kind, rows, ops, obs, init, 0, [[pt, r] for pt, r in rows] if lf else [])


def exhaustive_cases(kind, maxlen):
    """all histories up to maxlen over a small concrete op alphabet on a 2-rule universe"""
    A = mgmt.ATOMS.a
    r1 = [A("alice"), A("data1"), A("read")]
    r2 = [A("bob"), A("data1"), A("read")]
    alpha = [(1, 0, r1), (1, 0, r2), (3, 0, r1), (3, 0, r2), (2, 0, [r1, r2]), (2, 0, [r1, r1]), (2, 0, [r2]),
             (4, 0, [r1, r2]), (4, 0, [r2, r2]), (4, 0, [r1]), (5, 0, 1, [A("data1")]), (5, 0, 0, [A("bob"), 0]),
             (6, r1, r2), (6, r2, r1), (6, r1, r1), (7, [r1, r2], [r2, r1]), (7, [r1], [r2])]
    for n in range(1, maxlen + 1):
        for seq in itertools.product(alpha, repeat=n):
            yield ([], False, list(seq) + [(52, 0)])


def positional_cases(maxlen):
    """positions move: all sequences up to maxlen over single add / remove / update-to-a-fresh-rule of three rules, on
    a store that already holds two loaded rules - an update must replace ITS rule wherever that rule now stands"""
    A = mgmt.ATOMS.a
    base = [(0, [A("carol"), A("data2"), A("write")]), (0, [A("admin"), A("data2"), A("read")])]
    rs = [[A("alice"), A("data1"), A("read")], [A("bob"), A("data1"), A("read")], [A("carol"), A("data1"), A("read")]]
    fresh = [[A("alice"), A("data2"), A("write")], [A("bob"), A("data2"), A("write")]]
    alpha = [(1, 0, r) for r in rs] + [(3, 0, r) for r in rs[:2]] + [(3, 0, base[0][1])] + \
            [(6, rs[0], fresh[0]), (6, rs[1], fresh[1]), (6, base[1][1], fresh[0])]
    for n in range(2, maxlen + 1):
        for seq in itertools.product(alpha, repeat=n):
            if sum(1 for o in seq if o[0] == 6) >= 1 and sum(1 for o in seq if o[0] == 3) >= 1:
                yield (base, True, list(seq) + [(52, 0)])


KNOWN_UF = "C06/update-filtered-policies-not-all-or-nothing"


def uf_atomic_spec(kind, rows, lf, ops, obs, impl):
    """'a batch call either applies to all of its rules or changes nothing', read for update_filtered_policies: a call that
    reports failure leaves the stored rules as they were; a call that reports success leaves none of the selected rules
    and all of the new ones"""
    out = []
    for i, (op, o) in enumerate(zip(ops, obs)):
        if op[0] != 8 or o[0][0] != 0:
            continue
        before = obs[i - 1][3] if i > 0 else [r for pt, r in rows if pt == 0]
        after = o[3]
        if not truthy(o[0]) and after != before:
            out.append((i, "update_filtered_policies reported failure but the stored rules changed", KNOWN_UF))
            return out
        if truthy(o[0]) and any(n not in after for n in op[1]):
            out.append((i, "update_filtered_policies reported success but a new rule is not stored", KNOWN_UF))
            return out
    return out


def known_probe_uf(chk):
    """the listed finding, replayed on every run (memory only, so the adapter side - C09/update-filtered-policies - plays no part)"""
    A = mgmt.ATOMS.a
    kind = mgmt.KINDS["acl"].with_(adapter=False)
    rs = [[A("alice"), A("data1"), A("read")], [A("alice"), A("data2"), A("read")], [A("bob"), A("data1"), A("read")]]
    for new in ([], [[A("bob"), A("data1"), A("read")], [A("carol"), A("x"), A("y")]]):
        ops = [(2, 0, rs), (8, new, 0, [A("alice")]), (52, 0)]
        mgmt.run_cases(chk, kind, [([], False, ops)], uf_atomic_spec, label="known-finding-probe-update-filtered", compare_model=False)


def padded_cases(maxlen):
    """field values that differ only by surrounding blanks are DIFFERENT values: every entry point must store, find,
    remove and replace exactly the rule it was given (memory only: the bundled adapters trim on load by design, C10)"""
    A = mgmt.ATOMS.a
    rs = [[A("eve"), A("data1"), A("read")], [A("eve "), A("data1"), A("read")], [A(" eve"), A("data1"), A("read")],
          [A("eve"), A("data1 "), A("read")]]
    alpha = [(1, 0, r) for r in rs] + [(3, 0, r) for r in rs[:3]] + [(2, 0, [rs[1], rs[3]]), (4, 0, [rs[0], rs[2]]),
                                                                    (6, rs[0], rs[1]), (6, rs[2], rs[3]), (13, A("eve "), [A("data1"), A("read")])]
    for n in range(1, maxlen + 1):
        for seq in itertools.product(alpha, repeat=n):
            ops = []
            for o in seq:                     # every mutating call is followed by reads of the store
                ops += [o, (52, 0)]
            yield ([], False, ops)


# ----------------------------------------------------------------------------- the wrappers that turn varargs into rules
CALL_FORMS_MODEL = """
[request_definition]
r = {fields}

[policy_definition]
p = {fields}

[role_definition]
g = _, _

[policy_effect]
e = some(where (p.eft == allow))

[matchers]
m = {matcher}
"""


def call_forms_cases(rng, n):
    """(arity, history): every entry point that accepts a rule either as ONE list or as separate arguments is called in
    both forms, on policy definitions of one, two and three fields; values include texts with commas and blanks (two
    different rules may then print alike)"""
    vals = ["alice", "bob", "data1", "read", "a,b", "a", "b,c", "cn=x,ou=y", "x y", ""]
    for i in range(n):
        ar = [1, 2, 3, 1, 3][i % 5]
        uni = []
        for _ in range(rng.randint(2, 4)):
            uni.append([rng.choice(vals[:9] if ar > 1 else vals[:9]) for _ in range(ar)])
        if ar >= 2:                                   # two different rules whose ", "-joined texts coincide
            uni += [["a,b", "c"] + ["z"] * (ar - 2), ["a", "b,c"] + ["z"] * (ar - 2)]
        guni = [["alice", "admin"], ["bob", "admin"], ["a,b", "c"], ["a", "b,c"]]
        h = []
        for _ in range(rng.randint(3, 12)):
            kindop = rng.choice(["add", "add", "remove", "has", "has", "addn", "removen", "hasn", "adds", "removes",
                                 "gadd", "gremove", "ghas", "gadds", "gremoves"])
            form = rng.choice(["list", "varargs"])
            if kindop in ("adds", "removes"):
                h.append((kindop, [list(rng.choice(uni)) for _ in range(rng.randint(1, 3))], "list"))
            elif kindop in ("gadds", "gremoves"):
                h.append((kindop, [list(rng.choice(guni)) for _ in range(rng.randint(1, 3))], "list"))
            elif kindop.startswith("g"):
                h.append((kindop, list(rng.choice(guni)), form))
            else:
                h.append((kindop, list(rng.choice(uni)), form))
        yield ar, h


def call_forms_run(ar, h):
    """returns (failure or None, observations)"""
    import casbin
    fields = ["sub", "obj", "act"][:ar]
    text = CALL_FORMS_MODEL.format(fields=", ".join(fields), matcher=" && ".join(f"r.{f} == p.{f}" for f in fields))
    e = casbin.Enforcer(casbin.Enforcer.new_model(text=text))
    P, G = [], []
    api = {"add": (e.add_policy, P, "add"), "remove": (e.remove_policy, P, "remove"), "has": (e.has_policy, P, "has"),
           "addn": (lambda *a: e.add_named_policy("p", *a), P, "add"), "removen": (lambda *a: e.remove_named_policy("p", *a), P, "remove"),
           "hasn": (lambda *a: e.has_named_policy("p", *a), P, "has"),
           "gadd": (e.add_grouping_policy, G, "add"), "gremove": (e.remove_grouping_policy, G, "remove"), "ghas": (e.has_grouping_policy, G, "has"),
           "adds": (e.add_policies, P, "adds"), "removes": (e.remove_policies, P, "removes"),
           "gadds": (e.add_grouping_policies, G, "adds"), "gremoves": (e.remove_grouping_policies, G, "removes")}
    obs = []
    for i, (name, arg, form) in enumerate(h):
        fn, S, what = api[name]
        try:
            got = fn(arg) if form == "list" else fn(*arg)
        except Exception as exc:  # noqa
            got = "raise " + type(exc).__name__
        if what == "add":
            want = arg not in S
            if want:
                S.append(list(arg))
        elif what == "remove":
            want = arg in S
            if want:
                S.remove(arg)
        elif what == "has":
            want = arg in S
        elif what == "adds":
            want = all(r not in S for r in arg) and all(arg.count(r) == 1 for r in arg)
            if want:
                S.extend(list(r) for r in arg)
        else:
            want = all(r in S for r in arg) and all(arg.count(r) == 1 for r in arg)
            if want:
                for r in arg:
                    S.remove(r)
        state = (e.get_policy(), e.get_grouping_policy())
        obs.append([got, state[0], state[1]])
        if got != want:
            return dict(step=i, call=[name, arg, form], returned=got, expected=want), obs
        if state[0] != P or state[1] != G:
            return dict(step=i, call=[name, arg, form], stored=state, expected_stored=[P, G]), obs
    return None, obs


def call_forms_stratum(chk, n):
    done = 0
    for ar, h in call_forms_cases(chk.rng, n):
        bad, obs = call_forms_run(ar, h)
        chk.count(("call-forms", ar, repr(h)))
        done += 1
        if bad:
            # shrink: drop calls while it still fails
            hh = list(h[:bad["step"] + 1])
            k = 0
            while k < len(hh) - 1:
                cand = hh[:k] + hh[k + 1:]
                b2, _ = call_forms_run(ar, cand)
                if b2:
                    hh, bad = cand, b2
                else:
                    k += 1
            chk.spec_fail(dict(stratum="call-forms", arity=ar, history=[list(x) for x in hh]), dict(returned=bad.get("returned"), stored=bad.get("stored")),
                          dict(expected=bad.get("expected"), stored=bad.get("expected_stored")),
                          "a management call given the rule as separate arguments / as one list does not behave as the same "
                          "operation on the duplicate-free ordered rule set (result or stored rules differ)")
            break
    chk.extra.setdefault("strata", {})["call_forms_arity_1_2_3"] = done


def run(chk, n_random, exh_len):
    rng = chk.rng
    known_probe_uf(chk)
    call_forms_stratum(chk, max(200, n_random))
    pad = list(padded_cases(3))
    mgmt.run_cases(chk, mgmt.KINDS["acl"].with_(adapter=False), pad, spec_check, label="padded-names-len<=3")
    chk.extra.setdefault("strata", {})["padded_names_len<=3"] = len(pad)
    pc = list(positional_cases(4))
    mgmt.run_cases(chk, mgmt.KINDS["acl"], pc, spec_check, label="positional-len<=4")
    chk.extra.setdefault("strata", {})["positional_acl_len<=4"] = len(pc)
    kinds = ["acl", "rbac", "dom", "rbac_res", "acl_deny"]
    ex = list(exhaustive_cases(mgmt.KINDS["acl"], exh_len))
    mgmt.run_cases(chk, mgmt.KINDS["acl"].with_(adapter=False), ex, spec_check, label=f"exhaustive-len<={exh_len}")
    chk.extra.setdefault("strata", {})[f"exhaustive_acl_len<={exh_len}"] = len(ex)
    chk.exhaustive = True
    for kn in kinds:
        cases = []
        for _ in range(n_random):
            kind = mgmt.KINDS[kn].with_(adapter=rng.random() < 0.7)
            g = mgmt.Gen(rng, kind, W)
            rows = g.rows(rng.randint(0, 6))
            # over-long grouping rules are generated, but never two rules sharing their declared-arity prefix (they
            # map to one role link: known finding C04/overlong-rules-share-a-link, probed by the C04 check)
            cases.append((kind, rows, True, mgmt.drop_prefix_aliases(kind, rows, g.history(rng.randint(3, 16), final_probe=False))))
        for adapter in (True, False):
            sub = [(r, lf, o) for k, r, lf, o in cases if k.adapter == adapter]
            mgmt.run_cases(chk, mgmt.KINDS[kn].with_(adapter=adapter), sub, spec_check, label=f"random-{kn}")
        chk.extra["strata"][f"random_{kn}"] = len(cases)


def prio_exhaustive_cases(maxlen):
    """explicit-priority model, three loaded rules (two of priority 2, stored in an order the load has to sort): all
    sequences up to maxlen over single/batch add, remove, update (same priority / other priority / to a present rule),
    batch update (all pairs fine / a LATER pair changes the priority), partly present and partly absent batches"""
    A = mgmt.ATOMS.a

    def r(pr, s, o, a, e):
        return [pr, A(s), A(o), A(a), e]
    a1, a2, b2 = r(1, "alice", "data1", "read", mgmt.ALLOW), r(2, "alice", "data1", "read", mgmt.DENY), r(2, "bob", "data1", "read", mgmt.ALLOW)
    c2, n2, n1 = r(2, "alice", "data2", "read", mgmt.ALLOW), r(2, "alice", "data1", "write", mgmt.ALLOW), r(1, "bob", "data1", "read", mgmt.DENY)
    base = [(0, a2), (0, a1), (0, b2)]
    alpha = [(1, 0, a1), (1, 0, c2), (1, 0, n1), (3, 0, a2), (3, 0, a1), (3, 0, c2),
             (6, a2, n2), (6, a1, n1), (6, a2, n1), (6, a2, b2),
             (7, [a1, a2], [n1, n2]), (7, [a2, a1], [n2, c2]),
             (2, 0, [c2, n1]), (2, 0, [c2, a1]), (4, 0, [a1, a2]), (4, 0, [a2, c2]), (54, 0, a2)]
    for n in range(1, maxlen + 1):
        for seq in itertools.product(alpha, repeat=n):
            yield (base, True, [(52, 0)] + list(seq) + [(52, 0), (54, 0, a2), (54, 0, n2)])


def update_filtered_cases(maxlen):
    """update_filtered_policies on a 3-rule universe: all sequences up to maxlen over add / remove and filtered updates
    whose new rules overlap the selected ones, are disjoint from them, meet a rule that stays, or select nothing"""
    A = mgmt.ATOMS.a
    r1, r2, r3 = [A("alice"), A("data1"), A("read")], [A("bob"), A("data1"), A("read")], [A("alice"), A("data2"), A("read")]
    r4 = [A("alice"), A("data2"), A("write")]
    alpha = [(1, 0, r1), (1, 0, r2), (1, 0, r3), (3, 0, r1),
             (8, [r1, r4], 0, [A("alice")]), (8, [r4], 0, [A("alice")]), (8, [r3], 1, [A("data1")]), (8, [r2, r4], 0, [A("alice")]),
             (8, [r4], 0, [A("carol")]), (8, [r3, r1], 0, [A("alice"), 0, A("read")]), (8, [r4, r4], 0, [A("bob")])]
    for n in range(1, maxlen + 1):
        for seq in itertools.product(alpha, repeat=n):
            if any(o[0] == 8 for o in seq):
                yield ([(0, r1), (0, r3)], True, list(seq) + [(52, 0)])


# no reload in these histories: update_filtered_policies tells the adapter before it knows whether anything is selected
# (known finding C09/update-filtered-policies), a reload would bring that into memory
W_UF = dict(W, p_update_filtered=4, p_update=1, p_update_many=1, alias_remove=0.2, load=0)


def run_added(chk, n_random, exh_len):
    """strata added after the third seeding wave: explicit-priority models (order-free clauses), update_filtered_policies"""
    rng = chk.rng
    st = chk.extra.setdefault("strata", {})
    for kn in ("prio",):
        ex = list(prio_exhaustive_cases(exh_len))
        mgmt.run_cases(chk, mgmt.KINDS[kn], ex, spec_all, label=f"priority-model-exhaustive-len<={exh_len}")
        st[f"priority_model_exhaustive_len<={exh_len}"] = len(ex)
    for kn in ("prio", "prio_rbac"):
        kind = mgmt.KINDS[kn]
        cases = []
        for _ in range(n_random):
            g = mgmt.Gen(rng, kind, W)
            rows = g.rows(rng.randint(0, 7))
            cases.append((rows, True, [(52, 0)] + mgmt.drop_prefix_aliases(kind, rows, g.history(rng.randint(3, 16), final_probe=False))))
        mgmt.run_cases(chk, kind, cases, spec_all, label=f"priority-model-random-{kn}")
        st[f"priority_model_random_{kn}"] = len(cases)
    uf = list(update_filtered_cases(exh_len + 1))
    for adapter in (False, True):
        # without an adapter nothing is loaded: the two initial rules are added by the first two calls instead
        cs = uf if adapter else [([], False, [(1, 0, r) for pt, r in rows] + ops) for rows, lf, ops in uf]
        mgmt.run_cases(chk, mgmt.KINDS["acl"].with_(adapter=adapter), cs, spec_all,
                       label=f"update-filtered-exhaustive-len<={exh_len + 1}-{'adapter' if adapter else 'memory-only'}")
    st[f"update_filtered_exhaustive_len<={exh_len + 1}_x2"] = 2 * len(uf)
    for kn in ("acl", "rbac", "dom", "rbac_res", "acl_deny"):
        cases = []
        for _ in range(max(20, n_random // 2)):
            kind = mgmt.KINDS[kn].with_(adapter=rng.random() < 0.5)
            g = mgmt.Gen(rng, kind, W_UF)
            rows = g.rows(rng.randint(1, 6))          # (empty without an adapter: the history starts from nothing)
            cases.append((kind, rows, True, mgmt.drop_prefix_aliases(kind, rows, g.history(rng.randint(4, 16), final_probe=False))))
        for adapter in (True, False):
            sub = [(r, lf, o) for k, r, lf, o in cases if k.adapter == adapter]
            mgmt.run_cases(chk, mgmt.KINDS[kn].with_(adapter=adapter), sub, spec_all, label=f"update-filtered-random-{kn}")
        st[f"update_filtered_random_{kn}"] = len(cases)


def main():
    chk = Check(PROP)
    chk.rule = ("management histories (add/remove/update, batch and filtered forms, RBAC-API wrappers, for p, g, g2) with "
                "arguments biased to repeats / one-field neighbours / absent rules, batches with internal duplicates and "
                "partly present sets; exhaustive over a 17-op alphabet on a 2-rule universe up to the stated length, "
                "plus random histories on ACL/RBAC/domain/resource-role models; non-trivial = contains at least one "
                "mutating call; distinct by (model kind, sequence of mutating calls)"
                "; explicit-priority models (ACL- and RBAC-shaped, loaded through the adapter): exhaustive over a 17-call "
                "alphabet on three loaded rules up to the same length + random histories, every history starting with "
                "get_policy and judged by the clauses that do not depend on where a rule is stored; "
                "update_filtered_policies: exhaustive over an 11-call alphabet (replacement overlapping / disjoint from / "
                "colliding with the selection, empty selection) up to length 3/4 with and without an adapter + random "
                "histories on the five non-priority models")
    chk.assumptions = [
        "priority-ordered insertion is C07; here only set-ness and membership are checked for priority models",
        "a filter that reaches past the end of a rule raises IndexError in the code; such calls are outside the property",
        "update to an already present rule: the property is silent; the (repaired) code refuses, the spec only demands "
        "duplicate-freeness and all-or-nothing there",
    ]
    chk.trusted = ["hand-written model coq/theories/Policy.v + Mgmt.v tied by the differential history correspondence",
                   "translator translators/policy.py (Python ast of casbin/model/policy.py -> coq/gen/PolicyGen.v, purely syntactic, "
                   "fail-closed, regenerated on this run) and the interpreter of coq/theories/PolLang.v as the meaning of the accepted "
                   "Python subset (list membership/index/remove by value, a for statement iterates a snapshot and is refused when its "
                   "body may change the iterated list, short-circuit and/or/all, exceptions keep earlier changes, writes to policy_map "
                   "dropped); PolicyTie.v proves that the regenerated has_policy / add_policy / add_policies (no priority column) / "
                   "remove_policy / remove_policies / update_policy / update_policies / get_filtered_policy / remove_filtered_policy / "
                   "remove_filtered_policy_returns_effects / get_values_for_field_in_policy compute Policy.v's functions for every "
                   "rule list and argument; remove_policies_with_effected and the priority insertion of add_policy are translated "
                   "but tied by the differential correspondence only"]
    chk.build(translators=["policy"], oracle_name="Mgmt")
    if chk.replay_file:
        import json as _json
        c = (_json.load(open(chk.replay_file)).get("case") or {})
        if c.get("stratum") == "call-forms":
            bad, obs = call_forms_run(c["arity"], [tuple(x) for x in c["history"]])
            print("replay (call forms):", _json.dumps(bad)[:600] if bad else "every call behaves as the set operation")
            if bad:
                print(f"VIOLATION property={PROP} replay={chk.replay_file}")
                raise SystemExit(1)
            raise SystemExit(0)
        return mgmt.replay_case(chk, spec_all)
    if chk.tier == "thorough":
        run(chk, 1500, 3)
        run_added(chk, 1500, 3)
    else:
        run(chk, 150, 2)
        run_added(chk, 150, 2)
        if (chk.broken() or chk.anchor_changed) and not chk.spec_failures:
            chk.notes.append("escalated after a broken proof/correspondence")
            run(chk, 800, 3)
            if not chk.spec_failures:
                run_added(chk, 800, 3)
    chk.finish()


if __name__ == "__main__":
    main()
