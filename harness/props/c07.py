"""C07 — priority models keep rules in priority order and the best-priority match decides.
SPEC on the implementation (explicit priority): after load and after every management call the stored p
rules equal the STABLE sort by numeric priority of the rules in arrival order; the decision is the effect
of the first rule in that order that matches with effect allow/deny, else deny.
Subject priority: after load, every rule of a subject precedes every rule of the roles it inherits from."""
import itertools

from ..core import Check, Oracle, build_oracle
from .. import mgmt, c07_subject, c07_filtered, c07_values
from ..specs import truthy, fmatch

PROP = "C07"
W = dict(p_add=8, p_add_many=6, p_remove=4, p_remove_many=3, p_remove_filtered=2, p_update=4, p_update_many=3,
         p_update_filtered=0, g_add=2, g_add_many=1, g_remove=1, g_remove_many=0.5, g_remove_filtered=0.5, rbac=2,
         clear=0.6, load=1, save=0.5, build=0, flags=0, query=3, probe=0)


def reach(g_rules, a, b, depth=10):
    if a == b:
        return True
    front, seen = {a}, {a}
    for _ in range(depth - 1):
        nxt = {r[1] for r in g_rules if r[0] in front} - seen
        if b in nxt:
            return True
        if not nxt:
            return False
        seen |= nxt
        front = nxt
    return False


def decide(kind, p, g, req):
    for r in p:
        if len(r) != kind.p_arity:
            return None
        sub_ok = reach(g, req[0], r[kind.i_sub]) if kind.g else req[0] == r[kind.i_sub]
        if sub_ok and req[1] == r[kind.i_obj] and req[2] == r[kind.i_act]:
            e = r[kind.i_act + 1]
            if e == mgmt.ALLOW:
                return True
            if e == mgmt.DENY:
                return False
    return False


def spec_check(kind, rows, lf, ops, obs, impl):
    out = []
    arrival = sorted([r for pt, r in rows if pt == 0], key=lambda r: r[0]) if lf else []   # stable
    prev_p = None
    for i, (op, o) in enumerate(zip(ops, obs)):
        c = op[0]
        p = o[3]
        res = o[0]
        # a management call that raises (priority mismatch in an update, ...) must have changed nothing
        if c < 30 and res[0] != 0 and prev_p is not None and p != prev_p:
            out.append((i, "a management call that raised has changed the stored rules"))
            return out
        prev_p = p
        ok = truthy(res) if res[0] == 0 else False
        # maintain the arrival sequence from the call and its reported result
        if c == 1 and op[1] == 0 and ok:
            arrival.append(op[2])
        elif c == 13 and ok:
            arrival.append([op[1]] + list(op[2]))
        elif c == 2 and op[1] == 0 and ok:
            arrival.extend(op[2])
        elif c in (3, 4, 5, 12, 14, 15, 10, 11):
            arrival = [r for r in arrival if r in p]
        elif c == 6 and ok:
            arrival = [op[2] if r == op[1] else r for r in arrival]
        elif c == 7 and ok:
            m = {tuple(a): b for a, b in zip(op[1], op[2])}
            arrival = [m.get(tuple(r), r) for r in arrival]
        elif c == 31 and res[0] == 0:
            arrival = sorted(arrival, key=lambda r: r[0])
        if c < 50 and res[0] == 0:
            want = sorted(arrival, key=lambda r: r[0])
            if [r[0] for r in p] != sorted(r[0] for r in p):
                out.append((i, "stored rules are not in ascending numeric priority"))
                return out
            if sorted(map(repr, p)) == sorted(map(repr, want)) and p != want:
                out.append((i, "rules of equal priority are not in arrival order"))
                return out
            arrival = [r for r in want if r in p] + [r for r in p if r not in want]
        if c == 50 and res[0] == 0 and len(op[1]) == 3:
            d = decide(kind, p, o[4], op[1])
            if d is not None and d != bool(res[1]):
                out.append((i, "decision is not the effect of the first matching allow/deny rule in priority order"))
                return out
    return out


def exhaustive_cases(kind):
    A = mgmt.ATOMS.a
    def r(pr, s, e):
        return [pr, A(s), A("data1"), A("read"), e]
    rules = [r(1, "alice", mgmt.ALLOW), r(2, "alice", mgmt.DENY), r(2, "bob", mgmt.ALLOW), r(1, "alice", mgmt.DENY)]
    alpha = [(1, 0, x) for x in rules] + [(2, 0, [rules[1], rules[0]]), (2, 0, [rules[2], rules[3]]), (3, 0, rules[0]),
             (6, rules[0], rules[3]), (6, rules[1], rules[2]), (7, [rules[0], rules[1]], [rules[3], rules[2]]),
             # a batch update whose first pair is admissible and whose second pair changes the priority (refused as a whole)
             (7, [rules[0], rules[1]], [rules[3], r(1, "bob", mgmt.ALLOW)])]
    q = [(50, [A("alice"), A("data1"), A("read")]), (50, [A("bob"), A("data1"), A("read")])]
    for n in (1, 2, 3):
        for seq in itertools.product(alpha, repeat=n):
            yield ([(0, rules[2])], True, [x for o in seq for x in [o] + q])


def run(chk, n, exh_len):
    rng = chk.rng
    kind = mgmt.KINDS["prio"]
    ex = [c for c in exhaustive_cases(kind) if sum(1 for o in c[2] if o[0] < 50) <= exh_len]
    mgmt.run_cases(chk, kind, ex, spec_check, label=f"exhaustive-len<={exh_len}")
    chk.extra.setdefault("strata", {})[f"exhaustive_prio_len<={exh_len}"] = len(ex)
    chk.exhaustive = True
    for kn in ("prio", "prio_rbac"):
        kind = mgmt.KINDS[kn]
        cases = []
        for _ in range(n):
            g = mgmt.Gen(rng, kind, W)
            rows = g.rows(rng.randint(0, 8))
            cases.append((rows, True, g.history(rng.randint(3, 16), final_probe=True)))
        mgmt.run_cases(chk, kind, cases, spec_check, label=f"random-{kn}")
        chk.extra["strata"][f"random_{kn}"] = len(cases)


def main():
    chk = Check(PROP)
    chk.rule = ("explicit-priority models (priorities from {1,2,2,5,10}, effect column allow/deny/other): exhaustive sequences "
                "of <=2/3 calls from an 11-call alphabet (single/batch add, remove, update, batch update) with decisions "
                "after each call, plus random histories on ACL- and RBAC-shaped priority models; non-trivial = at least "
                "one mutating call; distinct by (kind, mutating calls)")
    chk.rule += ("; subject-priority stratum: every hierarchy on 3 names (512 digraphs incl. self-loops and cycles) x 2 "
                 "arrival orders, plus random hierarchies on <=6 names (forests, DAGs, cycles; one or two domains) with "
                 "1-3 edit/save/reload rounds on the same enforcer, role chains of 11-16 links; filtered-loading stratum: "
                 "explicit- and subject-priority models on a FilteredFileAdapter, load_filtered_policy followed by "
                 "load_increment_filtered_policy of further subsets; non-trivial = non-empty hierarchy and policy")
    chk.assumptions = ["priorities are decimal strings (non-numeric keys are outside the property)",
                       "subject-priority model: names and domains do not contain '::' (get_name_with_domain is then injective)",
                       "the model was loaded once (priority_index is only set by load_policy in this code base)"]
    chk.trusted = ["hand-written models coq/theories/{Policy,RoleGraph,Mgmt,Subject}.v tied by the differential history correspondence",
                   "translator translators/policy.py + interpreter coq/theories/PolLang.v (see C06): the priority insertion of add_policy is "
                   "proved equal to Policy.insert_by_priority of the regenerated source (C07_source_add_inserts_by_priority)"]
    chk.build(translators=["policy"], oracle_name="Mgmt")
    spath, slog = build_oracle("C07")                    # second oracle: coq/theories/Subject.v
    soracle = Oracle(spath) if spath else None
    if slog:
        chk.oracle_log = (chk.oracle_log or "") + slog
        chk.notes.append(slog[:500])
    if chk.replay_file:
        return replay(chk, soracle)
    if chk.tier == "thorough":
        run(chk, 2500, 3)
        c07_subject.run(chk, soracle, 6000)
        c07_filtered.run(chk, soracle, 800)
        c07_values.run(chk, 4000)
    else:
        run(chk, 250, 2)
        c07_subject.run(chk, soracle, 500)
        c07_filtered.run(chk, soracle, 80)
        c07_values.run(chk, 300)
        if (chk.broken() or chk.anchor_changed) and not chk.spec_failures:
            run(chk, 1000, 3)
            c07_subject.run(chk, soracle, 3000, exhaustive=False)
            if not chk.spec_failures:
                c07_values.run(chk, 3000)
    chk.finish()


def replay(chk, soracle):
    import json
    rec = json.load(open(chk.replay_file))
    case = rec.get("case", {})
    if case.get("stratum") == "filtered-load":
        c = case["case"]
        bad = None
        for o in c07_filtered.run_impl(c):
            bad = bad or c07_filtered.spec_violation(c, o)
        print("replay (filtered loads):", c["loads"], "->", bad)
        if bad:
            print(f"VIOLATION property={chk.prop} replay={chk.replay_file}")
            raise SystemExit(1)
        print("replay passes: the implementation satisfies the spec on this input")
        raise SystemExit(0)
    if case.get("stratum") == "priority-values":
        bad = c07_values.run_case(case["case"])
        print("replay (priority values / named types):", case["case"], "->", bad)
        if bad:
            print(f"VIOLATION property={chk.prop} replay={chk.replay_file}")
            raise SystemExit(1)
        print("replay passes: the implementation satisfies the spec on this input")
        raise SystemExit(0)
    if case.get("stratum") == "subject-priority":
        c07_subject.run(chk, soracle, 0, exhaustive=False, seed_cases=[case["case"]])
        return chk.finish()
    return mgmt.replay_case(chk, spec_check)


if __name__ == "__main__":
    main()
