"""C07 — priority models keep rules in priority order and the best-priority match decides.
SPEC on the implementation (explicit priority): after load and after every management call the stored p
rules equal the STABLE sort by numeric priority of the rules in arrival order; the decision is the effect
of the first rule in that order that matches with effect allow/deny, else deny.
Subject priority: after load, every rule of a subject precedes every rule of the roles it inherits from."""
import itertools

from ..core import Check, Oracle, build_oracle
from .. import mgmt, c07_subject, c07_filtered, c07_values
from ..specs import truthy, fmatch

PROP = "C07"
W = dict(p_add=8, p_add_many=6, p_remove=4, p_remove_many=3, p_remove_filtered=2, p_update=4, p_update_many=3,
         p_update_filtered=0, g_add=2, g_add_many=1, g_remove=1, g_remove_many=0.5, g_remove_filtered=0.5, rbac=2,
         clear=0.6, load=1, save=0.5, build=0, flags=0, query=3, probe=0)


def reach(g_rules, a, b, depth=10):
    if a == b:
        return True
    front, seen = {a}, {a}
    for _ in range(depth - 1):
        nxt = {r[1] for r in g_rules if r[0] in front} - seen
        if b in nxt:
            return True
        if not nxt:
            return False
        seen |= nxt
        front = nxt
    return False


def decide(kind, p, g, req):
    for r in p:
        if len(r) != kind.p_arity:
            return None
        sub_ok = reach(g, req[0], r[kind.i_sub]) if kind.g else req[0] == r[kind.i_sub]
        if sub_ok and req[1] == r[kind.i_obj] and req[2] == r[kind.i_act]:
            e = r[kind.i_act + 1]
            if e == mgmt.ALLOW:
                return True
            if e == mgmt.DENY:
                return False
    return False


def spec_check(kind, rows, lf, ops, obs, impl):
    out = []
    arrival = sorted([r for pt, r in rows if pt == 0], key=lambda r: r[0]) if lf else []   # stable
    prev_p = None
    for i, (op, o) in enumerate(zip(ops, obs)):
        c = op[0]
        p = o[3]
        res = o[0]
        # a management call that raises (priority mismatch in an update, ...) must have changed nothing
        if c < 30 and res[0] != 0 and prev_p is not None and p != prev_p:
            out.append((i, "a management call that raised has changed the stored rules"))
            return out
        prev_p = p
        ok = truthy(res) if res[0] == 0 else False
        # maintain the arrival sequence from the call and its reported result
        if c == 1 and op[1] == 0 and ok:
            arrival.append(op[2])
        elif c == 13 and ok:
            arrival.append([op[1]] + list(op[2]))
        elif c == 2 and op[1] == 0 and ok:
            arrival.extend(op[2])
        elif c in (3, 4, 5, 12, 14, 15, 10, 11):
            arrival = [r for r in arrival if r in p]
        elif c == 6 and ok:
            arrival = [op[2] if r == op[1] else r for r in arrival]
        elif c == 7 and ok:
            m = {tuple(a): b for a, b in zip(op[1], op[2])}
            arrival = [m.get(tuple(r), r) for r in arrival]
        elif c == 31 and res[0] == 0:
            arrival = sorted(arrival, key=lambda r: r[0])
        if c < 50 and res[0] == 0:
            want = sorted(arrival, key=lambda r: r[0])
            if [r[0] for r in p] != sorted(r[0] for r in p):
                out.append((i, "stored rules are not in ascending numeric priority"))
                return out
            if sorted(map(repr, p)) == sorted(map(repr, want)) and p != want:
                out.append((i, "rules of equal priority are not in arrival order"))
                return out
            arrival = [r for r in want if r in p] + [r for r in p if r not in want]
        if c == 50 and res[0] == 0 and len(op[1]) == 3:
            d = decide(kind, p, o[4], op[1])
            if d is not None and d != bool(res[1]):
                out.append((i, "decision is not the effect of the first matching allow/deny rule in priority order"))
                return out
    return out


def exhaustive_cases(kind):
    A = mgmt.ATOMS.a
    def r(pr, s, e):
        return [pr, A(s), A("data1"), A("read"), e]
    rules = [r(1, "alice", mgmt.ALLOW), r(2, "alice", mgmt.DENY), r(2, "bob", mgmt.ALLOW), r(1, "alice", mgmt.DENY)]
    alpha = [(1, 0, x) for x in rules] + [(2, 0, [rules[1], rules[0]]), (2, 0, [rules[2], rules[3]]), (3, 0, rules[0]),
             (6, rules[0], rules[3]), (6, rules[1], rules[2]), (7, [rules[0], rules[1]], [rules[3], rules[2]]),
             # a batch update whose first pair is admissible and whose second pair changes the priority (refused as a whole)
             (7, [rules[0], rules[1]], [rules[3], r(1, "bob", mgmt.ALLOW)])]
    q = [(50, [A("alice"), A("data1"), A("read")]), (50, [A("bob"), A("data1"), A("read")])]
    for n in (1, 2, 3):
        for seq in itertools.product(alpha, repeat=n):
            yield ([(0, rules[2])], True, [x for o in seq for x in [o] + q])


def run(chk, n, exh_len):
    rng = chk.rng
    kind = mgmt.KINDS["prio"]
    ex = [c for c in exhaustive_cases(kind) if sum(1 for o in c[2] if o[0] < 50) <= exh_len]
    mgmt.run_cases(chk, kind, ex, spec_check, label=f"exhaustive-len<={exh_len}")
    chk.extra.setdefault("strata", {})[f"exhaustive_prio_len<={exh_len}"] = len(ex)
    chk.exhaustive = True
    for kn in ("prio", "prio_rbac"):
        kind = mgmt.KINDS[kn]
        cases = []
        for _ in range(n):
            g = mgmt.Gen(rng, kind, W)
            rows = g.rows(rng.randint(0, 8))
            cases.append((rows, True, g.history(rng.randint(3, 16), final_probe=True)))
        mgmt.run_cases(chk, kind, cases, spec_check, label=f"random-{kn}")
        chk.extra["strata"][f"random_{kn}"] = len(cases)


# ----------------------------------------------------------------------------- model texts of unusual spelling / replaced models
EFFECT_CANON = "e = priority(p_eft) || deny"
_SPECS = {}


def spec_with(**extra):
    """spec_check carrying what a replay needs to rebuild the enforcer (mgmt.run_cases copies case_extra into the replay)"""
    key = repr(sorted(extra.items()))
    if key not in _SPECS:
        def sc(kind, rows, lf, ops, obs, impl):
            return spec_check(kind, rows, lf, ops, obs, impl)
        sc.case_extra = dict(extra)
        _SPECS[key] = sc
    return _SPECS[key]


def spelled_text(kind, effect_line):
    """the kind's model text with the effect line spelled as given (the text after the key "e")"""
    text = kind.model_text()
    assert EFFECT_CANON in text
    return text.replace(EFFECT_CANON, "e" + effect_line)


def switched_enforcer(start, switch, target_text):
    """-> a callable mgmt.Impl uses in place of the Enforcer class: the enforcer it returns has lived on the model of
    kind `start` (a few rules loaded, a few requests decided) and was then switched to the target model -
    'set_model' = set_model(the new Model object); 'set_model+init_rm_map' = the same followed by init_rm_map() (needed
    when the first model had no role definition and the new one has); 'load_model' = the model FILE the enforcer was
    built from is rewritten and load_model() re-reads it.  mgmt.Impl then attaches the adapter and loads the policy."""
    import os
    import tempfile
    import casbin

    def make(m):
        sk = mgmt.KINDS[start]
        uni = mgmt.Universe(sk)
        import random
        r0 = random.Random(7)
        rows = []
        for _ in range(3):
            r = mgmt.S(uni.p_rule(r0))
            if ("p", r) not in rows:
                rows.append(("p", r))
        if sk.g:
            rows.append(("g", mgmt.S(uni.g_rule(r0))))
        ad0 = mgmt.RecAdapter(rows)
        if switch == "load_model":
            d = tempfile.mkdtemp(prefix="c07m_")
            path = os.path.join(d, "model.conf")
            try:
                with open(path, "w") as f:
                    f.write(sk.model_text())
                e = casbin.Enforcer(path, ad0)
                for req in uni.requests()[:6]:
                    e.enforce(*mgmt.S(req))
                with open(path, "w") as f:
                    f.write(target_text)
                e.load_model()
            finally:
                try:
                    os.unlink(path)
                    os.rmdir(d)
                except OSError:
                    pass
            return e
        from casbin.model import Model
        m0 = Model()
        m0.load_model_from_text(sk.model_text())
        e = casbin.Enforcer(m0, ad0)
        for req in uni.requests()[:6]:
            e.enforce(*mgmt.S(req))
        e.set_model(m)
        if switch == "set_model+init_rm_map":
            e.init_rm_map()
        return e
    return make


# (target kind, kind of the model the enforcer lived on before, how the switch is made)
REPLACED = [("prio", "acl", "set_model"), ("prio", "acl_deny", "set_model"), ("prio", "rbac", "set_model"), ("prio", "acl", "load_model"),
            ("prio", "rbac_deny", "load_model"),
            ("prio_rbac", "rbac", "set_model"), ("prio_rbac", "rbac_deny", "set_model"), ("prio_rbac", "rbac", "load_model"),
            ("prio_rbac", "acl", "set_model+init_rm_map"), ("prio_rbac", "acl_deny", "set_model+init_rm_map")]


def replaced_kwargs(target, start, switch):
    return dict(enforcer_cls=switched_enforcer(start, switch, mgmt.KINDS[target].model_text()))


def run_spelled_and_replaced(chk, n):
    """explicit-priority strata: (a) the model TEXT spells the effect line unusually - what the library refuses is fine, what
    it accepts is an explicit-priority model and gets the same histories and the same SPEC; (b) the enforcer's model was
    REPLACED by the priority model (set_model / load_model) before the history starts"""
    rng = chk.rng
    st = chk.extra.setdefault("strata", {})
    spellings = [sp.replace("subjectPriority", "priority") for sp in c07_subject.SPELLINGS] + \
                [c07_subject.gen_spelling(rng).replace("subjectPriority", "priority") for _ in range(6)]
    acc = ref = ncases = 0
    for i, sp in enumerate(spellings):
        kn = ("prio", "prio_rbac")[i % 2]
        kind = mgmt.KINDS[kn]
        text = spelled_text(kind, sp)
        try:
            mgmt.Impl(kind, [], True, model_text=text)
        except Exception:  # noqa
            ref += 1                      # refused by the library: nothing is stored, nothing is decided
            chk.count(None)
            continue
        acc += 1
        cases = []
        for _ in range(max(4, n // 12)):
            g = mgmt.Gen(rng, kind, W)
            rows = g.rows(rng.randint(0, 8))
            cases.append((rows, True, g.history(rng.randint(3, 12), final_probe=True)))
        mgmt.run_cases(chk, kind, cases, spec_with(model_text=text), label=f"spelled-{kn}", impl_kwargs=dict(model_text=text),
                       key_fn=lambda k, r, o, _t=text: ("spelled", _t, k.name, repr([x for x in o if x[0] < 50])))
        ncases += len(cases)
    st["explicit_priority_effect_line_spellings"] = st.get("explicit_priority_effect_line_spellings", 0) + len(spellings)
    st["explicit_priority_spellings_accepted_by_the_library"] = st.get("explicit_priority_spellings_accepted_by_the_library", 0) + acc
    st["explicit_priority_spellings_refused_by_the_library"] = st.get("explicit_priority_spellings_refused_by_the_library", 0) + ref
    st["explicit_priority_spelled_histories"] = st.get("explicit_priority_spelled_histories", 0) + ncases
    total = 0
    for target, start, switch in REPLACED:
        kind = mgmt.KINDS[target]
        cases = []
        for _ in range(max(6, n // 8)):
            g = mgmt.Gen(rng, kind, W)
            rows = g.rows(rng.randint(0, 8))
            cases.append((rows, True, g.history(rng.randint(3, 12), final_probe=True)))
        mgmt.run_cases(chk, kind, cases, spec_with(replaced=[target, start, switch]), label=f"model-replaced-{target}-after-{start}-by-{switch}",
                       impl_kwargs=replaced_kwargs(target, start, switch),
                       key_fn=lambda k, r, o, _v=(start, switch): ("replaced", _v, k.name, repr([x for x in o if x[0] < 50])))
        total += len(cases)
    st["explicit_priority_model_replaced_histories"] = st.get("explicit_priority_model_replaced_histories", 0) + total


def main():
    chk = Check(PROP)
    chk.rule = ("explicit-priority models (priorities from {1,2,2,5,10}, effect column allow/deny/other): exhaustive sequences "
                "of <=2/3 calls from an 11-call alphabet (single/batch add, remove, update, batch update) with decisions "
                "after each call, plus random histories on ACL- and RBAC-shaped priority models; non-trivial = at least "
                "one mutating call; distinct by (kind, mutating calls)")
    chk.rule += ("; subject-priority stratum: every hierarchy on 3 names (512 digraphs incl. self-loops and cycles) x 2 "
                 "arrival orders, plus random hierarchies on <=6 names (forests, DAGs, cycles; one or two domains) with "
                 "1-3 edit/save/reload rounds on the same enforcer, role chains of 11-16 links; filtered-loading stratum: "
                 "explicit- and subject-priority models on a FilteredFileAdapter, load_filtered_policy followed by "
                 "load_increment_filtered_policy of further subsets; non-trivial = non-empty hierarchy and policy")
    chk.rule += ("; model texts whose effect line is spelled unusually (blanks / tabs / line continuation / comment between the "
                 "pieces of 'priority(p.eft) || deny' and 'subjectPriority(p.eft) || deny'): a spelling the library refuses is "
                 "not judged, one it accepts gets the same histories / hierarchies and the same SPEC; enforcers whose MODEL WAS "
                 "REPLACED (first life on an allow-override / deny-override / allow-and-deny model, ACL or RBAC, then set_model or "
                 "load_model of the rewritten model file, set_adapter, load_policy) before the same histories / rounds")
    chk.assumptions = ["priorities are decimal strings (non-numeric keys are outside the property)",
                       "subject-priority model: names and domains do not contain '::' (get_name_with_domain is then injective)",
                       "the model was loaded once (priority_index is only set by load_policy in this code base)"]
    chk.trusted = ["hand-written models coq/theories/{Policy,RoleGraph,Mgmt,Subject}.v tied by the differential history correspondence",
                   "translator translators/policy.py + interpreter coq/theories/PolLang.v (see C06): the priority insertion of add_policy is "
                   "proved equal to Policy.insert_by_priority of the regenerated source (C07_source_add_inserts_by_priority)"]
    chk.build(translators=["policy"], oracle_name="Mgmt")
    spath, slog = build_oracle("C07")                    # second oracle: coq/theories/Subject.v
    soracle = Oracle(spath) if spath else None
    if slog:
        chk.oracle_log = (chk.oracle_log or "") + slog
        chk.notes.append(slog[:500])
    if chk.replay_file:
        return replay(chk, soracle)
    if chk.tier == "thorough":
        run(chk, 2500, 3)
        c07_subject.run(chk, soracle, 6000)
        c07_filtered.run(chk, soracle, 800)
        c07_values.run(chk, 4000)
        run_spelled_and_replaced(chk, 1200)
    else:
        run(chk, 250, 2)
        c07_subject.run(chk, soracle, 500)
        c07_filtered.run(chk, soracle, 80)
        c07_values.run(chk, 300)
        run_spelled_and_replaced(chk, 100)
        if (chk.broken() or chk.anchor_changed) and not chk.spec_failures:
            run(chk, 1000, 3)
            c07_subject.run(chk, soracle, 3000, exhaustive=False)
            if not chk.spec_failures:
                c07_values.run(chk, 3000)
            if not chk.spec_failures:
                run_spelled_and_replaced(chk, 400)
    chk.finish()


def replay(chk, soracle):
    import json
    rec = json.load(open(chk.replay_file))
    case = rec.get("case", {})
    if case.get("stratum") == "filtered-load":
        c = case["case"]
        bad = None
        for o in c07_filtered.run_impl(c):
            bad = bad or c07_filtered.spec_violation(c, o)
        print("replay (filtered loads):", c["loads"], "->", bad)
        if bad:
            print(f"VIOLATION property={chk.prop} replay={chk.replay_file}")
            raise SystemExit(1)
        print("replay passes: the implementation satisfies the spec on this input")
        raise SystemExit(0)
    if case.get("stratum") == "priority-values":
        bad = c07_values.run_case(case["case"])
        print("replay (priority values / named types):", case["case"], "->", bad)
        if bad:
            print(f"VIOLATION property={chk.prop} replay={chk.replay_file}")
            raise SystemExit(1)
        print("replay passes: the implementation satisfies the spec on this input")
        raise SystemExit(0)
    if case.get("stratum") == "subject-priority":
        c07_subject.run(chk, soracle, 0, exhaustive=False, seed_cases=[case["case"]])
        return chk.finish()
    if case.get("model_text"):
        try:
            return mgmt.replay_case(chk, spec_with(model_text=case["model_text"]), impl_kwargs=dict(model_text=case["model_text"]))
        except SystemExit:
            raise
        except Exception as ex:  # noqa
            print("replay passes: the library refuses this spelling of the model (nothing is decided):", type(ex).__name__, ex)
            raise SystemExit(0)
    if case.get("replaced"):
        return mgmt.replay_case(chk, spec_with(replaced=case["replaced"]), impl_kwargs=replaced_kwargs(*case["replaced"]))
    return mgmt.replay_case(chk, spec_check)


if __name__ == "__main__":
    main()
