"""C08 — enforce_ex explains a decision with the rule that decided it (same model and cases as C01;
here the explanation rule itself is compared, by position, with spec_explain = first deciding rule)."""
from .c01 import main

if __name__ == "__main__":
    main("C08", explain=True)
