"""C09 — with auto-save the adapter's store mirrors the in-memory policy.
SPEC on the implementation (recording adapter implementing Adapter + BatchAdapter + UpdateAdapter):
  * auto-save on: after every management call that reports success the rows the adapter holds equal the
    in-memory policy per policy type; a call that reports failure / no change (or raises) issued no adapter call;
  * auto-save off: no adapter call until save_policy, which then stores exactly the in-memory policy;
  * load_policy directly after such a history changes no decision and no rule."""
import itertools

from ..core import Check
from .. import mgmt
from ..specs import truthy, fmatch

PROP = "C09"
W = dict(p_update_filtered=0.6, probe=0, query=1, load=0, save=0.6, clear=0, build=0, flags=0, rbac=5)
MGMT = set(range(1, 21))
KNOWN_UPD_FILTERED = "C09/update-filtered-policies"


def rows_by_pt(rows):
    d = {0: [], 1: [], 2: []}
    for pt, r in rows:
        d[pt].append(r)
    return d


def upd_filtered_listed(op, mem_before):
    """the fingerprint of the listed finding C09/update-filtered-policies: the call selects nothing, or replaces by nothing, or
    one of the replacement rules is already stored (or repeated in the call) - the cases in which the adapter was told
    before the outcome of the memory side was known"""
    new, i, vs = op[1], op[2], op[3]
    sel = [r for r in mem_before if fmatch(r, i, vs)]
    return (not sel) or (not new) or any(r in mem_before for r in new) or len({tuple(r) for r in new}) != len(new)


def _spec_scan(kind, rows, lf, ops, obs, impl, skip):
    """first violation at a step not in `skip`"""
    out = []
    auto_save = True
    synced = True          # the adapter's rows equalled the in-memory policy after the previous call
    for i, (op, o) in enumerate(zip(ops, obs)):
        c = op[0]
        res, acalls, db = o[0], o[1], rows_by_pt(o[6])
        mem = {0: o[3], 1: o[4], 2: o[5]}
        tag = None
        if c == 8:
            mem_before = obs[i - 1][3] if i > 0 else ([r for pt, r in rows if pt == 0] if lf else [])
            tag = KNOWN_UPD_FILTERED if upd_filtered_listed(op, mem_before) else None
        was_synced, synced = synced, all(sorted(db[pt]) == sorted(mem[pt]) for pt in (0, 1, 2))
        if c == 35:
            auto_save = bool(op[1])
            continue
        if i in skip:
            continue
        if c in MGMT:
            if not auto_save:
                if acalls:
                    out.append((i, "adapter was written although auto-save is off", tag))
                    return out
                continue
            ok = truthy(res)
            if res[0] == 999:
                # the call RAISED (e.g. a grouping rule shorter than the role definition is stored and forwarded before
                # link building refuses it): the property speaks of calls that report success or failure; what it
                # still demands is its headline - the store mirrors memory
                for pt in (0, 1, 2):
                    if sorted(db[pt]) != sorted(mem[pt]):
                        out.append((i, "after a call that raised the adapter's rows differ from the in-memory policy", tag))
                        return out
                continue
            if not ok and acalls:
                out.append((i, "a call that reported failure / no change told the adapter to change something", tag))
                return out
            if not ok and was_synced and not synced and c != 8:
                # the headline: the store MIRRORS memory.  A call that reported failure told the adapter nothing (checked
                # above), so it must not have changed memory either
                out.append((i, "a call that reported failure / no change left the in-memory policy different from the adapter's rows", tag))
                return out
            if ok:
                for pt in (0, 1, 2):
                    if sorted(db[pt]) != sorted(mem[pt]):
                        out.append((i, "after a successful call the adapter's rows differ from the in-memory policy", tag))
                        return out
            elif c == 8 and any(sorted(db[pt]) != sorted(mem[pt]) for pt in (0, 1, 2)):
                out.append((i, "after a successful call the adapter's rows differ from the in-memory policy", tag))
                return out
        elif c == 33:
            if len(acalls) != 1 or acalls[0][0] != 9:
                out.append((i, "save_policy did not issue exactly one save to the adapter"))
                return out
            for pt in (0, 1, 2):
                if db[pt] != mem[pt]:
                    out.append((i, "save_policy did not store exactly the in-memory policy"))
                    return out
        elif c == 31 and auto_save and i > 0:
            before = obs[i - 1]
            if sorted(map(repr, before[3])) != sorted(map(repr, o[3])) or sorted(map(repr, before[4])) != sorted(map(repr, o[4])):
                # only meaningful when every earlier call was made with auto-save on
                if all(x[0] != 35 for x in ops[:i]):
                    out.append((i, "load_policy directly after an auto-saved history changed the policy"))
                    return out
        elif acalls and c not in (31, 32):
            out.append((i, "a non-management call wrote to the adapter"))
            return out
    return out




def spec_check(kind, rows, lf, ops, obs, impl):
    """the first violation; a step whose violation is the LISTED finding (update_filtered_policies) does not end the scan:
    the calls after it are judged too, and a violation there is reported in its own right"""
    skip = set()
    known = []
    for _ in range(len(ops) + 1):
        out = _spec_scan(kind, rows, lf, ops, obs, impl, skip)
        if not out:
            return known
        if len(out[0]) > 2 and out[0][2] is not None:
            known = known or out
            k = out[0][0]
            o = obs[k]
            db, mem = rows_by_pt(o[6]), {0: o[3], 1: o[4], 2: o[5]}
            if any(sorted(db[pt]) != sorted(mem[pt]) for pt in (0, 1, 2)):
                return known          # the listed finding left store and memory apart: what follows is its consequence
            skip.add(k)
            continue
        return out
    return known

def make_cases(rng, kn, n, autosave_off_share=0.25):
    cases = []
    for _ in range(n):
        kind = mgmt.KINDS[kn].with_(adapter=True, watcher=rng.choice([0, 1, 2]))
        # remove_policies(get_policy()) - the batch IS the live list - on the kinds whose histories the model follows for it
        g = mgmt.Gen(rng, kind, W if kind.prio else dict(W, alias_remove=0.4))
        rows = g.rows(rng.randint(0, 6))
        ops = []
        off = rng.random() < autosave_off_share
        if off:
            ops.append((35, False))
        ops += g.history(rng.randint(3, 16), final_probe=False)
        uni = mgmt.Universe(kind)
        probe = mgmt.probe_ops(kind, uni)
        if off:
            ops += [(33,)]
        ops += probe + [(31,)] + probe
        cases.append((kind, rows, True, ops))
    return cases


def reload_check(kind, rows, lf, ops, obs, impl):
    """decisions before and after the final reload are equal (probe + load + probe at the end)"""
    base = spec_check(kind, rows, lf, ops, obs, impl)
    if base:
        return base
    if (31,) in ops:
        j = max(i for i, o in enumerate(ops) if o == (31,))
        n = len(ops) - j - 1
        if n > 0 and j - n >= 0 and list(ops[j - n:j]) == list(ops[j + 1:]):
            a = [o[0] for o in obs[j - n:j]]
            b = [o[0] for o in obs[j + 1:]]
            if a != b and not any(o[0] == 8 for o in ops[:j]):
                k = next(x for x in range(n) if a[x] != b[x])
                return [(j + 1 + k, "load_policy directly after an auto-saved history changed a decision / role query")]
    return []


def known_probe(chk):
    """the listed known finding, replayed on every run"""
    A = mgmt.ATOMS.a
    kind = mgmt.KINDS["acl"]
    r1 = [A("alice"), A("data1"), A("read")]
    r2 = [A("bob"), A("data2"), A("write")]
    ops = [(1, 0, r1), (8, [r2], 0, [A("carol")])]      # nothing matches: memory unchanged, adapter gained r2
    mgmt.run_cases(chk, kind, [([], True, ops)], spec_check, label="known-finding-probe")


def short_rule_probe(chk):
    """a grouping rule SHORTER than the role definition: the call raises while building the link, after the rule was
    stored and forwarded; store and memory must still mirror each other right after that call (no reload afterwards:
    the unusable rule makes every later load_policy fail, which is why the random histories contain no such rule)"""
    A = mgmt.ATOMS.a
    cases = []
    for kn, short in (("rbac", [A("carol")]), ("dom", [A("carol"), A("admin")]), ("rbac_res", [A("carol")])):
        kind = mgmt.KINDS[kn]
        pre = [(1, 0, [A("alice")] + ([A("d1")] if kind.dom else []) + [A("data1"), A("read")]),
               (1, 1, [A("alice"), A("admin")] + ([A("d1")] if kind.dom else []))]
        for ops in ([(1, 1, short)], pre + [(1, 1, short)], pre + [(16, A("bob"), A("admin"))] + [(1, 1, short)]):
            mgmt.run_cases(chk, kind, [([], True, ops)], spec_check, label=f"short-grouping-rule-{kn}", compare_model=False)


def odd_priority_probe(chk):
    """a loaded explicit-priority model and a rule whose priority field is not an integer (the insertion step cannot
    place it): whatever the call reports, store and memory must mirror each other right afterwards (no reload: the
    bundled sort refuses to compare such a value with numbers, so every later load_policy fails by design)"""
    A = mgmt.ATOMS.a
    n = 0
    for kn in ("prio", "prio_rbac"):
        kind = mgmt.KINDS[kn]
        rows = [(0, [5, A("alice"), A("data1"), A("read"), mgmt.ALLOW]), (0, [10, A("bob"), A("data2"), A("write"), mgmt.DENY])]
        for odd in ("1.5", "high", "-"):
            r = [A(odd), A("alice"), A("data1"), A("read"), mgmt.DENY]
            for ops in ([(1, 0, r)], [(2, 0, [r])], [(1, 0, r), (3, 0, r)],
                        [(1, 0, [7, A("carol"), A("data1"), A("read"), mgmt.ALLOW]), (1, 0, r), (1, 0, r)]):
                mgmt.run_cases(chk, kind, [(rows, True, ops)], spec_check, label=f"non-numeric-priority-{kn}", compare_model=False)
                n += 1
    chk.extra.setdefault("strata", {})["non_numeric_priority_probe"] = n


def after_update_filtered_probe(chk):
    """whatever update_filtered_policies itself does (listed finding), the calls AFTER it are ordinary calls: every shape of
    that call (nothing selected / selection replaced / empty replacement / replacement already present), then single and batch
    adds and removes, judged by the same mirror SPEC (the finding's tag covers the update_filtered call only)"""
    A = mgmt.ATOMS.a
    kind = mgmt.KINDS["acl"]
    r = lambda s_, o_, a_: [A(s_), A(o_), A(a_)]
    rows = [(0, r("alice", "data1", "read")), (0, r("bob", "data2", "write")), (0, r("alice", "data2", "read"))]
    shapes = [(8, [], 0, [A("bob")]), (8, [], 0, [A("carol")]), (8, [r("carol", "data1", "read")], 0, [A("alice")]),
              (8, [r("bob", "data2", "write")], 0, [A("alice")]), (8, [r("carol", "x", "y")], 0, [A("nobody")]),
              # a filter of blanks only selects EVERY rule: the whole policy is replaced
              (8, [r("carol", "data1", "read")], 0, [0]), (8, [r("carol", "data1", "read"), r("dan", "data9", "read")], 1, [0, 0]),
              (8, [r("carol", "data1", "read")], 0, [])]
    after = [(1, 0, r("erin", "data1", "read")), (3, 0, r("bob", "data2", "write")), (2, 0, [r("dan", "data1", "read"), r("dan", "data2", "read")]),
             (4, 0, [r("erin", "data1", "read")]), (6, r("dan", "data1", "read"), r("dan", "data1", "write"))]
    n = 0
    for sh in shapes:
        ops = [sh] + after
        mgmt.run_cases(chk, kind, [(rows, True, ops)], spec_check, label="after-update-filtered", compare_model=False)
        n += 1
    chk.extra.setdefault("strata", {})["after_update_filtered_probe"] = n


def large_batch_probe(chk):
    """batch calls are not bounded by the handful of rules the histories use: add_policies / remove_policies /
    add_grouping_policies with several hundred rules (251, 500, 777), then a partial batch removal and single calls - the
    adapter's rows must equal the in-memory policy after each"""
    A = mgmt.ATOMS.a
    n = 0
    for kn in ("acl", "rbac"):
        kind = mgmt.KINDS[kn]
        for size in (251, 500, 777):
            big = [[A(f"user{i}"), A(f"res{i % 7}"), A("read")] for i in range(size)]
            ops = [(2, 0, big), (3, 0, big[0]), (4, 0, big[1:size - 3]), (1, 0, big[5])]
            if kind.g:
                gs = [[A(f"user{i}"), A(f"group{i % 5}")] for i in range(size)]
                ops += [(2, 1, gs), (4, 1, gs[2:])]
            mgmt.run_cases(chk, kind, [([], True, ops)], spec_check, label=f"large-batch-{kn}", compare_model=False)
            n += 1
    chk.extra.setdefault("strata", {})["large_batch_probe"] = n


def adapter_replaced_probe(chk):
    """"the adapter" is the one the enforcer holds NOW: after set_adapter(other) - a migration: the other store is given the
    current policy by save_policy - every auto-saved change goes to the new adapter and none to the old one, whatever calls
    were made before the switch (single, batch, update, filtered)"""
    import itertools
    import os
    import tempfile
    import casbin
    n = 0
    calls = {
        "add": lambda e, i: e.add_policy(f"u{i}", "data1", "read"),
        "adds": lambda e, i: e.add_policies([[f"v{i}", "data1", "read"], [f"v{i}", "data2", "read"]]),
        "removes": lambda e, i: e.remove_policies([["alice", "data1", "read"]]) if i == 0 else e.remove_policies([[f"v{i - 1}", "data1", "read"]]),
        "update": lambda e, i: e.update_policy(["bob", "data2", "write"], [f"bob{i}", "data2", "write"]) if i == 0 else e.add_policy(f"w{i}", "x", "y"),
        "remove_filtered": lambda e, i: e.remove_filtered_policy(0, f"u{i - 1}") if i else e.remove_filtered_policy(0, "nobody"),
    }
    with tempfile.TemporaryDirectory(prefix="c09_") as d:
        kind = mgmt.KINDS["acl"]
        mp = os.path.join(d, "acl.conf")
        with open(mp, "w") as f:
            f.write(kind.model_text())
        for before in itertools.product(sorted(calls), repeat=2):
            for after in itertools.product(sorted(calls), repeat=2):
                e = casbin.Enforcer(mp)
                old = mgmt.RecAdapter([("p", ["alice", "data1", "read"]), ("p", ["bob", "data2", "write"])])
                e.set_adapter(old)
                e.load_policy()
                for i, c in enumerate(before):
                    calls[c](e, i)
                new = mgmt.RecAdapter([])
                e.set_adapter(new)
                e.save_policy()
                old.calls = []
                res = []
                for i, c in enumerate(after):
                    try:
                        res.append(calls[c](e, i + 2))
                    except Exception as exc:  # noqa
                        res.append("raise " + type(exc).__name__)
                n += 1
                chk.count(("adapter-replaced", before, after))
                mem = sorted(map(tuple, e.get_policy()))
                store = sorted(tuple(r) for pt, r in new.rows if pt == "p")
                if old.calls or mem != store:
                    chk.spec_fail(dict(stratum="adapter-replaced", calls_before_set_adapter=list(before), calls_after=list(after)),
                                  dict(results=res, old_adapter_calls=[list(map(str, c)) for c in old.calls][:4], memory=mem, new_store=store),
                                  "old adapter untouched; new adapter's rows = memory",
                                  "after set_adapter the auto-saved changes did not (all) reach the adapter the enforcer holds")
                    chk.extra.setdefault("strata", {})["adapter_replaced_probe"] = n
                    return
    chk.extra.setdefault("strata", {})["adapter_replaced_probe"] = n


def reload_model_probe(chk):
    """auto-save is the USER's switch: with auto-save off the adapter is not written until save_policy - also after the
    model (and the policy) were reloaded in between.  Implementation-level SPEC on an enforcer built from a model file."""
    import os
    import tempfile
    import casbin
    n = 0
    with tempfile.TemporaryDirectory(prefix="c09_") as d:
        for kn in ("acl", "rbac"):
            kind = mgmt.KINDS[kn]
            mp = os.path.join(d, kn + ".conf")
            with open(mp, "w") as f:
                f.write(kind.model_text())
            for steps in (["load_model", "load_policy"], ["load_policy"], ["load_model"], ["load_model", "load_policy", "load_model", "load_policy"]):
                e = casbin.Enforcer(mp)
                ad = mgmt.RecAdapter([("p", ["alice", "data1", "read"])])
                e.set_adapter(ad)
                e.load_policy()
                e.enable_auto_save(False)
                for st in steps:
                    getattr(e, st)()
                ad.calls = []
                r1 = e.add_policy("bob", "data2", "write")
                r2 = e.remove_policy("alice", "data1", "read") if "load_policy" in steps else None
                r3 = e.add_policies([["carol", "data1", "read"], ["carol", "data2", "read"]])
                n += 1
                chk.count(("auto-save-off-across-reload", kn, tuple(steps)))
                writes = [c for c in ad.calls if c[0] != "save"]
                if writes:
                    chk.spec_fail(dict(stratum="auto-save-off-across-reload", kind=kn, steps_after_enable_auto_save_False=steps,
                                       calls=["add_policy", "remove_policy", "add_policies"]),
                                  dict(results=[r1, r2, r3], adapter_calls=[list(map(str, c)) for c in writes][:4]), "no adapter write",
                                  "the adapter was written although auto-save is off (the switch did not survive a model/policy reload)")
                    break
    chk.extra.setdefault("strata", {})["auto_save_off_across_reload"] = n


def run(chk, n):
    rng = chk.rng
    known_probe(chk)
    short_rule_probe(chk)
    reload_model_probe(chk)
    odd_priority_probe(chk)
    after_update_filtered_probe(chk)
    large_batch_probe(chk)
    adapter_replaced_probe(chk)
    for kn in ("acl", "rbac", "dom", "rbac_res", "prio"):
        cases = make_cases(rng, kn, n)
        by_kind = {}
        for kind, rows, lf, ops in cases:
            by_kind.setdefault(kind.watcher, (kind, []))[1].append((rows, lf, ops))
        for w, (kind, cs) in by_kind.items():
            mgmt.run_cases(chk, kind, cs, reload_check, label=f"random-{kn}")
        chk.extra.setdefault("strata", {})[f"random_{kn}"] = len(cases)
    # the same on the AsyncEnforcer (each call awaited): async_internal_enforcer.py is a separate copy of the code
    from ..async_facade import AsyncFacade
    for kn in ("acl", "rbac", "dom"):
        cases = make_cases(rng, kn, max(30, n // 3))
        by_kind = {}
        for kind, rows, lf, ops in cases:
            by_kind.setdefault(kind.watcher, (kind, []))[1].append((rows, lf, ops))
        for w, (kind, cs) in by_kind.items():
            mgmt.run_cases(chk, kind, cs, reload_check_async, label=f"random-async-{kn}", impl_kwargs=dict(enforcer_cls=AsyncFacade),
                           key_fn=lambda k, r, o: ("async", k.name, repr([x for x in o if x[0] < 50])))
        chk.extra["strata"][f"random_async_{kn}"] = len(cases)


# ----------------------------------------------------------------------------- values with leading / trailing blanks
# A field value that differs from another one only by surrounding blanks is a DIFFERENT value (C06): "alice " and "alice"
# may both be stored.  The mirror SPEC does not care what the values look like: after every successful call the adapter
# holds, value for value, what memory holds, and a reload changes nothing.  The adapter of this stratum keeps and hands
# back the stored columns verbatim (as a database adapter does); mgmt.RecAdapter renders each row as a CSV line on load,
# which trims blanks by design (C10) and would itself change a padded rule.
PAD_BASE = ["alice", "bob", "admin", "editor", "data1", "data2", "grp", "read", "write", "d1", "d2", "eve"]
PAD_FORMS = [lambda x: x + " ", lambda x: " " + x, lambda x: " " + x + " ", lambda x: x + "\t"]
PADDED = {}                                  # atom of a name -> atoms of its padded spellings (interned at import: replays decode alike)
for _n in PAD_BASE:
    PADDED[mgmt.ATOMS.a(_n)] = [mgmt.ATOMS.a(f(_n)) for f in PAD_FORMS]


class VerbatimAdapter(mgmt.RecAdapter):
    """RecAdapter whose load_policy hands the stored rows to the model value for value"""

    def load_policy(self, model):
        n = 0
        for pt, r in self.rows:
            if self.fail_at is not None and n >= self.fail_at:
                raise mgmt.AdapterFail("injected failure after %d rows" % n)
            sec = pt[0]
            if sec in model.model and pt in model.model[sec]:
                model.model[sec][pt].policy.append(list(r))
            n += 1
        if self.fail_at is not None:
            raise mgmt.AdapterFail("injected failure after %d rows" % n)


class verbatim_store:
    """within this block mgmt.Impl attaches a VerbatimAdapter instead of a RecAdapter"""

    def __enter__(self):
        self.saved = mgmt.RecAdapter
        mgmt.RecAdapter = VerbatimAdapter

    def __exit__(self, *a):
        mgmt.RecAdapter = self.saved
        return False


def reload_check_padded(kind, rows, lf, ops, obs, impl):
    return reload_check(kind, rows, lf, ops, obs, impl)


reload_check_padded.case_extra = dict(store="verbatim")


def pad_value(rng, x, forms, share):
    """an interned NAME (atoms >= 1003; opcodes, policy types, positions, priorities, allow/deny are smaller) is replaced by
    the padded spelling chosen for it in this history w.p. `share`, so that a name occurs both plain and padded"""
    if isinstance(x, bool) or not isinstance(x, int):
        if isinstance(x, (list, tuple)):
            return [pad_value(rng, y, forms, share) for y in x]
        return x
    if x in forms and rng.random() < share:
        return forms[x]
    return x


def pad_op(rng, op, forms, share):
    return tuple([op[0]] + [pad_value(rng, a, forms, share) for a in op[1:]])


def padded_exhaustive(maxlen):
    """every sequence of <= maxlen calls over single / batch / filtered / update / RBAC-API calls whose rules differ only by
    surrounding blanks, then probe + load_policy + probe"""
    A = mgmt.ATOMS.a
    rs = [[A("eve"), A("data1"), A("read")], [A("eve "), A("data1"), A("read")], [A(" eve"), A("data1"), A("read")],
          [A("eve"), A("data1 "), A("read")]]
    alpha = [(1, 0, r) for r in rs] + [(3, 0, r) for r in rs[:3]] + \
            [(2, 0, [rs[1], rs[3]]), (4, 0, [rs[0], rs[2]]), (6, rs[0], rs[1]), (6, rs[2], rs[3]), (7, [rs[1], rs[0]], [rs[2], rs[3]]),
             (13, A("eve "), [A("data1"), A("read")]), (14, A(" eve"), [A("data1"), A("read")]), (15, A("eve ")),
             (5, 0, 0, [A("eve ")]), (5, 0, 1, [A("data1 ")]), (12, [A("data1 "), A("read")])]
    probe = [(50, [s_, o_, A("read")]) for s_ in (A("eve"), A("eve "), A(" eve")) for o_ in (A("data1"), A("data1 "))]
    for n in range(1, maxlen + 1):
        for seq in itertools.product(alpha, repeat=n):
            yield ([(0, rs[0])], True, list(seq) + probe + [(31,)] + probe)


def padded_random(rng, kn, n):
    """random histories (mgmt.Gen) in which names are replaced, occurrence by occurrence, by padded spellings - in the
    initial rows, in every management call (single / batch / filtered / update / update_filtered / RBAC API) and in the
    requests; 20% run with auto-save off and end in save_policy; all end in probe + load_policy + probe"""
    cases = []
    for _ in range(n):
        kind = mgmt.KINDS[kn].with_(adapter=True, watcher=rng.choice([0, 1, 2]))
        g = mgmt.Gen(rng, kind, dict(W, p_update_filtered=0.6 if rng.random() < 0.3 else 0))
        forms = {a: rng.choice(v) for a, v in PADDED.items() if rng.random() < 0.6}
        share = rng.choice([0.3, 0.5, 0.7])
        rows, seen = [], set()
        for pt, r in g.rows(rng.randint(0, 6)):
            r = pad_value(rng, r, forms, share)
            if (pt, tuple(r)) not in seen:
                seen.add((pt, tuple(r)))
                rows.append((pt, r))
        ops = []
        off = rng.random() < 0.2
        if off:
            ops.append((35, False))
        ops += [pad_op(rng, o, forms, share) for o in g.history(rng.randint(3, 14), final_probe=False)]
        uni = mgmt.Universe(kind)
        probe = mgmt.probe_ops(kind, uni)
        probe = probe + [pad_op(rng, o, forms, 0.6) for o in probe[:24]]
        if off:
            ops += [(33,)]
        ops += probe + [(31,)] + probe
        cases.append((kind, rows, True, ops))
    return cases


def run_padded(chk, n, exh_len):
    rng = chk.rng
    st = chk.extra.setdefault("strata", {})
    with verbatim_store():
        ex = list(padded_exhaustive(exh_len))
        mgmt.run_cases(chk, mgmt.KINDS["acl"], ex, reload_check_padded, label=f"padded-values-len<={exh_len}",
                       key_fn=lambda k, r, o: ("padded", k.name, repr([x for x in o if x[0] < 50])))
        st[f"padded_values_exhaustive_len<={exh_len}"] = len(ex)
        for kn in ("acl", "rbac", "dom", "rbac_res", "prio"):
            cases = padded_random(rng, kn, n)
            by_kind = {}
            for kind, rows, lf, ops in cases:
                by_kind.setdefault(kind.watcher, (kind, []))[1].append((rows, lf, ops))
            for w, (kind, cs) in by_kind.items():
                mgmt.run_cases(chk, kind, cs, reload_check_padded, label=f"padded-values-random-{kn}",
                               key_fn=lambda k, r, o: ("padded", k.name, repr(r), repr([x for x in o if x[0] < 50])))
            st[f"padded_values_random_{kn}"] = st.get(f"padded_values_random_{kn}", 0) + len(cases)
        from ..async_facade import AsyncFacade
        cases = padded_random(rng, "rbac", max(10, n // 3))
        by_kind = {}
        for kind, rows, lf, ops in cases:
            by_kind.setdefault(kind.watcher, (kind, []))[1].append((rows, lf, ops))
        for w, (kind, cs) in by_kind.items():
            mgmt.run_cases(chk, kind, cs, reload_check_padded_async, label="padded-values-random-async-rbac",
                           impl_kwargs=dict(enforcer_cls=AsyncFacade),
                           key_fn=lambda k, r, o: ("padded-async", k.name, repr(r), repr([x for x in o if x[0] < 50])))
        st["padded_values_random_async_rbac"] = st.get("padded_values_random_async_rbac", 0) + len(cases)


def reload_check_padded_async(kind, rows, lf, ops, obs, impl):
    return reload_check(kind, rows, lf, ops, obs, impl)


reload_check_padded_async.case_extra = dict(store="verbatim", enforcer="AsyncEnforcer")


# ----------------------------------------------------------------------------- FastEnforcer (added after the third seeding wave)
_FAST = {}


def fast_kwargs(order):
    import casbin
    from casbin.model import FastModel
    return dict(enforcer_cls=casbin.FastEnforcer, enforcer_kwargs=dict(cache_key_order=list(order)),
                model_factory=lambda: FastModel(list(order)), sort_p=True)


def fast_spec(order):
    """the same SPEC on a FastEnforcer with a cache-key order: its permission rules live in a two-level index whose
    iteration order is unspecified, so the in-memory p rules (mgmt.Impl sort_p) and the p rows a save_policy wrote are
    compared as sorted lists"""
    order = tuple(order)
    if order not in _FAST:
        def sc(kind, rows, lf, ops, obs, impl):
            canon = [o[:6] + [sorted([x for x in o[6] if x[0] == 0]) + [x for x in o[6] if x[0] != 0]] for o in obs]
            return reload_check(kind, rows, lf, ops, canon, impl)
        sc.case_extra = dict(enforcer="FastEnforcer", cache_key_order=list(order))
        _FAST[order] = sc
    return _FAST[order]


def fast_keep(op):
    # only calls whose result does not depend on the iteration order of the index
    return op[0] < 50 or op[0] in (50, 54, 55, 56, 59) or (op[0] in (52, 53) and op[1] != 0)


def run_fast(chk, n):
    """FastEnforcer (cache_key_order given) with the recording adapter: its in-memory store is a separate container
    (casbin/model/policy_fast.py) behind the same management calls"""
    import itertools
    rng = chk.rng
    for kn, fields in (("acl", [0, 1, 2]), ("rbac", [1, 2])):
        total = 0
        for order in itertools.permutations(fields, 2):
            cases = []
            for kind, rows, lf, ops in make_cases(rng, kn, n):
                cases.append((kind, rows, lf, [o for o in ops if fast_keep(o)]))
            by_kind = {}
            for kind, rows, lf, ops in cases:
                by_kind.setdefault(kind.watcher, (kind, []))[1].append((rows, lf, ops))
            for w, (kind, cs) in by_kind.items():
                mgmt.run_cases(chk, kind, cs, fast_spec(order), label=f"random-fast-{kn}-key{order[0]}{order[1]}",
                               impl_kwargs=fast_kwargs(order), compare_model=False,
                               key_fn=lambda k, r, o, _o=order: ("fast", _o, k.name, repr([x for x in o if x[0] < 50])))
            total += len(cases)
        chk.extra.setdefault("strata", {})[f"random_fast_{kn}"] = total


def reload_check_async(kind, rows, lf, ops, obs, impl):
    return reload_check(kind, rows, lf, ops, obs, impl)


reload_check_async.case_extra = dict(enforcer="AsyncEnforcer")


def main():
    chk = Check(PROP)
    chk.rule = ("management histories (single/batch/filtered/update/update_filtered, RBAC-API wrappers, valid and rejected "
                "calls) against a recording in-memory adapter implementing the adapter, batch-adapter and update-adapter "
                "interfaces; 25% of the histories run with auto-save off and end in save_policy; every history ends in "
                "probe + load_policy + probe; the same on the AsyncEnforcer (every call awaited) for ACL / RBAC / domain models "
                "and on a FastEnforcer with every admissible 2-field cache-key order (6 on ACL, 2 on RBAC models); "
                "non-trivial = at least one mutating call; distinct by (kind, mutating calls); values with leading / "
                "trailing blanks (a name occurs both plain and padded: 'alice', 'alice ', ' alice') in the initial rows, in every "
                "management entry point and in the requests - exhaustive sequences of <=2 calls from a 19-call alphabet and "
                "random histories on ACL / RBAC / domain / resource-role / priority models and the AsyncEnforcer - against an "
                "adapter that keeps and loads the stored columns verbatim")
    chk.assumptions = ["the adapter is faithful: it applies each call to its rows as Mgmt.apply_acall does and returns None",
                       "clear_policy is memory-only by design; histories here contain none"]
    chk.trusted = ["hand-written models coq/theories/{Policy,RoleGraph,Mgmt}.v tied by the differential history correspondence",
                   "translator translators/internal.py (casbin/internal_enforcer.py -> coq/gen/InternalGen.v, syntactic, fail-closed, regenerated "
                   "on this run) + interpreter coq/theories/IntLang.v; InternalTie.v proves the regenerated internal API = Mgmt.v's i_* functions "
                   "(results, rule lists, adapter calls, notifications) for every configuration; _update_filtered_policies not translated"]
    chk.build(translators=["internal", "polwrap"], oracle_name="Mgmt")
    if chk.replay_file:
        import json
        c = (json.load(open(chk.replay_file)).get("case") or {})
        if c.get("stratum") in ("adapter-replaced", "auto-save-off-across-reload"):
            # cheap deterministic probes: re-run and report what they report
            chk.spec_failures = []
            (adapter_replaced_probe if c["stratum"] == "adapter-replaced" else reload_model_probe)(chk)
            hit = [f for f in chk.spec_failures if f["case"].get("stratum") == c["stratum"]]
            if hit:
                print("replay:", json.dumps(hit[0])[:700])
                print(f"VIOLATION property={PROP} replay={chk.replay_file}")
                raise SystemExit(1)
            print("replay passes: the probe reports nothing on this tree")
            raise SystemExit(0)
        if c.get("store") == "verbatim":
            with verbatim_store():
                if c.get("enforcer") == "AsyncEnforcer":
                    from ..async_facade import AsyncFacade
                    return mgmt.replay_case(chk, reload_check_padded_async, impl_kwargs=dict(enforcer_cls=AsyncFacade))
                return mgmt.replay_case(chk, reload_check_padded)
        if c.get("enforcer") == "FastEnforcer":
            chk.oracle = None      # implementation-level stratum (the index order of FastPolicy is not the model's)
            return mgmt.replay_case(chk, fast_spec(c["cache_key_order"]), impl_kwargs=fast_kwargs(c["cache_key_order"]))
        if c.get("enforcer") == "AsyncEnforcer":
            from ..async_facade import AsyncFacade
            return mgmt.replay_case(chk, reload_check_async, impl_kwargs=dict(enforcer_cls=AsyncFacade))
        return mgmt.replay_case(chk, reload_check)
    if chk.tier == "thorough":
        run(chk, 1500)
        run_fast(chk, 250)
        run_padded(chk, 600, 3)
    else:
        run(chk, 150)
        run_fast(chk, 25)
        run_padded(chk, 60, 2)
        if (chk.broken() or chk.anchor_changed) and not chk.spec_failures:
            run(chk, 800)
            if not chk.spec_failures:
                run_fast(chk, 120)
            if not chk.spec_failures:
                run_padded(chk, 300, 2)
    chk.finish()


if __name__ == "__main__":
    main()
