"""C10 — saving then loading a policy through the bundled adapters is lossless.
Proof: Props/C10.v (Csv.v / CsvProofs.v, strings = code points, no length bound).
Correspondence (this file):
  W  Python's str.isspace()/str.strip() whitespace set vs Csv.is_space on ALL 1 114 112 code points;
  L  exhaustive lines (length <= 4 over a 13-symbol alphabet) through the real load_policy_line
     vs Csv.parse_line and vs the spec Csv.spec_parse;
  F  exhaustive fields (length <= 4): the property's wf_field stated in Python vs Csv.wf_field, and a
     one-rule save->load through StringAdapter and FileAdapter for every well-formed one;
  R  generated policies (p, p2, g, g2; with and without a role definition) through Enforcer +
     FileAdapter / StringAdapter and AsyncEnforcer + AsyncFileAdapter: save_policy(); load_policy();
     SPEC (first sentence) = the policy comes back identical; saved text and result vs the model;
  T  generated policy texts (line grammar + malformed lines) through the three adapters' load_policy
     on a fresh Model, all sections observed; SPEC (second sentence) = Csv.spec_load on grammar texts,
     cross-checked against an independent Python statement of that sentence.
"""
import asyncio
import itertools
import json
import os
import sys
import tempfile
import time

import casbin
from casbin.model import Model
from casbin.persist.adapter import load_policy_line
from casbin.persist.adapters import FileAdapter, StringAdapter
from casbin.persist.adapters.asyncio import AsyncFileAdapter

from .. import core
from ..core import Check, classify_exception, canon

PROP = "C10"
F12 = "C10/string_adapter_empty_policy"

MODEL4 = """[request_definition]
r = sub, obj, act
[policy_definition]
p = sub, obj, act
p2 = sub, act
[role_definition]
g = _, _
g2 = _, _
[policy_effect]
e = some(where (p.eft == allow))
[matchers]
m = g(r.sub, p.sub) && g2(r.obj, p.obj) && r.act == p.act
"""
MODEL_NOG = """[request_definition]
r = sub, obj, act
[policy_definition]
p = sub, obj, act
p2 = sub, act
[policy_effect]
e = some(where (p.eft == allow))
[matchers]
m = r.sub == p.sub && r.obj == p.obj && r.act == p.act
"""
MODELS = {"rbac4": MODEL4, "nog": MODEL_NOG}
PTYPES = {"rbac4": ["p", "p2", "g", "g2"], "nog": ["p", "p2"]}

ALPHA = ["a", "é", "漢", " ", "#", "(", ")", "[", "]", ",", '"', "\t", "p"]
SPECIAL = set(" #()[],\"\t") | {"é", "漢"}
ADAPTERS = ["file", "async", "string"]


# ----------------------------------------------------------------------------- the property's words in Python
def py_wf_field(f):
    """no top-level comma, no line break, no leading or trailing blank, only balanced brackets"""
    if f != f.strip() or "\n" in f:
        return False
    depth = 0
    for c in f:
        if c in "([":
            depth += 1
        elif c in ")]":
            depth -= 1
            if depth < 0:
                return False
        elif c == "," and depth == 0:
            return False
    return depth == 0


def py_split_top(line):
    """split at the commas that are outside brackets"""
    out, cur, depth = [], "", 0
    for c in line:
        if c in "([":
            depth += 1
        elif c in ")]":
            depth = max(depth - 1, 0)
        if c == "," and depth == 0:
            out.append(cur)
            cur = ""
        else:
            cur += c
    return out + [cur]


def py_spec_load(lines, snap):
    """second sentence of C10 on grammar texts: non-empty non-comment lines, split, trimmed, attached by first field"""
    res = [[s, k, [list(r) for r in pol]] for s, k, pol in snap]
    for l in lines:
        if l == "" or l[0] == "#":
            continue
        toks = [t.strip() for t in py_split_top(l)]
        for a in res:
            if a[1] == toks[0] and chr(a[0]) == toks[0][:1]:
                a[2].append(toks[1:])
    return res


# ----------------------------------------------------------------------------- running the real code
class Env:
    def __init__(self):
        self.tmp = tempfile.TemporaryDirectory(prefix="c10_")
        self.path = os.path.join(self.tmp.name, "policy.csv")
        self.loop = asyncio.new_event_loop()

    def close(self):
        self.loop.close()
        self.tmp.cleanup()


def snapshot(model):
    """every assertion of every section in dict order: [ord(sec), key, policy]"""
    return [[ord(sec), key, [list(r) for r in ast.policy]] for sec, d in model.model.items() for key, ast in d.items()]


def wire(snap):
    return [[s, k, pol] for s, k, pol in snap]


def obs_ok(x):
    return [0, canon(x)]


def obs_err(e):
    return [999, classify_exception(e)]


def make_enforcer(env, adapter_kind, model_kind):
    m = Model()
    m.load_model_from_text(MODELS[model_kind])
    if adapter_kind == "string":
        a = StringAdapter("p, seed, seed, seed")
        e = casbin.Enforcer(m, a)
    elif adapter_kind == "file":
        open(env.path, "wb").close()
        a = FileAdapter(env.path)
        e = casbin.Enforcer(m, a)
    else:
        open(env.path, "wb").close()
        a = AsyncFileAdapter(env.path)
        e = casbin.AsyncEnforcer(m, a)
    e.enable_auto_save(False)
    e.enable_auto_build_role_links(False)   # rules of any arity; links are C04/C12's business
    return e, a


def run_roundtrip(env, adapter_kind, model_kind, policy):
    """policy: {ptype: [rule,...]}.  Returns (before, saved_text_or_None, observation)"""
    e, a = make_enforcer(env, adapter_kind, model_kind)
    e.clear_policy()
    for pt, rules in policy.items():
        e.model.model[pt[0]][pt].policy = [list(r) for r in rules]
    before = snapshot(e.model)
    saved = None
    try:
        if adapter_kind == "async":
            env.loop.run_until_complete(e.save_policy())
        else:
            e.save_policy()
        saved = a.line if adapter_kind == "string" else open(env.path, "rb").read().decode("utf-8")
        if adapter_kind == "async":
            env.loop.run_until_complete(e.load_policy())
        else:
            e.load_policy()
        return before, saved, obs_ok(snapshot(e.model))
    except Exception as ex:  # noqa
        return before, saved, obs_err(ex)


def run_load(env, adapter_kind, text, model_kind="rbac4"):
    """adapter.load_policy(fresh model) on a given text; all sections observed"""
    m = Model()
    m.load_model_from_text(MODELS[model_kind])
    base = snapshot(m)
    try:
        if adapter_kind == "string":
            StringAdapter(text).load_policy(m)
        else:
            with open(env.path, "wb") as f:
                f.write(text.encode("utf-8"))
            if adapter_kind == "file":
                FileAdapter(env.path).load_policy(m)
            else:
                env.loop.run_until_complete(AsyncFileAdapter(env.path).load_policy(m))
        return base, obs_ok(snapshot(m))
    except Exception as ex:  # noqa
        return base, obs_err(ex)


_LINE_MODEL = None


def impl_parse_line(line):
    """real load_policy_line on a model that defines every section/key -> what was attached"""
    class Ast:
        def __init__(self):
            self.policy = []

    got = []

    class AnyKeys:
        def __contains__(self, k):
            return True

    class Sec:
        def keys(self):
            return AnyKeys()

        def __getitem__(self, k):
            a = Ast()
            got.append((k, a))
            return a

    class MM:
        def keys(self):
            return AnyKeys()

        def __getitem__(self, k):
            return Sec()

    class M:
        model = MM()

    try:
        load_policy_line(line, M())
    except Exception as ex:  # noqa
        return obs_err(ex)
    if not got:
        return [0, []]
    k, a = got[-1]
    return [0, [canon([k, a.policy[0]])]]


# ----------------------------------------------------------------------------- generators
def gen_field(rng, wf_bias=0.85):
    for _ in range(30):
        r = rng.random()
        if r < 0.06:
            # text that is NOT in Unicode normal form C (combining marks, compatibility singletons, conjoining jamo): a
            # field is the code points it was given, whatever normalisation would make of them
            f = rng.choice(["Zoe\u0308", "e\u0301", "\u212b", "\u2126m", "\u1100\u1161", "a\u0323\u0307", "\u0958", "x\u0301y"]) + \
                rng.choice(["", "", "1", "é"])
        elif r < 0.18:
            inner = rng.choice(["a, b", "x,y", "", " ", "[a,b], c", "é,漢", '","'])
            f = rng.choice(["f(%s)", "[%s]", "(%s)", "a[%s]b", "((%s))"]) % inner
        else:
            f = "".join(rng.choice(ALPHA) for _ in range(rng.choice([0, 1, 1, 2, 2, 3, 3, 4, 5, 6])))
        if py_wf_field(f) or rng.random() > wf_bias:
            return f
    return "a"


def gen_policy(rng, model_kind, wf_bias):
    pol = {}
    for pt in PTYPES[model_kind]:
        rules = []
        for _ in range(rng.choice([0, 0, 1, 1, 2, 3, 4])):
            ar = rng.choice([1, 2, 2, 3, 3, 4])
            rules.append([gen_field(rng, wf_bias) for _ in range(ar)])
        pol[pt] = rules
    return pol


BLANKS = ["", "", " ", " ", "  ", "\t", "　", "\r", "\x1f ", "\xa0"]
KEYS = ["p", "p", "p2", "g", "g2", "q", "r", "m", "e", "p3", "pp", "gp", "P", "é", "g 2", "#p"]


def gen_line(rng, malformed):
    r = rng.random()
    if r < 0.08:
        return ""
    if r < 0.13:
        return rng.choice([" ", "\t", "\r", "  　"]) if malformed else ""
    if r < 0.22:
        return rng.choice(["#", "# comment", "#p, a, b", " # indented, comment", "#(", "#,,"])
    if malformed and r < 0.34:
        return rng.choice([",p, a, b", ",,a", ",", " , a", "(x), a", "[p], a", "p, a), b", "p, a], (b", ")",
                           "p, (a", "p, [a, b", ", ", "(", ",(a)", "p,a)("])
    key = rng.choice(KEYS)
    n = rng.choice([0, 1, 2, 2, 3, 3, 4])
    fields = [gen_field(rng, 0.9 if not malformed else 0.5) for _ in range(n)]
    parts = [key] + fields
    return rng.choice(["", "", " "]) + ",".join(rng.choice(BLANKS) + p + rng.choice(BLANKS) for p in parts)


def gen_text(rng, malformed):
    n = rng.choice([0, 1, 2, 3, 4, 5, 6])
    lines = [gen_line(rng, malformed) for _ in range(n)]
    # fields never contain '\n' here; a line may though be split further by one (kept: it is a text)
    sep = rng.choice(["\n", "\n", "\n", "\r\n", "\n\n"])
    return sep.join(lines) + rng.choice(["", "", "\n", "\n\n"])


def policy_key(pol):
    return tuple((pt, tuple(tuple(r) for r in rules)) for pt, rules in sorted(pol.items()))


def policy_special(pol):
    return any(f == "" or (set(f) & SPECIAL) for rules in pol.values() for r in rules for f in r)


# ----------------------------------------------------------------------------- shrinking
def shrink_policy(pol, fails):
    pol = {k: [list(r) for r in v] for k, v in pol.items()}
    changed = True
    while changed:
        changed = False
        for pt in list(pol):
            i = 0
            while i < len(pol[pt]):
                cand = {k: ([r for j, r in enumerate(v) if not (k == pt and j == i)]) for k, v in pol.items()}
                if fails(cand):
                    pol, changed = cand, True
                else:
                    i += 1
        for pt in list(pol):
            for i, r in enumerate(pol[pt]):
                for j, f in enumerate(r):
                    k = 0
                    while k < len(pol[pt][i][j]):
                        f = pol[pt][i][j]
                        cand = {a: [list(x) for x in b] for a, b in pol.items()}
                        cand[pt][i][j] = f[:k] + f[k + 1:]
                        if fails(cand):
                            pol, changed = cand, True
                        else:
                            k += 1
    return pol


def shrink_text(text, fails):
    changed = True
    while changed:
        changed = False
        lines = text.split("\n")
        for i in range(len(lines)):
            cand = "\n".join(lines[:i] + lines[i + 1:])
            if cand != text and fails(cand):
                text, changed = cand, True
                break
        if changed:
            continue
        for k in range(len(text)):
            cand = text[:k] + text[k + 1:]
            if fails(cand):
                text, changed = cand, True
                break
    return text


# ----------------------------------------------------------------------------- judging one case
def is_f12(adapter_kind, pol, obs):
    """fingerprint of the known finding: string adapter, no rule at all, RuntimeError on reload"""
    return adapter_kind == "string" and all(len(v) == 0 for v in pol.values()) and obs == [999, core.ERR["ERuntime"]]


def judge_roundtrip(chk, env, adapter_kind, model_kind, pol, stratum, record=True):
    """returns 'ok' | 'spec' | 'model'"""
    before, saved, obs = run_roundtrip(env, adapter_kind, model_kind, pol)
    w = wire(before)
    tag_save, tag_rt = (8, 10) if adapter_kind == "string" else (7, 9)
    m_saved, m_rt, m_wf = chk.oracle.query([(tag_save, w), (tag_rt, w), (13, w)])
    wf_py = all(py_wf_field(f) for rules in pol.values() for r in rules for f in r) and \
        all(len(r) > 0 for rules in pol.values() for r in rules)
    case = dict(kind="roundtrip", adapter=adapter_kind, model=model_kind, policy=pol, stratum=stratum)
    verdict = "ok"
    if bool(m_wf) != wf_py:
        verdict = "model"
        if record:
            chk.disagree(case, wf_py, m_wf, where="wf_field: the property's words in Python vs Csv.wf_modelb")
    if wf_py:
        want = obs_ok(before)
        if obs != want:
            verdict = "spec"
            if record:
                fid = F12 if is_f12(adapter_kind, pol, obs) else None
                chk.spec_fail(case, dict(saved=saved, after=obs), want,
                              "save_policy(); load_policy() did not give back the same policy", finding=fid)
    if verdict == "ok":
        if obs != m_rt:
            verdict = "model"
            if record:
                chk.disagree(case, obs, m_rt, where=f"round trip through {adapter_kind}: implementation vs model")
        elif saved is not None and canon(saved) != m_saved:
            verdict = "model"
            if record:
                chk.disagree(case, saved, core.wstr(m_saved), where=f"text saved by {adapter_kind}: implementation vs model")
    return verdict, before, saved, obs, m_rt


def judge_load(chk, env, adapter_kind, text, stratum, record=True):
    base, obs = run_load(env, adapter_kind, text)
    kind = 1 if adapter_kind == "string" else 0
    w = wire(base)
    m_obs, (all_ok, m_spec) = chk.oracle.query([(6 if kind else 5, [text, w]), (12, [kind, text, w])])
    case = dict(kind="load", adapter=adapter_kind, text=text, stratum=stratum)
    verdict = "ok"
    in_grammar = bool(all_ok) and not (kind == 1 and text == "")
    if in_grammar:
        want = [0, m_spec]
        # independent statement of the sentence, to guard the spec itself
        lines = [l.strip() for l in text.split("\n")] if kind == 0 else [l for l in text.split("\n") if l != ""]
        py = obs_ok(py_spec_load(lines, base))
        if py != want:
            verdict = "model"
            if record:
                chk.disagree(case, py, want, where="spec_load (Coq) vs the sentence stated in Python")
        if obs != want:
            verdict = "spec"
            if record:
                chk.spec_fail(case, obs, want, "loading a text of the line grammar did not yield its lines split at "
                              "top-level commas, trimmed, attached by first field")
    if verdict == "ok" and obs != m_obs:
        verdict = "model"
        if record:
            chk.disagree(case, obs, m_obs, where=f"load_policy through {adapter_kind}: implementation vs model")
    return verdict, base, obs, m_obs, in_grammar


def too_many(chk, cap=3, spec=False):
    """after a few recorded failures further ones are only counted (shrinking each would take minutes)"""
    if len(chk.spec_failures if spec else chk.disagreements) >= cap:
        chk.extra["further_failures_not_shrunk"] = chk.extra.get("further_failures_not_shrunk", 0) + 1
        return True
    return False


# ----------------------------------------------------------------------------- strata
def stratum_whitespace(chk):
    model = chk.oracle.query([(1, 0x110000)])[0]
    py_isspace = [c for c in range(0x110000) if chr(c).isspace()]
    py_strip = [c for c in range(0x110000) if (chr(c) + "a" + chr(c)).strip() == "a"]
    chk.count(("whitespace", len(py_isspace)), n=0x110000)
    chk.extra["whitespace_code_points_compared"] = 0x110000
    chk.extra["whitespace_set_size"] = len(py_isspace)
    if py_isspace != py_strip:
        chk.disagree(dict(kind="whitespace"), "isspace", "strip", where="CPython: str.isspace and str.strip disagree")
    if model != py_strip:
        diff = sorted(set(model) ^ set(py_strip))[:10]
        chk.disagree(dict(kind="whitespace", code_points=diff), "str.strip", "Csv.is_space",
                     where="whitespace set: CPython vs Csv.is_space")
    # strip on strings
    rng = chk.rng
    pool = [" ", "\t", "\n", "\r", "\x0b", "\x1c", "\x85", "\xa0", " ", "　", "a", ",", "é", "(", "​", "﻿"]
    ss = ["".join(rng.choice(pool) for _ in range(rng.randint(0, 7))) for _ in range(1500)]
    rep = chk.oracle.query([(2, s) for s in ss])
    for s, r in zip(ss, rep):
        chk.count(None)
        if canon(s.strip()) != r:
            chk.disagree(dict(kind="strip", s=s), s.strip(), core.wstr(r), where="str.strip vs Csv.strip")
    return [(2, s) for s in ss[:40]], rep[:40]


def stratum_lines(chk, maxlen):
    lines = ["".join(t) for n in range(maxlen + 1) for t in itertools.product(ALPHA, repeat=n)]
    rep = chk.oracle.query([(3, l) for l in lines])
    rep_spec = chk.oracle.query([(4, l) for l in lines])
    rep_ok = chk.oracle.query([(11, l) for l in lines])
    bad = 0
    for l, m, s, (_, _, in_grammar) in zip(lines, rep, rep_spec, rep_ok):
        o = impl_parse_line(l)
        nontrivial = o[0] == 0 and o[1] != [] and len(o[1][0][1]) >= 1
        chk.count(("line", l) if nontrivial else None)
        if o != s and in_grammar:
            # on the line grammar spec_parse IS the property's second sentence (split_top, trim, first field)
            bad += 1
            if bad <= 3:
                chk.spec_fail(dict(kind="line", line=l), o, s, "load_policy_line: a line of the grammar is not split at "
                              "its top-level commas, trimmed and attached by its first field")
        elif (o != s or o != m) and not too_many(chk):
            chk.disagree(dict(kind="line", line=l), o, s if o != s else m,
                         where="load_policy_line vs Csv.spec_parse / Csv.parse_line outside the line grammar "
                               "(IndexError exactly on leading bracket / bracket underflow / blank key; leading-comma quirk)")
    chk.extra.setdefault("strata", {})["exhaustive_lines"] = len(lines)
    idx = chk.rng.sample(range(len(lines)), 60)
    return [(3, lines[i]) for i in idx], [rep[i] for i in idx]


def stratum_fields(chk, env, maxlen):
    fields = ["".join(t) for n in range(maxlen + 1) for t in itertools.product(ALPHA, repeat=n)]
    rep = chk.oracle.query([(11, f) for f in fields])
    n_wf = 0
    for f, (wf, wk, lo) in zip(fields, rep):
        if bool(wf) != py_wf_field(f):
            chk.disagree(dict(kind="field", field=f), py_wf_field(f), wf, where="wf_field: Python statement vs Csv.wf_field")
    wf_fields = [f for f in fields if py_wf_field(f)]
    # one-rule round trip at adapter level for every well-formed field, in first, middle and last position
    m = Model()
    m.load_model_from_text(MODEL4)
    open(env.path, "wb").close()
    for f in wf_fields:
        n_wf += 1
        for rule in ([f, "x", "y"], ["x", f, "y"], ["x", "y", f]):
            for kind in ("string", "file"):
                for sec in m.model.values():
                    for a in sec.values():
                        a.policy = []
                m.model["p"]["p"].policy = [list(rule)]
                try:
                    ad = StringAdapter("x") if kind == "string" else FileAdapter(env.path)
                    ad.save_policy(m)
                    m.model["p"]["p"].policy = []
                    ad.load_policy(m)
                    got = [0, m.model["p"]["p"].policy]
                except Exception as ex:  # noqa
                    got = obs_err(ex)
                chk.count(("field-rt", kind, f) if (f == "" or set(f) & SPECIAL) else None)
                if got != [0, [rule]] and not too_many(chk, spec=True):
                    chk.spec_fail(dict(kind="roundtrip", adapter=kind, model="rbac4",
                                       policy={"p": [rule], "p2": [], "g": [], "g2": []}, stratum="exhaustive-fields"),
                                  got, [0, [rule]], "one-rule save -> load lost the rule")
    chk.extra.setdefault("strata", {})["exhaustive_fields"] = len(fields)
    chk.extra["strata"]["exhaustive_wf_fields_roundtripped"] = n_wf


def stratum_roundtrip(chk, env, n):
    rng = chk.rng
    reqs, reps = [], []
    fixed = [("rbac4", {pt: [] for pt in PTYPES["rbac4"]}, "empty-policy"),
             ("nog", {pt: [] for pt in PTYPES["nog"]}, "empty-policy"),
             ("nog", {"p": [["a", "b", "c"]], "p2": []}, "no-role-definition"),
             ("rbac4", {"p": [["a b", "f(a, b)", ""]], "p2": [["", ""]], "g": [["é", "漢"]], "g2": [["#", '"']]}, "mixed")]
    cases = [(mk, pol, st) for mk, pol, st in fixed]
    for i in range(n):
        mk = "nog" if rng.random() < 0.15 else "rbac4"
        wf_bias = 1.0 if rng.random() < 0.8 else 0.5
        cases.append((mk, gen_policy(rng, mk, wf_bias), "random-wf" if wf_bias == 1.0 else "random-any"))
    counts = {}
    for mk, pol, st in cases:
        for ad in ADAPTERS:
            verdict, before, saved, obs, m_rt = judge_roundtrip(chk, env, ad, mk, pol, st, record=False)
            counts[st] = counts.get(st, 0) + 1
            nontrivial = policy_special(pol) and any(pol.values())
            chk.count((ad, mk, policy_key(pol)) if nontrivial else None)
            if len(chk.samples) < 5 and nontrivial and ad == ADAPTERS[len(chk.samples) % 3]:
                chk.sample(dict(adapter=ad, model=mk, policy=pol, saved=saved, after=obs))
            if verdict != "ok":
                if is_f12(ad, pol, obs):
                    judge_roundtrip(chk, env, ad, mk, pol, st, record=True)
                    continue
                if too_many(chk, spec=(verdict == "spec")):
                    continue
                small = shrink_policy(pol, lambda c: judge_roundtrip(chk, env, ad, mk, c, st, record=False)[0] == verdict
                                      and not is_f12(ad, c, run_roundtrip(env, ad, mk, c)[2]))
                judge_roundtrip(chk, env, ad, mk, small, st + "/shrunk", record=True)
            elif len(reqs) < VMCAP[0]:
                reqs.append((10 if ad == "string" else 9, wire(before)))
                reps.append(m_rt)
    chk.traces += len(cases) * len(ADAPTERS)
    chk.extra.setdefault("strata", {}).update({"roundtrip/" + k: v for k, v in counts.items()})
    return reqs, reps


def stratum_texts(chk, env, n):
    rng = chk.rng
    fixed = ["", "\n", "p, a, b, c", "p, a, b, c\n", "# only a comment", "p, f(x, y), [1,2]\ng, a, b\n\nq, z",
             "p, a\r\np, b\r\n", "p, a\n \np, b", ",p, a, b", "p, a), b", "(p), a", "p, a\n,,\np, b", "p\np2,\ng,,"]
    cases = [(t, "fixed") for t in fixed]
    for i in range(n):
        malformed = rng.random() < 0.3
        cases.append((gen_text(rng, malformed), "malformed-mix" if malformed else "grammar"))
    counts = {"in_grammar": 0, "outside_grammar": 0}
    reqs, reps = [], []
    for text, st in cases:
        for ad in ADAPTERS:
            verdict, base, obs, m_obs, in_grammar = judge_load(chk, env, ad, text, st, record=False)
            counts["in_grammar" if in_grammar else "outside_grammar"] += 1
            loaded = obs[0] == 0 and any(a[2] for a in obs[1])
            chk.count((ad, text) if loaded else None)
            if verdict != "ok" and not too_many(chk, spec=(verdict == "spec")):
                small = shrink_text(text, lambda c: judge_load(chk, env, ad, c, st, record=False)[0] == verdict)
                judge_load(chk, env, ad, small, st + "/shrunk", record=True)
            elif len(reqs) < VMCAP[0]:
                reqs.append((6 if ad == "string" else 5, [text, wire(base)]))
                reps.append(m_obs)
    chk.traces += len(cases) * len(ADAPTERS)
    chk.extra.setdefault("strata", {}).update({"texts/" + k: v for k, v in counts.items()})
    return reqs, reps


VMCAP = [60]


def stratum_same_adapter(chk, env, n):
    """save -> load REPEATEDLY on one enforcer + adapter, with different policies of exactly the same serialised
    length written in quick succession (same size, same second): every load must return what the save just before
    it stored, not an earlier policy.  SPEC only."""
    rng = chk.rng
    vals = ["aa", "bb", "cc", "dd", "éé", "ab"]
    runs = 0
    for ak in ADAPTERS:
        for _ in range(n):
            e, a = make_enforcer(env, ak, "rbac4")
            hist = []
            for step in range(rng.randint(2, 4)):
                # same number of rules and same field widths every time -> same byte length
                pol = {"p": [[rng.choice(vals[:4]), rng.choice(vals[:4]), rng.choice(vals[:4])] for _ in range(3)],
                       "g": [[rng.choice(vals[:4]), rng.choice(vals[:4])] for _ in range(2)]}
                if step > 0 and ak != "string" and rng.random() < 0.3:
                    # the EMPTY policy saved over a store that holds rules (the string adapter refuses an empty text by design:
                    # listed finding C10/string_adapter_empty_policy)
                    pol = {"p": [], "g": []}
                e.clear_policy()
                for pt, rules in pol.items():
                    e.model.model[pt[0]][pt].policy = [list(r) for r in rules]
                before = snapshot(e.model)
                try:
                    if ak == "async":
                        env.loop.run_until_complete(e.save_policy())
                        env.loop.run_until_complete(e.load_policy())
                    else:
                        e.save_policy()
                        e.load_policy()
                    obs = obs_ok(snapshot(e.model))
                except Exception as ex:  # noqa
                    obs = obs_err(ex)
                hist.append(pol)
                runs += 1
                chk.count(("same-adapter", ak, json.dumps(hist)))
                if obs != obs_ok(before):
                    chk.spec_fail(dict(kind="same-adapter-history", adapter=ak, model="rbac4", stratum="same-adapter",
                                       policies_saved_then_loaded=hist), dict(after_last_load=str(obs)[:400]), "the policy saved last",
                                  "save_policy(); load_policy() repeated on one adapter: a load did not give back the policy just saved")
                    break
    chk.extra.setdefault("strata", {})["same_adapter_save_load_steps"] = runs


MODEL_PRIO = """[request_definition]
r = sub, obj, act
[policy_definition]
p = priority, sub, obj, act, eft
p2 = priority, sub, act
[role_definition]
g = _, _
[policy_effect]
e = priority(p.eft) || deny
[matchers]
m = g(r.sub, p.sub) && r.obj == p.obj && r.act == p.act
"""
PRIO_NAMES = ["zoe", "bob", "alice", "é", "a b", "f(x, y)", "漢", "Bob"]


def prio_ordered(snap):
    """the priority column (first field of p and p2 rules) never decreases: the order load_policy establishes and the
    management API keeps (C07)"""
    for s, k, pol in snap:
        if chr(s) == "p":
            ps = [int(r[0]) for r in pol]
            if ps != sorted(ps):
                return False
    return True


def run_priority_history(env, ak, initial_text, calls):
    """an ENFORCER on a model with a priority column: built from a policy text (load_policy orders it by priority),
    then management calls, then save_policy(); load_policy(); and a second enforcer loading the same store.
    Returns (before, saved text, observation after the reload, observation of the fresh enforcer)"""
    def wait(x):
        return env.loop.run_until_complete(x) if asyncio.iscoroutine(x) else x
    m = Model()
    m.load_model_from_text(MODEL_PRIO)
    if ak == "string":
        a = StringAdapter(initial_text)
        e = casbin.Enforcer(m, a)
    else:
        with open(env.path, "wb") as f:
            f.write(initial_text.encode("utf-8"))
        if ak == "file":
            a = FileAdapter(env.path)
            e = casbin.Enforcer(m, a)
        else:
            a = AsyncFileAdapter(env.path)
            e = casbin.AsyncEnforcer(m, a)
            wait(e.load_policy())
    e.enable_auto_save(False)
    for c in calls:
        wait(getattr(e, c[0])(*c[1:]))
    before = snapshot(e.model)
    saved = None
    try:
        wait(e.save_policy())
        saved = a.line if ak == "string" else open(env.path, "rb").read().decode("utf-8")
        wait(e.load_policy())
        obs = obs_ok(snapshot(e.model))
    except Exception as ex:  # noqa
        return before, saved, obs_err(ex), None
    try:
        m2 = Model()
        m2.load_model_from_text(MODEL_PRIO)
        if ak == "string":
            e2 = casbin.Enforcer(m2, StringAdapter(saved))
        elif ak == "file":
            e2 = casbin.Enforcer(m2, FileAdapter(env.path))
        else:
            e2 = casbin.AsyncEnforcer(m2, AsyncFileAdapter(env.path))
            wait(e2.load_policy())
        fresh = obs_ok(snapshot(e2.model))
    except Exception as ex:  # noqa
        fresh = obs_err(ex)
    return before, saved, obs, fresh


def gen_priority_history(rng):
    prios = ["1", "2", "2", "3", "10", "10"]

    def rule(pt):
        if pt == "p":
            return [rng.choice(prios), rng.choice(PRIO_NAMES), rng.choice(["data2", "data1"]), rng.choice(["write", "read"]),
                    rng.choice(["deny", "allow"])]
        if pt == "p2":
            return [rng.choice(prios), rng.choice(PRIO_NAMES), rng.choice(["write", "read"])]
        return [rng.choice(PRIO_NAMES), rng.choice(["role2", "role1"])]
    lines = []
    for _ in range(rng.randint(0, 5)):
        pt = rng.choice(["p", "p", "p2", "g"])
        lines.append(", ".join([pt] + rule(pt)))
    lines = [l for k, l in enumerate(lines) if l not in lines[:k]]
    if not lines:
        lines = ["p, 5, seed, data1, read, allow"]        # (the string adapter refuses an empty text: listed finding)
    calls, live = [], []
    for _ in range(rng.randint(2, 8)):
        pt = rng.choice(["p", "p", "p", "p2", "g"])
        if live and rng.random() < 0.15:
            pt, r = live.pop(rng.randrange(len(live)))
            calls.append(["remove_named_grouping_policy" if pt == "g" else "remove_named_policy", pt] + r)
        else:
            r = rule(pt)
            live.append((pt, r))
            calls.append(["add_named_grouping_policy" if pt == "g" else "add_named_policy", pt] + r)
    return "\n".join(lines) + "\n", calls


def judge_priority(chk, env, ak, text, calls, record=True):
    before, saved, obs, fresh = run_priority_history(env, ak, text, calls)
    case = dict(kind="priority-history", adapter=ak, model="priority", stratum="priority-model", initial_text=text, calls=calls)
    if not prio_ordered(before):
        return "premise", case, before, obs      # the in-memory order is not a priority order: C07's business, nothing to demand
    want = obs_ok(before)
    if obs != want or fresh != want:
        if record:
            chk.spec_fail(case, dict(saved=saved, after_reload=obs, fresh_enforcer=fresh), want,
                          "save_policy(); load_policy() through an Enforcer on a model with a priority column did not give "
                          "back the same rules in the same order" + ("" if obs != want else " (to a second enforcer reading the same store)"))
        return "spec", case, before, obs
    if chk.oracle is not None:
        w = wire(before)
        tag_save, tag_rt = (8, 10) if ak == "string" else (7, 9)
        m_saved, m_rt = chk.oracle.query([(tag_save, w), (tag_rt, w)])
        if obs != m_rt or (saved is not None and canon(saved) != m_saved):
            if record:
                chk.disagree(case, dict(saved=saved, after=obs), dict(saved=core.wstr(m_saved), after=m_rt),
                             where=f"priority model round trip through {ak}: implementation vs model")
            return "model", case, before, obs
    return "ok", case, before, obs


def stratum_priority(chk, env, n):
    """models whose load_policy ORDERS the rules (priority column): the policy is built by an Enforcer (loaded text +
    management calls, so rules of equal priority stand in arrival order, not text order), saved and loaded again"""
    rng = chk.rng
    runs = skipped = 0
    t0 = time.time()
    for ak in ADAPTERS:
        for _ in range(n):
            text, calls = gen_priority_history(rng)
            verdict, case, before, obs = judge_priority(chk, env, ak, text, calls, record=False)
            runs += 1
            if verdict == "premise":
                skipped += 1
                continue
            ties = any(len({r[0] for r in pol}) < len(pol) for s, k, pol in before if chr(s) == "p")
            chk.count(("priority", ak, text, json.dumps(calls)) if ties else None)
            if verdict != "ok":
                if verdict == "spec" and not too_many(chk, spec=True):
                    # shrink: drop calls while it still fails
                    i = len(calls) - 1
                    while i >= 0:
                        cand = calls[:i] + calls[i + 1:]
                        if judge_priority(chk, env, ak, text, cand, record=False)[0] == "spec":
                            calls = cand
                        i -= 1
                    judge_priority(chk, env, ak, text, calls)
                elif verdict == "model" and not too_many(chk):
                    judge_priority(chk, env, ak, text, calls)
    st = chk.extra.setdefault("strata", {})
    st["priority_model_wall_s"] = round(time.time() - t0, 1)
    st["priority_model_histories"] = runs
    st["priority_model_premise_not_met"] = skipped


def large_policy(shift, size):
    """> size bytes of mostly multi-byte text; `shift` ASCII bytes in the first rule move every later character by one
    byte, so that over shift = 0,1,2 a 3-byte character straddles EVERY byte offset (in particular any buffer
    boundary a reader may use)"""
    rules = [["s" + "a" * shift, "x", "y"]]
    n, i = 0, 0
    while n < size:
        r = ["漢字" * 12 + "é" + str(i), "数据" + str(i % 7), "読"]
        rules.append(r)
        n += len((", ".join(["p"] + r) + "\n").encode("utf-8"))
        i += 1
    return {"p": rules, "g": [["用户" + str(k), "役割" + str(k % 3)] for k in range(40)]}


def stratum_large(chk, env, shifts, sizes):
    """SPEC only: big policies (beyond any plausible read buffer) round-trip through the file adapters and load from
    hand-written text"""
    n = 0
    for size in sizes:
        for shift in shifts:
            pol = large_policy(shift, size)
            for ak in ("file", "async"):
                before, saved, obs = run_roundtrip(env, ak, "rbac4", pol)
                n += 1
                chk.count(("large", ak, size, shift))
                small = dict(kind="roundtrip-large", adapter=ak, model="rbac4", stratum="large-file", shift=shift, bytes=size,
                             policy_generator="harness.props.c10.large_policy(shift, bytes)")
                if obs != obs_ok(before):
                    chk.spec_fail(small, dict(after=str(obs)[:300]), "the same policy",
                                  "save_policy(); load_policy() of a large multi-byte policy did not give back the same policy")
                    continue
                text = "".join(", ".join([pt] + r) + "\n" for pt, rs in pol.items() for r in rs)
                base, obs2 = run_load(env, ak, text)
                if obs2 != obs_ok(before):
                    chk.spec_fail(dict(small, kind="load-large"), dict(after=str(obs2)[:300]), "the rules of the text",
                                  "load_policy of a large multi-byte policy text did not yield its lines")
    chk.extra.setdefault("strata", {})["large_file_cases"] = n


def run(chk, n_pol, n_text, maxlen):
    VMCAP[0] = 60 if chk.tier == "quick" else 500
    if chk.oracle is None:
        chk.notes.append("oracle unavailable; correspondence not run")
        return
    env = Env()
    try:
        vm_reqs, vm_reps = [], []
        for part in (stratum_whitespace(chk), stratum_lines(chk, maxlen)):
            vm_reqs += part[0]
            vm_reps += part[1]
        stratum_fields(chk, env, maxlen)
        stratum_same_adapter(chk, env, 12 if chk.tier == "quick" else 120)
        stratum_large(chk, env, (0, 1, 2), (70_000,) if chk.tier == "quick" else (9_000, 70_000, 140_000, 300_000))
        stratum_priority(chk, env, max(60, n_pol // 20))
        for part in (stratum_roundtrip(chk, env, n_pol), stratum_texts(chk, env, n_text)):
            vm_reqs += part[0]
            vm_reps += part[1]
    finally:
        env.close()
    chk.exhaustive = True
    chk.extra["exhaustive_scope"] = f"all lines and all fields of length <= {maxlen} over {len(ALPHA)} symbols; all code points for the whitespace set"
    ok, n, log = core.vm_crosscheck(PROP, "From PyCasbin Require Import Base Csv.", "oracle_C10", vm_reqs, vm_reps)
    chk.vm_checked += n
    if not ok:
        chk.disagree(dict(kind="extraction-vs-vm_compute"), "extracted oracle", log, where="vm_compute cross-check")


def replay(chk):
    rec = json.load(open(chk.replay_file))
    c = rec.get("case") or {}
    env = Env()
    try:
        if c.get("kind") == "roundtrip":
            before, saved, obs = run_roundtrip(env, c["adapter"], c["model"], c["policy"])
            w = wire(before)
            m_rt = chk.oracle.query([(10 if c["adapter"] == "string" else 9, w)])[0]
            want = obs_ok(before)
            print(f"replay: saved={saved!r} impl={obs} model={m_rt} spec={want}")
            wf = all(py_wf_field(f) for rules in c["policy"].values() for r in rules for f in r if True) and \
                all(len(r) > 0 for rules in c["policy"].values() for r in rules)
            bad = wf and obs != want
        elif c.get("kind") == "load":
            verdict, base, obs, m_obs, in_grammar = judge_load(chk, env, c["adapter"], c["text"], "replay", record=False)
            print(f"replay: impl={obs} model={m_obs} in_grammar={in_grammar} verdict={verdict}")
            bad = verdict == "spec"
        elif c.get("kind") == "same-adapter-history":
            e, a = make_enforcer(env, c["adapter"], c["model"])
            bad = False
            for pol in c["policies_saved_then_loaded"]:
                e.clear_policy()
                for pt, rules in pol.items():
                    e.model.model[pt[0]][pt].policy = [list(r) for r in rules]
                before = snapshot(e.model)
                try:
                    if c["adapter"] == "async":
                        env.loop.run_until_complete(e.save_policy())
                        env.loop.run_until_complete(e.load_policy())
                    else:
                        e.save_policy()
                        e.load_policy()
                    obs = obs_ok(snapshot(e.model))
                except Exception as ex:  # noqa
                    obs = obs_err(ex)
                bad = bad or obs != obs_ok(before)
            print(f"replay: {len(c['policies_saved_then_loaded'])} save/load steps on one {c['adapter']} adapter: all round trips ok = {not bad}")
        elif c.get("kind") == "priority-history":
            verdict, _, before, obs = judge_priority(chk, env, c["adapter"], c["initial_text"], c["calls"], record=False)
            print(f"replay: priority model through {c['adapter']}: before={before} after={obs} verdict={verdict}")
            bad = verdict == "spec"
        elif c.get("kind") in ("roundtrip-large", "load-large"):
            pol = large_policy(c["shift"], c["bytes"])
            before, saved, obs = run_roundtrip(env, c["adapter"], c["model"], pol)
            text = "".join(", ".join([pt] + r) + "\n" for pt, rs in pol.items() for r in rs)
            base, obs2 = run_load(env, c["adapter"], text)
            print(f"replay: large policy shift={c['shift']} bytes={c['bytes']}: round trip ok={obs == obs_ok(before)} load ok={obs2 == obs_ok(before)}")
            bad = obs != obs_ok(before) or obs2 != obs_ok(before)
        elif c.get("kind") == "line":
            o = impl_parse_line(c["line"])
            s, (_, _, in_grammar) = chk.oracle.query([(4, c["line"]), (11, c["line"])])
            print(f"replay: impl={o} spec={s} in_grammar={in_grammar}")
            bad = o != s and bool(in_grammar)
        else:
            print("replay file names a broken theorem/correspondence, not an input:", json.dumps(rec.get("broken"))[:800])
            sys.exit(1)
    finally:
        env.close()
    if bad:
        if c.get("kind") == "roundtrip" and is_f12(c["adapter"], c["policy"], obs) and \
                any(f["id"] == F12 and f.get("status") == "known" for f in chk.findings):
            print(f"KNOWN-FINDING: property={PROP} {F12}")
            sys.exit(0)
        print(f"VIOLATION property={PROP} replay={chk.replay_file}")
        sys.exit(1)
    print("replay passes: implementation agrees with the spec on this input")
    sys.exit(0)


def main():
    chk = Check(PROP)
    chk.rule = ("(R) policies for p, p2, g, g2 (and a model without role definition): 0-4 rules per type, 1-4 fields per "
                "rule, fields over {a, é, 漢, ' ', '#', '(', ')', '[', ']', ',', '\"', TAB, p} plus bracketed-comma "
                "templates, 80% restricted to well-formed fields; saved and reloaded through Enforcer+FileAdapter, "
                "AsyncEnforcer+AsyncFileAdapter, Enforcer+StringAdapter; non-trivial = at least one rule with an empty "
                "field or a field containing a blank, '#', bracket, comma, quote or non-ASCII character; distinct by "
                "(adapter, model, policy). (T) texts of 0-6 lines (rule lines with random blank padding, comments, empty "
                "and blank lines, unknown types, CRLF, 30% with malformed lines) loaded by the three adapters; "
                "non-trivial = at least one rule lands in the model. (L/F) every line and every field of length <= 4 "
                "over the alphabet; (W) every Unicode code point for the whitespace set. (P) a model with a priority column: text "
                "loaded by an Enforcer, 2-8 add/remove calls with priorities from {1, 2, 3, 10} (ties on purpose), save, load, "
                "and a second enforcer on the same store; non-trivial = two rules share a priority.")
    chk.assumptions = [
        "UTF-8 locale and strings of Unicode scalar values (the file adapters encode with the locale; lone surrogates cannot be written)",
        "text-mode newline translation is the identity (POSIX): only '\\n' separates lines, so 'no line break' in wf_field is 'no \\n' (a weaker hypothesis than excluding \\r etc.)",
        "'balanced brackets' is read as the code reads it: openers and closers nest by count, kinds are not matched (a weaker hypothesis than kind-matched nesting)",
        "every policy type of the p/g sections is named <section letter><suffix> (load_policy_line finds the section from key[0]); rules are non-empty lists",
        "the line grammar (line_ok) excludes lines whose first field is blank or starts with a bracket and lines closing more brackets than they opened; on those the loader raises IndexError or shows the leading-comma quirk — described exactly by C10_parse_line_spec / C10_line_raises_iff, not claimed to follow the sentence",
        "known finding C10/string_adapter_empty_policy: StringAdapter saves an empty policy as '' and refuses to load it",
    ]
    chk.trusted = ["translator translators/loadline.py (load_policy_line -> coq/gen/LoadLineGen.v, syntactic, fail-closed, regenerated on this run) "
                   "+ interpreter coq/theories/LineLang.v; LineTie.v proves the regenerated function = Csv.load_policy_line for every line and model",
                   "hand-written model coq/theories/Csv.v of adapter.py / file_adapter.py / asyncio/file_adapter.py / "
                   "string_adapter.py (tied by the differential strata W L F R T of this run)"]
    chk.build(translators=["loadline", "adapters"])
    if chk.replay_file:
        return replay(chk)
    if chk.tier == "thorough":
        run(chk, 12000, 12000, 4)
    else:
        run(chk, 1400, 1400, 4)
        if (chk.broken() or chk.anchor_changed) and not chk.spec_failures:
            chk.notes.append("escalated to a bigger budget after a broken proof/correspondence")
            run(chk, 3000, 3000, 4)
    chk.finish()


if __name__ == "__main__":
    main()
