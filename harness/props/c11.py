"""C11 — a failed policy reload leaves the enforcer exactly as it was.
SPEC on the implementation: for every failure point k = 0..n of an adapter delivering n rows, and for loads
that fail while ordering rules (a rule too short for / a non-numeric priority next to numeric ones) or while
building role links (a grouping rule shorter than the role definition): the call raises, the policies are
unchanged, the probe (all decisions + role queries) after the failed call equals the probe before it, and the
rest of the history behaves exactly as on a twin enforcer that never attempted the failed reloads.
A successful reload leaves policy = adapter rows and queries equal to those of a fresh enforcer."""
from ..core import Check
from .. import mgmt
from .c04 import fresh_results, QUERY_OPS

PROP = "C11"
W = dict(p_update_filtered=0, probe=0.5, query=2, load=0, save=0, clear=0, build=0, flags=0, rbac=3)


def is_failed_load(op, o):
    return op[0] in (31, 32) and o[0][0] == 999


def spec_check(kind, rows, lf, ops, obs, impl, impl_kwargs=None, check_fresh=True, fresh_kwargs=None):
    """fresh_kwargs: how the fresh reference enforcer of the last clause is built when the enforcer under test carries
    configuration of its own (matching functions, an installed role manager): the reference carries the same"""
    out = []
    n = len(ops)
    for i, (op, o) in enumerate(zip(ops, obs)):
        if op[0] == 32 and o[0][0] != 999:
            out.append((i, "load_policy did not raise although the adapter failed"))
            return out
        if is_failed_load(op, o) and i > 0:
            b = obs[i - 1]
            if (b[3], b[4], b[5]) != (o[3], o[4], o[5]):
                out.append((i, "a failed load_policy changed the stored policy"))
                return out
        if op[0] == 31 and o[0][0] == 0:
            db = {0: [], 1: [], 2: []}
            for pt, r in o[6]:
                db[pt].append(r)
            if not kind.g:
                db[1] = []
            if not kind.g2:
                db[2] = []
            if sorted(map(repr, db[0])) != sorted(map(repr, o[3])) or db[1] != o[4] or db[2] != o[5]:
                out.append((i, "a successful load_policy did not replace the policy by the adapter's rows"))
                return out
    # twin: same history without the failed loads
    idx = [i for i in range(n) if not is_failed_load(ops[i], obs[i])]
    if len(idx) != n:
        twin_ops = [ops[i] for i in idx]
        timpl, tobs = mgmt.run_impl(kind, rows, lf, twin_ops, **(impl_kwargs or {}))
        for j, i in enumerate(idx):
            a, b = obs[i], tobs[j]
            if a[0] != b[0] or (a[3], a[4], a[5]) != (b[3], b[4], b[5]):
                out.append((i, "after a failed load_policy the enforcer behaves differently from one that never attempted it"))
                return out
    # successful reload: queries right after it equal a fresh enforcer's
    i = 0 if check_fresh else n
    while i < n:
        if ops[i][0] == 31 and obs[i][0][0] == 0:
            j = i + 1
            while j < n and ops[j][0] in QUERY_OPS:
                j += 1
            if j > i + 1:
                exp = fresh_results(kind, obs[i], ops[i + 1:j], fresh_kwargs)
                if exp is not None:
                    for k in range(i + 1, j):
                        if obs[k][0] != exp[k - i - 1]:
                            out.append((k, "after a successful load_policy a query differs from a fresh enforcer's"))
                            return out
            i = j
        else:
            i += 1
    return out


def spec_check_async(kind, rows, lf, ops, obs, impl):
    from ..async_facade import AsyncFacade
    return spec_check(kind, rows, lf, ops, obs, impl, impl_kwargs=dict(enforcer_cls=AsyncFacade))


spec_check_async.case_extra = dict(enforcer="AsyncEnforcer")


def make_case(rng, kind, mode, weights=None, auto_build_off=False, keep=None, rule_uni=None, probe_uni=None, extra_probe=None,
              post=None, probe_roles=True, sync_before_probe=False):
    """rule_uni / probe_uni: callables that edit the universe the rules / the probe requests are drawn from;
    extra_probe(kind, uni) -> further query ops appended to every probe; post(kind, rows, ops) -> (rows, ops) last filter;
    probe_roles=False: the probe asks for decisions only (plus extra_probe); sync_before_probe: build_role_links() is called
    after the initial history, so that the role links are a build from the policy when the first reload is attempted"""
    uni = mgmt.Universe(kind)
    g = mgmt.Gen(rng, kind, weights or W)
    if rule_uni is not None:
        rule_uni(g.uni)
    if probe_uni is not None:
        probe_uni(uni)
    rows = g.rows(rng.randint(1, 8))
    probe = mgmt.probe_ops(kind, uni, roles=probe_roles)
    if extra_probe is not None:
        probe = probe + extra_probe(kind, uni)
    if rule_uni is not None:
        uni = g.uni                                   # the poisoned rows below are drawn from the rules' universe
    ops = []
    # memory state that differs from the adapter rows: built with auto-save off
    ops.append((35, False))
    ops += g.history(rng.randint(0, 8), final_probe=False)
    if auto_build_off:
        ops.append((36, False))          # from here on neither a reload nor a management call touches the role links
    if sync_before_probe:
        ops.append((34,))
    ops += probe
    if mode == "adapter":
        ks = list(range(0, len(rows) + 1))
        rng.shuffle(ks)
        for k in ks[:rng.randint(1, 3)]:
            ops.append((32, k))
            ops += probe
    else:
        ops.append((31,))
        ops += probe
    ops += g.history(rng.randint(0, 5), final_probe=False)
    if rng.random() < 0.5:
        if sync_before_probe:
            ops.append((34,))
        ops.append((31,))
    ops += probe
    # poison the adapter rows for the late failure sites
    rows = list(rows)
    if mode == "short_g" and kind.g:
        bad = (1, [rng.choice(uni.subs)])
        rows.insert(rng.randrange(len(rows) + 1), bad)
    elif mode == "banned_g" and kind.g:
        # a grouping row the (custom) role manager refuses with a ValueError, behind rows it accepts
        bad = (1, [rng.choice(uni.subs), BANNED] + ([rng.choice(uni.doms)] if kind.dom else []))
        rows.insert(rng.randrange(len(rows) // 2, len(rows) + 1), bad)
    elif mode == "bad_prio" and kind.prio:
        r = uni.p_rule(rng)
        r[0] = mgmt.ATOMS.a("x")                       # non-numeric priority next to numeric ones -> TypeError in sorted
        rows.insert(rng.randrange(len(rows) + 1), (0, r))
        rows.append((0, uni.p_rule(rng)))
    elif mode == "short_p" and kind.prio:
        rows.insert(rng.randrange(len(rows) + 1), (0, []))   # no priority column at all -> IndexError in sorted
        rows.append((0, uni.p_rule(rng)))
    if keep is not None:
        ops = [o for o in ops if keep(o)]
    if (weights or {}).get("long_g"):
        # never two grouping rules sharing their declared-arity prefix (known finding C04/overlong-rules-share-a-link)
        ops = mgmt.drop_prefix_aliases(kind, rows, ops)
    if post is not None:
        rows, ops = post(kind, rows, ops)
    return (rows, False, ops)


# ----------------------------------------------------------------------------- strata added after the third seeding wave
def spec_check_flag_off(kind, rows, lf, ops, obs, impl):
    # auto-build is switched off inside these histories: "a successful reload replaces policy and role links TOGETHER" is
    # then not demanded (the links are the user's business); the failed-reload clauses and the twin run are
    return spec_check(kind, rows, lf, ops, obs, impl, check_fresh=False)


def spec_check_flag_off_async(kind, rows, lf, ops, obs, impl):
    from ..async_facade import AsyncFacade
    return spec_check(kind, rows, lf, ops, obs, impl, impl_kwargs=dict(enforcer_cls=AsyncFacade), check_fresh=False)


spec_check_flag_off.case_extra = dict(auto_build="switched off inside the history")
spec_check_flag_off_async.case_extra = dict(enforcer="AsyncEnforcer", auto_build="switched off inside the history")

_FAST = {}


def fast_kwargs(order):
    import casbin
    from casbin.model import FastModel
    return dict(enforcer_cls=casbin.FastEnforcer, enforcer_kwargs=dict(cache_key_order=list(order)),
                model_factory=lambda: FastModel(list(order)), sort_p=True)


def spec_check_fast(order):
    order = tuple(order)
    if order not in _FAST:
        def sc(kind, rows, lf, ops, obs, impl):
            return spec_check(kind, rows, lf, ops, obs, impl, impl_kwargs=fast_kwargs(order))
        sc.case_extra = dict(enforcer="FastEnforcer", cache_key_order=list(order))
        _FAST[order] = sc
    return _FAST[order]


def fast_keep(op):
    # FastEnforcer keeps the permission rules in an index whose iteration order is unspecified: only calls whose result
    # does not depend on that order stay in the history (management calls, decisions, has_policy, role queries)
    return op[0] < 50 or op[0] in (50, 54, 55, 56, 59) or (op[0] in (52, 53) and op[1] != 0)


W_LONG = dict(W, long_g=0.35, g_add=8, g_add_many=4)


def run_added(chk, n):
    from ..async_facade import AsyncFacade
    rng = chk.rng
    st = chk.extra.setdefault("strata", {})
    # (a) FastEnforcer (its FastModel has its own clear_policy, the first step of every reload) on role models
    for kn in ("rbac", "rbac_deny"):
        kind = mgmt.KINDS[kn]
        for order in ([1, 2], [2, 1]):
            cases = [make_case(rng, kind, ["adapter", "short_g", "ok"][i % 3], keep=fast_keep) for i in range(max(12, n // 6))]
            mgmt.run_cases(chk, kind, cases, spec_check_fast(order), label=f"fault-fast-{kn}-key{order[0]}{order[1]}",
                           impl_kwargs=fast_kwargs(order), compare_model=False,
                           key_fn=lambda k, r, o, _o=tuple(order): ("fast", _o, k.name, repr(r), repr([x for x in o if x[0] < 50])))
            st[f"fault_fast_{kn}"] = st.get(f"fault_fast_{kn}", 0) + len(cases)
    # (b) auto_build_role_links switched off before the reload (links in step with the policy at that moment)
    for is_async in (False, True):
        for kn in ("rbac", "dom"):
            kind = mgmt.KINDS[kn]
            cases = [make_case(rng, kind, ["short_g", "adapter", "ok"][i % 3], auto_build_off=True)
                     for i in range(max(12, n // (5 if is_async else 3)))]
            mgmt.run_cases(chk, kind, cases, spec_check_flag_off_async if is_async else spec_check_flag_off,
                           label=f"fault-auto-build-off-{'async-' if is_async else ''}{kn}",
                           impl_kwargs=dict(enforcer_cls=AsyncFacade) if is_async else None,
                           key_fn=lambda k, r, o, _a=is_async: ("flag-off", _a, k.name, repr(r), repr([x for x in o if x[0] < 50])))
            st[f"fault_auto_build_off_{'async_' if is_async else ''}{kn}"] = len(cases)
    # (c) the kept policy holds grouping rules with MORE fields than the role definition declares
    for is_async in (False, True):
        for kn in (("rbac", "dom", "rbac_res") if not is_async else ("rbac",)):
            kind = mgmt.KINDS[kn]
            cases = [make_case(rng, kind, ["short_g", "short_g", "adapter"][i % 3], weights=W_LONG)
                     for i in range(max(12, n // (5 if is_async else 3)))]
            mgmt.run_cases(chk, kind, cases, spec_check_async if is_async else spec_check,
                           label=f"fault-overlong-g-{'async-' if is_async else ''}{kn}",
                           impl_kwargs=dict(enforcer_cls=AsyncFacade) if is_async else None,
                           key_fn=lambda k, r, o, _a=is_async: ("overlong", _a, k.name, repr(r), repr([x for x in o if x[0] < 50])))
            st[f"fault_overlong_g_{'async_' if is_async else ''}{kn}"] = len(cases)


# ----------------------------------------------------------------------------- strata added after the fifth seeding wave:
# the enforcer's role managers CARRY CONFIGURATION (a matching function, a domain matching function, a manager installed by
# the application) and the application holds references to them
import casbin                                                                   # noqa: E402
from casbin import util as _util                                                # noqa: E402
from casbin.rbac import default_role_manager as _drm                            # noqa: E402
from .c04 import STAR, drop_shared_pairs                                        # noqa: E402

_A = mgmt.ATOMS.a
PAT_OBJS = [_A("/book/1"), _A("/book/2"), _A("/book/:id")]      # interned at import time so that replays decode the same atoms
PAT_SUB = _A("b*")
D3 = _A("d3")

CONFIGS = {
    # name: (model kinds, what the constructor does to the enforcer)
    "pattern-functions": ("rbac_res",),           # util.key_match2 on g2 (resource roles), util.key_match on g (user roles)
    "domain-matching-function": ("dom",),         # util.key_match as domain matching function of g ("*" = every domain)
    "installed-role-manager": ("rbac", "dom"),    # set_role_manager(<a manager that follows DIRECT assignments only>)
    "installed-role-manager+domain-matching-function": ("dom",),
    # a role manager class of the application's own: clear() empties its containers IN PLACE, add_link refuses one role name
    # with a ValueError (a validation the application added) - a failure of the link phase that is not a RuntimeError
    "custom-role-manager": ("rbac", "dom"),
}
BANNED = _A("banned")


class _InPlaceRoleManager(_drm.RoleManager):
    def clear(self):
        self.all_roles.clear()
        self.all_links.clear()

    def add_link(self, name1, name2, *domain):
        if name2 == "banned":
            raise ValueError("role 'banned' may not be assigned")
        return super().add_link(name1, name2, *domain)


class _InPlaceDomainManager(_drm.DomainManager):
    def clear(self):
        self.all_links.clear()
        self.rm_map.clear()

    def add_link(self, name1, name2, *domain):
        if name2 == "banned":
            raise ValueError("role 'banned' may not be assigned")
        return super().add_link(name1, name2, *domain)


def _configure(e, config):
    if config == "pattern-functions":
        e.add_named_matching_func("g2", _util.key_match2)
        e.add_named_matching_func("g", _util.key_match)
    if "installed-role-manager" in config:
        e.set_role_manager(type(e.get_role_manager())(2))           # max_hierarchy_level 2: the user's direct roles only
    if config == "custom-role-manager":
        e.set_role_manager((_InPlaceDomainManager if isinstance(e.get_role_manager(), _drm.DomainManager) else _InPlaceRoleManager)(10))
    if "domain-matching-function" in config:
        e.add_named_domain_matching_func("g", _util.key_match)


_CFG_CLS = {}


def configured_enforcer(config, is_async):
    """casbin.Enforcer (or the facade over AsyncEnforcer) configured right after construction; get_named_role_manager hands out
    the REFERENCES the application obtained at that moment (the role managers it configured / installed), so the history's
    rm.has_link queries go through objects the application has been holding since before any reload"""
    key = (config, is_async)
    if key not in _CFG_CLS:
        if is_async:
            from ..async_facade import AsyncFacade

            class Configured(AsyncFacade):
                def __init__(self, *a, **k):
                    super().__init__(*a, **k)
                    _configure(self._e, config)
                    object.__setattr__(self, "_held", dict(self._e.rm_map))

                def get_named_role_manager(self, ptype):
                    return self.__dict__["_held"][ptype]
        else:
            class Configured(casbin.Enforcer):
                def __init__(self, *a, **k):
                    super().__init__(*a, **k)
                    _configure(self, config)
                    self._held = dict(self.rm_map)

                def get_named_role_manager(self, ptype):
                    return self._held[ptype]
        Configured.__name__ = "Configured" + ("AsyncEnforcer" if is_async else "Enforcer")
        _CFG_CLS[key] = Configured
    return _CFG_CLS[key]


_CFG_SPEC = {}


def spec_check_configured(config, is_async):
    key = (config, is_async)
    if key not in _CFG_SPEC:
        kw = dict(enforcer_cls=configured_enforcer(config, is_async))

        def sc(kind, rows, lf, ops, obs, impl):
            n = pattern_premise_cut(ops, obs) if config == "pattern-functions" else len(ops)
            return spec_check(kind, rows, lf, ops[:n], obs[:n], impl, impl_kwargs=kw, fresh_kwargs=kw)
        sc.case_extra = dict(configuration=config, enforcer="AsyncEnforcer" if is_async else "Enforcer")
        _CFG_SPEC[key] = sc
    return _CFG_SPEC[key]


def pattern_premise_cut(ops, obs):
    """C11's hypothesis made checkable for role managers with a matching function: when a reload is attempted the role links
    are a BUILD from the policy - no role assignment was added through the API since the last build_role_links() / successful
    reload / rolled-back reload (an incrementally added pattern link reaches names asked about earlier differently from a
    build; that is C04/C14 territory).  Returns the index of the first load_policy attempted outside the hypothesis (the
    spec is evaluated on the history before it) or len(ops)."""
    in_sync = True
    for i, (op, o) in enumerate(zip(ops, obs)):
        c = op[0]
        if c in (31, 32):
            if not in_sync:
                return i
        elif c == 34 and o[0][0] == 0:
            in_sync = True
        elif (c in (1, 2, 3, 4, 5) and op[1] in (1, 2)) or c in (9, 10, 11, 16, 17, 18, 19, 20, 30, 36, 39):
            in_sync = False
    return len(ops)


def _pattern_keep(op):
    # Role managers with a matching function (a) let one stored link stand for several assignments (listed findings of C04 /
    # C14): the histories of the pattern stratum only ADD role assignments through the API (memory still differs from the
    # store); (b) create a node for every name they are ASKED about and hang it under the matching patterns, so the LISTING
    # queries (get_roles / get_users / implicit ...) of an enforcer depend on what it was asked earlier - with or without a
    # reload.  The observations of this stratum are therefore the decisions, has_link through the held role managers and the
    # stored rules; and build_role_links() precedes the first probe (C11's hypothesis: the links are a build from the policy
    # when the reload is attempted - an incrementally added pattern link reaches names asked about earlier differently).
    c = op[0]
    if (c in (3, 4, 5) and op[1] in (1, 2)) or c in (9, 10, 11, 17, 18, 20):
        return False
    return c < 50 or c in (50, 51, 52, 53, 54, 59, 65, 66, 67)


def _has_link_probe(kind, uni):
    ops = []
    if kind.g:
        for u in uni.subs:
            for v in uni.subs:
                if u != v:
                    if kind.dom:
                        ops += [(59, 1, u, v, [d]) for d in uni.doms]
                    else:
                        ops.append((59, 1, u, v, []))
    if kind.g2:
        ops += [(59, 2, a, b, []) for a in uni.objs for b in uni.objs if a != b]
    return ops


def configured_case(rng, kind, config, mode):
    if config == "pattern-functions":
        def rule_uni(u):
            u.subs = u.subs + [PAT_SUB]
            u.objs = [_A("data1"), _A("grp")] + PAT_OBJS

        def probe_uni(u):
            u.objs = [_A("data1"), _A("grp")] + PAT_OBJS[:2]
        return make_case(rng, kind, mode, keep=_pattern_keep, rule_uni=rule_uni, probe_uni=probe_uni, extra_probe=_has_link_probe,
                         probe_roles=False, sync_before_probe=True)
    if "domain-matching-function" in config:
        def rule_uni(u):
            u.doms = u.doms + [STAR]

        def probe_uni(u):
            # d3 never holds a rule of its own: what it knows comes from the "*" links only; "*" is asked about literally
            u.doms = u.doms + [D3, STAR]
        return make_case(rng, kind, mode, rule_uni=rule_uni, probe_uni=probe_uni, extra_probe=_has_link_probe,
                         post=lambda k, rows, ops: drop_shared_pairs(k, rows, ops))
    return make_case(rng, kind, mode, extra_probe=_has_link_probe)


def run_configured(chk, n):
    """the fault strata (adapter failing after k rows, a short grouping row = failure in the LINK phase, successful reloads)
    on enforcers whose role managers carry configuration and whose role managers the application holds references to;
    every domain is asked about BEFORE the reload (probe), so per-domain caches exist.  Implementation only (the Mgmt model
    has no matching functions): SPEC = spec_check with twin and fresh reference configured the same way."""
    rng = chk.rng
    st = chk.extra.setdefault("strata", {})
    for is_async in (False, True):
        for config, kinds in CONFIGS.items():
            for kn in kinds:
                kind = mgmt.KINDS[kn]
                m = max(8, n // (3 if is_async else 1))
                modes = ["short_g", "banned_g", "adapter", "banned_g", "ok"] if config == "custom-role-manager" else ["short_g", "adapter", "short_g", "ok"]
                cases = [configured_case(rng, kind, config, modes[i % len(modes)]) for i in range(m)]
                mgmt.run_cases(chk, kind, cases, spec_check_configured(config, is_async),
                               label=f"fault-configured-{config}-{'async-' if is_async else ''}{kn}",
                               impl_kwargs=dict(enforcer_cls=configured_enforcer(config, is_async)), compare_model=False,
                               key_fn=lambda k, r, o, _t=(config, is_async): ("configured", _t, k.name, repr(r), repr([x for x in o if x[0] < 50])))
                key = f"fault_configured_{config}{'_async' if is_async else ''}"
                st[key] = st.get(key, 0) + len(cases)


def run(chk, n):
    rng = chk.rng
    for kn in ("rbac", "dom", "rbac_res", "prio_rbac", "acl"):
        kind = mgmt.KINDS[kn]
        modes = ["adapter", "adapter"] + (["short_g"] if kind.g else []) + (["bad_prio", "short_p"] if kind.prio else [])
        cases = [make_case(rng, kind, modes[i % len(modes)]) for i in range(n)]
        mgmt.run_cases(chk, kind, cases, spec_check, label=f"fault-{kn}",
                       key_fn=lambda k, r, o: (k.name, repr(r), repr([x for x in o if x[0] < 50])))
        chk.extra.setdefault("strata", {})[f"fault_{kn}"] = len(cases)
    # the same fault strata on the AsyncEnforcer (each call awaited): its load_policy is a separate copy of the code
    from ..async_facade import AsyncFacade
    for kn in ("rbac", "dom", "prio_rbac"):
        kind = mgmt.KINDS[kn]
        modes = ["adapter", "short_g"] + (["bad_prio", "short_p"] if kind.prio else [])
        cases = [make_case(rng, kind, modes[i % len(modes)]) for i in range(max(24, n // 3))]
        mgmt.run_cases(chk, kind, cases, spec_check_async, label=f"fault-async-{kn}", impl_kwargs=dict(enforcer_cls=AsyncFacade),
                       key_fn=lambda k, r, o: ("async", k.name, repr(r), repr([x for x in o if x[0] < 50])))
        chk.extra["strata"][f"fault_async_{kn}"] = len(cases)
    # role links deliberately OUT of step with the policy before the failing load (a grouping rule added while
    # auto-build was off): a load that fails in the ADAPTER, before any role manager was touched, must leave those links
    # exactly as they were (nothing to roll back).  Failures later in the load are excluded here: their rollback
    # rebuilds the links from the kept policy, which is C11_failed_reload's hypothesis (links in sync before).
    A = mgmt.ATOMS.a
    for kn in ("rbac", "dom"):
        kind = mgmt.KINDS[kn]
        uni = mgmt.Universe(kind)
        probe = mgmt.probe_ops(kind, uni)
        d = [A("d1")] if kind.dom else []
        rows = [(0, [A("admin")] + d + [A("data1"), A("read")]), (1, [A("alice"), A("admin")] + d),
                (0, [A("editor")] + d + [A("data2"), A("write")])]
        cases = []
        for k in range(len(rows) + 1):
            for extra in ([A("bob"), A("admin")] + d, [A("bob"), A("editor")] + d):
                ops = [(31,), (36, False), (1, 1, extra), (36, True)] + probe + [(32, k)] + probe
                cases.append((rows, False, ops))
        # ... and a SUCCESSFUL reload in that situation (the store delivers exactly the rules the model already lists; auto-build
        # is on again): policy and role links are replaced TOGETHER, so the link that was never built exists afterwards
        for extra in ([A("bob"), A("admin")] + d, [A("bob"), A("editor")] + d):
            for mid in ([], [(3, 1, [A("alice"), A("admin")] + d)]):
                ops = [(31,), (36, False), (1, 1, extra)] + mid + [(36, True)] + probe + [(31,)] + probe
                cases.append((rows, False, ops))
        mgmt.run_cases(chk, kind, cases, spec_check, label=f"links-out-of-step-{kn}")
        chk.extra["strata"][f"links_out_of_step_{kn}"] = len(cases)
    # exhaustive failure points on one fixed policy
    kind = mgmt.KINDS["rbac"]
    A = mgmt.ATOMS.a
    rows = [(0, [A("admin"), A("data1"), A("read")]), (1, [A("alice"), A("admin")]), (0, [A("bob"), A("data2"), A("write")]),
            (1, [A("bob"), A("editor")]), (1, [A("editor"), A("admin")])]
    uni = mgmt.Universe(kind)
    probe = mgmt.probe_ops(kind, uni)
    cases = []
    for k in range(len(rows) + 1):
        for first_load in (True, False):
            ops = ([(31,)] if first_load else []) + [(35, False), (1, 1, [A("alice"), A("editor")]), (3, 1, [A("bob"), A("editor")])] \
                + probe + [(32, k)] + probe + [(1, 0, [A("editor"), A("data2"), A("read")])] + probe
            cases.append((rows, False, ops))
    mgmt.run_cases(chk, kind, cases, spec_check, label="all-failure-points")
    chk.extra["strata"]["all_failure_points_rbac"] = len(cases)
    chk.exhaustive = True


def main():
    chk = Check(PROP, level="proof")
    chk.rule = ("fault injection: adapter raising after delivering k rows for k = 0..n (all k on a fixed 5-row RBAC policy, random "
                "k on random policies), adapter rows poisoned with a short grouping rule (link building fails) or a "
                "non-numeric / missing priority (ordering fails); memory differs from the adapter rows (built with auto-save "
                "off), probes before and after each failed reload, further management calls afterwards, twin run without the "
                "failed reloads; RBAC, domain, resource-role, priority and ACL models; the same fault strata on the AsyncEnforcer "
                "(every call awaited) for RBAC, domain and priority-RBAC models; distinct by (kind, rows, mutating calls)"
                "; the same fault modes (and plain successful reloads) on a FastEnforcer with a role model (2 cache-key orders), with "
                "auto_build_role_links switched off just before the reload (sync and async; links in step at that moment), and with "
                "grouping rules longer than the role definition in the kept policy (sync and async)"
                "; the same fault modes on enforcers whose role managers carry configuration (matching functions on g / g2, a "
                "domain matching function with rules in the pattern domain '*', a role manager installed with set_role_manager) "
                "and are referenced by the application, sync and async")
    chk.assumptions = ["role links were in sync with the policy before the failed call (C04's invariant; auto-build on, or switched "
                       "off only after the last change - then 'a successful reload replaces the links' is not demanded)",
                       "failure = an exception raised by the adapter or by the model code; process crashes are out of scope",
                       "role managers with a matching function: the hypothesis is 'no role assignment added through the API since the "
                       "last build of the links' (checked by the spec; incremental pattern links vs. a build is C04/C14's concern), and the "
                       "listing queries (get_roles / get_users ...) are not observed there - such a manager's listings depend on which "
                       "names it was asked about earlier, reload or not"]
    chk.trusted = ["hand-written models coq/theories/{Policy,RoleGraph,Mgmt}.v tied by the differential history correspondence"]
    chk.build(translators=["loadpolicy", "rolelinks"], oracle_name="Mgmt")
    if chk.replay_file:
        import json
        c = (json.load(open(chk.replay_file)).get("case") or {})
        if c.get("configuration"):
            chk.oracle = None      # implementation-level stratum (the Mgmt model has no matching functions)
            t = (c["configuration"], c.get("enforcer") == "AsyncEnforcer")
            return mgmt.replay_case(chk, spec_check_configured(*t), impl_kwargs=dict(enforcer_cls=configured_enforcer(*t)))
        if c.get("enforcer") == "FastEnforcer":
            chk.oracle = None      # implementation-level stratum (the index order of FastPolicy is not the model's)
            return mgmt.replay_case(chk, spec_check_fast(c["cache_key_order"]), impl_kwargs=fast_kwargs(c["cache_key_order"]))
        if c.get("auto_build"):
            from ..async_facade import AsyncFacade
            if c.get("enforcer") == "AsyncEnforcer":
                return mgmt.replay_case(chk, spec_check_flag_off_async, impl_kwargs=dict(enforcer_cls=AsyncFacade))
            return mgmt.replay_case(chk, spec_check_flag_off)
        if c.get("enforcer") == "AsyncEnforcer":
            from ..async_facade import AsyncFacade
            return mgmt.replay_case(chk, spec_check_async, impl_kwargs=dict(enforcer_cls=AsyncFacade))
        return mgmt.replay_case(chk, spec_check)
    if chk.tier == "thorough":
        run(chk, 1200)
        run_added(chk, 1200)
        run_configured(chk, 600)
    else:
        run(chk, 120)
        run_added(chk, 120)
        run_configured(chk, 48)
        if (chk.broken() or chk.anchor_changed) and not chk.spec_failures:
            run_configured(chk, 200)
        if (chk.broken() or chk.anchor_changed) and not chk.spec_failures:
            run(chk, 600)
            if not chk.spec_failures:
                run_added(chk, 600)
    chk.finish()


if __name__ == "__main__":
    main()
