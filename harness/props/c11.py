"""C11 — a failed policy reload leaves the enforcer exactly as it was.
SPEC on the implementation: for every failure point k = 0..n of an adapter delivering n rows, and for loads
that fail while ordering rules (a rule too short for / a non-numeric priority next to numeric ones) or while
building role links (a grouping rule shorter than the role definition): the call raises, the policies are
unchanged, the probe (all decisions + role queries) after the failed call equals the probe before it, and the
rest of the history behaves exactly as on a twin enforcer that never attempted the failed reloads.
A successful reload leaves policy = adapter rows and queries equal to those of a fresh enforcer."""
from ..core import Check
from .. import mgmt
from .c04 import fresh_results, QUERY_OPS

PROP = "C11"
W = dict(p_update_filtered=0, probe=0.5, query=2, load=0, save=0, clear=0, build=0, flags=0, rbac=3)


def is_failed_load(op, o):
    return op[0] in (31, 32) and o[0][0] == 999


def spec_check(kind, rows, lf, ops, obs, impl, impl_kwargs=None, check_fresh=True):
    out = []
    n = len(ops)
    for i, (op, o) in enumerate(zip(ops, obs)):
        if op[0] == 32 and o[0][0] != 999:
            out.append((i, "load_policy did not raise although the adapter failed"))
            return out
        if is_failed_load(op, o) and i > 0:
            b = obs[i - 1]
            if (b[3], b[4], b[5]) != (o[3], o[4], o[5]):
                out.append((i, "a failed load_policy changed the stored policy"))
                return out
        if op[0] == 31 and o[0][0] == 0:
            db = {0: [], 1: [], 2: []}
            for pt, r in o[6]:
                db[pt].append(r)
            if not kind.g:
                db[1] = []
            if not kind.g2:
                db[2] = []
            if sorted(map(repr, db[0])) != sorted(map(repr, o[3])) or db[1] != o[4] or db[2] != o[5]:
                out.append((i, "a successful load_policy did not replace the policy by the adapter's rows"))
                return out
    # twin: same history without the failed loads
    idx = [i for i in range(n) if not is_failed_load(ops[i], obs[i])]
    if len(idx) != n:
        twin_ops = [ops[i] for i in idx]
        timpl, tobs = mgmt.run_impl(kind, rows, lf, twin_ops, **(impl_kwargs or {}))
        for j, i in enumerate(idx):
            a, b = obs[i], tobs[j]
            if a[0] != b[0] or (a[3], a[4], a[5]) != (b[3], b[4], b[5]):
                out.append((i, "after a failed load_policy the enforcer behaves differently from one that never attempted it"))
                return out
    # successful reload: queries right after it equal a fresh enforcer's
    i = 0 if check_fresh else n
    while i < n:
        if ops[i][0] == 31 and obs[i][0][0] == 0:
            j = i + 1
            while j < n and ops[j][0] in QUERY_OPS:
                j += 1
            if j > i + 1:
                exp = fresh_results(kind, obs[i], ops[i + 1:j])
                if exp is not None:
                    for k in range(i + 1, j):
                        if obs[k][0] != exp[k - i - 1]:
                            out.append((k, "after a successful load_policy a query differs from a fresh enforcer's"))
                            return out
            i = j
        else:
            i += 1
    return out


def spec_check_async(kind, rows, lf, ops, obs, impl):
    from ..async_facade import AsyncFacade
    return spec_check(kind, rows, lf, ops, obs, impl, impl_kwargs=dict(enforcer_cls=AsyncFacade))


spec_check_async.case_extra = dict(enforcer="AsyncEnforcer")


def make_case(rng, kind, mode, weights=None, auto_build_off=False, keep=None):
    uni = mgmt.Universe(kind)
    g = mgmt.Gen(rng, kind, weights or W)
    rows = g.rows(rng.randint(1, 8))
    probe = mgmt.probe_ops(kind, uni)
    ops = []
    # memory state that differs from the adapter rows: built with auto-save off
    ops.append((35, False))
    ops += g.history(rng.randint(0, 8), final_probe=False)
    if auto_build_off:
        ops.append((36, False))          # from here on neither a reload nor a management call touches the role links
    ops += probe
    if mode == "adapter":
        ks = list(range(0, len(rows) + 1))
        rng.shuffle(ks)
        for k in ks[:rng.randint(1, 3)]:
            ops.append((32, k))
            ops += probe
    else:
        ops.append((31,))
        ops += probe
    ops += g.history(rng.randint(0, 5), final_probe=False)
    if rng.random() < 0.5:
        ops.append((31,))
    ops += probe
    # poison the adapter rows for the late failure sites
    rows = list(rows)
    if mode == "short_g" and kind.g:
        bad = (1, [rng.choice(uni.subs)])
        rows.insert(rng.randrange(len(rows) + 1), bad)
    elif mode == "bad_prio" and kind.prio:
        r = uni.p_rule(rng)
        r[0] = mgmt.ATOMS.a("x")                       # non-numeric priority next to numeric ones -> TypeError in sorted
        rows.insert(rng.randrange(len(rows) + 1), (0, r))
        rows.append((0, uni.p_rule(rng)))
    elif mode == "short_p" and kind.prio:
        rows.insert(rng.randrange(len(rows) + 1), (0, []))   # no priority column at all -> IndexError in sorted
        rows.append((0, uni.p_rule(rng)))
    if keep is not None:
        ops = [o for o in ops if keep(o)]
    if (weights or {}).get("long_g"):
        # never two grouping rules sharing their declared-arity prefix (known finding C04/overlong-rules-share-a-link)
        ops = mgmt.drop_prefix_aliases(kind, rows, ops)
    return (rows, False, ops)


# ----------------------------------------------------------------------------- strata added after the third seeding wave
def spec_check_flag_off(kind, rows, lf, ops, obs, impl):
    # auto-build is switched off inside these histories: "a successful reload replaces policy and role links TOGETHER" is
    # then not demanded (the links are the user's business); the failed-reload clauses and the twin run are
    return spec_check(kind, rows, lf, ops, obs, impl, check_fresh=False)


def spec_check_flag_off_async(kind, rows, lf, ops, obs, impl):
    from ..async_facade import AsyncFacade
    return spec_check(kind, rows, lf, ops, obs, impl, impl_kwargs=dict(enforcer_cls=AsyncFacade), check_fresh=False)


spec_check_flag_off.case_extra = dict(auto_build="switched off inside the history")
spec_check_flag_off_async.case_extra = dict(enforcer="AsyncEnforcer", auto_build="switched off inside the history")

_FAST = {}


def fast_kwargs(order):
    import casbin
    from casbin.model import FastModel
    return dict(enforcer_cls=casbin.FastEnforcer, enforcer_kwargs=dict(cache_key_order=list(order)),
                model_factory=lambda: FastModel(list(order)), sort_p=True)


def spec_check_fast(order):
    order = tuple(order)
    if order not in _FAST:
        def sc(kind, rows, lf, ops, obs, impl):
            return spec_check(kind, rows, lf, ops, obs, impl, impl_kwargs=fast_kwargs(order))
        sc.case_extra = dict(enforcer="FastEnforcer", cache_key_order=list(order))
        _FAST[order] = sc
    return _FAST[order]


def fast_keep(op):
    # FastEnforcer keeps the permission rules in an index whose iteration order is unspecified: only calls whose result
    # does not depend on that order stay in the history (management calls, decisions, has_policy, role queries)
    return op[0] < 50 or op[0] in (50, 54, 55, 56, 59) or (op[0] in (52, 53) and op[1] != 0)


W_LONG = dict(W, long_g=0.35, g_add=8, g_add_many=4)


def run_added(chk, n):
    from ..async_facade import AsyncFacade
    rng = chk.rng
    st = chk.extra.setdefault("strata", {})
    # (a) FastEnforcer (its FastModel has its own clear_policy, the first step of every reload) on role models
    for kn in ("rbac", "rbac_deny"):
        kind = mgmt.KINDS[kn]
        for order in ([1, 2], [2, 1]):
            cases = [make_case(rng, kind, ["adapter", "short_g", "ok"][i % 3], keep=fast_keep) for i in range(max(12, n // 6))]
            mgmt.run_cases(chk, kind, cases, spec_check_fast(order), label=f"fault-fast-{kn}-key{order[0]}{order[1]}",
                           impl_kwargs=fast_kwargs(order), compare_model=False,
                           key_fn=lambda k, r, o, _o=tuple(order): ("fast", _o, k.name, repr(r), repr([x for x in o if x[0] < 50])))
            st[f"fault_fast_{kn}"] = st.get(f"fault_fast_{kn}", 0) + len(cases)
    # (b) auto_build_role_links switched off before the reload (links in step with the policy at that moment)
    for is_async in (False, True):
        for kn in ("rbac", "dom"):
            kind = mgmt.KINDS[kn]
            cases = [make_case(rng, kind, ["short_g", "adapter", "ok"][i % 3], auto_build_off=True)
                     for i in range(max(12, n // (5 if is_async else 3)))]
            mgmt.run_cases(chk, kind, cases, spec_check_flag_off_async if is_async else spec_check_flag_off,
                           label=f"fault-auto-build-off-{'async-' if is_async else ''}{kn}",
                           impl_kwargs=dict(enforcer_cls=AsyncFacade) if is_async else None,
                           key_fn=lambda k, r, o, _a=is_async: ("flag-off", _a, k.name, repr(r), repr([x for x in o if x[0] < 50])))
            st[f"fault_auto_build_off_{'async_' if is_async else ''}{kn}"] = len(cases)
    # (c) the kept policy holds grouping rules with MORE fields than the role definition declares
    for is_async in (False, True):
        for kn in (("rbac", "dom", "rbac_res") if not is_async else ("rbac",)):
            kind = mgmt.KINDS[kn]
            cases = [make_case(rng, kind, ["short_g", "short_g", "adapter"][i % 3], weights=W_LONG)
                     for i in range(max(12, n // (5 if is_async else 3)))]
            mgmt.run_cases(chk, kind, cases, spec_check_async if is_async else spec_check,
                           label=f"fault-overlong-g-{'async-' if is_async else ''}{kn}",
                           impl_kwargs=dict(enforcer_cls=AsyncFacade) if is_async else None,
                           key_fn=lambda k, r, o, _a=is_async: ("overlong", _a, k.name, repr(r), repr([x for x in o if x[0] < 50])))
            st[f"fault_overlong_g_{'async_' if is_async else ''}{kn}"] = len(cases)


def run(chk, n):
    rng = chk.rng
    for kn in ("rbac", "dom", "rbac_res", "prio_rbac", "acl"):
        kind = mgmt.KINDS[kn]
        modes = ["adapter", "adapter"] + (["short_g"] if kind.g else []) + (["bad_prio", "short_p"] if kind.prio else [])
        cases = [make_case(rng, kind, modes[i % len(modes)]) for i in range(n)]
        mgmt.run_cases(chk, kind, cases, spec_check, label=f"fault-{kn}",
                       key_fn=lambda k, r, o: (k.name, repr(r), repr([x for x in o if x[0] < 50])))
        chk.extra.setdefault("strata", {})[f"fault_{kn}"] = len(cases)
    # the same fault strata on the AsyncEnforcer (each call awaited): its load_policy is a separate copy of the code
    from ..async_facade import AsyncFacade
    for kn in ("rbac", "dom", "prio_rbac"):
        kind = mgmt.KINDS[kn]
        modes = ["adapter", "short_g"] + (["bad_prio", "short_p"] if kind.prio else [])
        cases = [make_case(rng, kind, modes[i % len(modes)]) for i in range(max(24, n // 3))]
        mgmt.run_cases(chk, kind, cases, spec_check_async, label=f"fault-async-{kn}", impl_kwargs=dict(enforcer_cls=AsyncFacade),
                       key_fn=lambda k, r, o: ("async", k.name, repr(r), repr([x for x in o if x[0] < 50])))
        chk.extra["strata"][f"fault_async_{kn}"] = len(cases)
    # role links deliberately OUT of step with the policy before the failing load (a grouping rule added while
    # auto-build was off): a load that fails in the ADAPTER, before any role manager was touched, must leave those links
    # exactly as they were (nothing to roll back).  Failures later in the load are excluded here: their rollback
    # rebuilds the links from the kept policy, which is C11_failed_reload's hypothesis (links in sync before).
    A = mgmt.ATOMS.a
    for kn in ("rbac", "dom"):
        kind = mgmt.KINDS[kn]
        uni = mgmt.Universe(kind)
        probe = mgmt.probe_ops(kind, uni)
        d = [A("d1")] if kind.dom else []
        rows = [(0, [A("admin")] + d + [A("data1"), A("read")]), (1, [A("alice"), A("admin")] + d),
                (0, [A("editor")] + d + [A("data2"), A("write")])]
        cases = []
        for k in range(len(rows) + 1):
            for extra in ([A("bob"), A("admin")] + d, [A("bob"), A("editor")] + d):
                ops = [(31,), (36, False), (1, 1, extra), (36, True)] + probe + [(32, k)] + probe
                cases.append((rows, False, ops))
        # ... and a SUCCESSFUL reload in that situation (the store delivers exactly the rules the model already lists; auto-build
        # is on again): policy and role links are replaced TOGETHER, so the link that was never built exists afterwards
        for extra in ([A("bob"), A("admin")] + d, [A("bob"), A("editor")] + d):
            for mid in ([], [(3, 1, [A("alice"), A("admin")] + d)]):
                ops = [(31,), (36, False), (1, 1, extra)] + mid + [(36, True)] + probe + [(31,)] + probe
                cases.append((rows, False, ops))
        mgmt.run_cases(chk, kind, cases, spec_check, label=f"links-out-of-step-{kn}")
        chk.extra["strata"][f"links_out_of_step_{kn}"] = len(cases)
    # exhaustive failure points on one fixed policy
    kind = mgmt.KINDS["rbac"]
    A = mgmt.ATOMS.a
    rows = [(0, [A("admin"), A("data1"), A("read")]), (1, [A("alice"), A("admin")]), (0, [A("bob"), A("data2"), A("write")]),
            (1, [A("bob"), A("editor")]), (1, [A("editor"), A("admin")])]
    uni = mgmt.Universe(kind)
    probe = mgmt.probe_ops(kind, uni)
    cases = []
    for k in range(len(rows) + 1):
        for first_load in (True, False):
            ops = ([(31,)] if first_load else []) + [(35, False), (1, 1, [A("alice"), A("editor")]), (3, 1, [A("bob"), A("editor")])] \
                + probe + [(32, k)] + probe + [(1, 0, [A("editor"), A("data2"), A("read")])] + probe
            cases.append((rows, False, ops))
    mgmt.run_cases(chk, kind, cases, spec_check, label="all-failure-points")
    chk.extra["strata"]["all_failure_points_rbac"] = len(cases)
    chk.exhaustive = True


def main():
    chk = Check(PROP, level="proof")
    chk.rule = ("fault injection: adapter raising after delivering k rows for k = 0..n (all k on a fixed 5-row RBAC policy, random "
                "k on random policies), adapter rows poisoned with a short grouping rule (link building fails) or a "
                "non-numeric / missing priority (ordering fails); memory differs from the adapter rows (built with auto-save "
                "off), probes before and after each failed reload, further management calls afterwards, twin run without the "
                "failed reloads; RBAC, domain, resource-role, priority and ACL models; the same fault strata on the AsyncEnforcer "
                "(every call awaited) for RBAC, domain and priority-RBAC models; distinct by (kind, rows, mutating calls)"
                "; the same fault modes (and plain successful reloads) on a FastEnforcer with a role model (2 cache-key orders), with "
                "auto_build_role_links switched off just before the reload (sync and async; links in step at that moment), and with "
                "grouping rules longer than the role definition in the kept policy (sync and async)")
    chk.assumptions = ["role links were in sync with the policy before the failed call (C04's invariant; auto-build on, or switched "
                       "off only after the last change - then 'a successful reload replaces the links' is not demanded)",
                       "failure = an exception raised by the adapter or by the model code; process crashes are out of scope"]
    chk.trusted = ["hand-written models coq/theories/{Policy,RoleGraph,Mgmt}.v tied by the differential history correspondence"]
    chk.build(oracle_name="Mgmt")
    if chk.replay_file:
        import json
        c = (json.load(open(chk.replay_file)).get("case") or {})
        if c.get("enforcer") == "FastEnforcer":
            chk.oracle = None      # implementation-level stratum (the index order of FastPolicy is not the model's)
            return mgmt.replay_case(chk, spec_check_fast(c["cache_key_order"]), impl_kwargs=fast_kwargs(c["cache_key_order"]))
        if c.get("auto_build"):
            from ..async_facade import AsyncFacade
            if c.get("enforcer") == "AsyncEnforcer":
                return mgmt.replay_case(chk, spec_check_flag_off_async, impl_kwargs=dict(enforcer_cls=AsyncFacade))
            return mgmt.replay_case(chk, spec_check_flag_off)
        if c.get("enforcer") == "AsyncEnforcer":
            from ..async_facade import AsyncFacade
            return mgmt.replay_case(chk, spec_check_async, impl_kwargs=dict(enforcer_cls=AsyncFacade))
        return mgmt.replay_case(chk, spec_check)
    if chk.tier == "thorough":
        run(chk, 1200)
        run_added(chk, 1200)
    else:
        run(chk, 120)
        run_added(chk, 120)
        if (chk.broken() or chk.anchor_changed) and not chk.spec_failures:
            run(chk, 600)
            if not chk.spec_failures:
                run_added(chk, 600)
    chk.finish()


if __name__ == "__main__":
    main()
