"""C12 — filtered loading loads exactly the filtered subset, never overwrites the store.
Proof: Props/C12.v (Filtered.v / FilteredProofs.v on top of Csv.v).
Correspondence (this file): generated policy files x filters (every blank/non-blank mask over three
positions for P and for G) x sequences of filtered / incremental / full loads and save attempts on the
REAL casbin.Enforcer + FilteredFileAdapter (temp file, bytes compared before/after every step, role
links recorded at the real role managers' add_link) against the model's run of the same trace; the
SPEC (subset, flag, save refusal, file bytes, links) is evaluated on the implementation's own output.
The real filter_line is also compared with the model on an exhaustive small scope of lines."""
import itertools
import json
import os
import sys
import tempfile

import casbin
from casbin.model import Model
from casbin.persist.adapters import FilteredFileAdapter
from casbin.persist.adapters.filtered_file_adapter import Filter, filter_line
from casbin.rbac import default_role_manager

from .. import core
from ..core import Check, classify_exception, canon, ERR

PROP = "C12"
F_RELOAD = "C12/failed_load_unguards_save"
F_BRACKET = "C12/filter_splits_at_bracketed_commas"

MODEL = """[request_definition]
r = sub, obj, act
[policy_definition]
p = sub, obj, act
p2 = sub, act
[role_definition]
g = {gdef}
g2 = _, _
[policy_effect]
e = some(where (p.eft == allow))
[matchers]
m = r.sub == p.sub && r.obj == p.obj && r.act == p.act
"""
GDEF = {2: "_, _", 3: "_, _, _"}
NAMES = ["alice", "bob", "admin", "data1", "data2", "read", "write", "dom1"]
BLANKV = ["", "", " ", "\t "]


def blank(x):
    return not x or not x.strip()


def py_rule_kept(P, G, key, fs):
    """the property's words (+ the code's length clause): only p and g are filtered; the rule's leading
    fields equal every non-blank value of the corresponding filter; a filter longer than the rule drops it;
    an all-blank G keeps every g rule"""
    if key == "p":
        F = P
    elif key == "g":
        if all(blank(v) for v in G):
            return True
        F = G
    else:
        return True
    if len(F) > len(fs):
        return False
    return all(blank(v) or v.strip() == fs[i] for i, v in enumerate(F))


def py_split_top(line):
    """split at the commas that are outside brackets"""
    out, cur, depth = [], "", 0
    for c in line:
        if c in "([":
            depth += 1
        elif c in ")]":
            depth = max(depth - 1, 0)
        if c == "," and depth == 0:
            out.append(cur)
            cur = ""
        else:
            cur += c
    return out + [cur]


def has_bracketed_comma(text):
    """fingerprint of F_BRACKET: some p/g line whose naive comma split differs from its top-level split"""
    for l in text.split("\n"):
        l = l.strip()
        if l and l[0] != "#" and py_split_top(l)[0].strip() in ("p", "g") and py_split_top(l) != l.split(","):
            return True
    return False


def py_empty_filter(P, G):
    return all(blank(v) for v in P) and all(blank(v) for v in G)


# ----------------------------------------------------------------------------- running the real code
def recording(cls):
    class Rec(cls):
        def __init__(self, *a):
            super().__init__(*a)
            self.rec = []

        def clear(self):
            self.rec = []
            super().clear()

        def add_link(self, *args):
            self.rec.append(list(args))
            super().add_link(*args)

    return Rec


RecRM = recording(default_role_manager.RoleManager)
RecDM = recording(default_role_manager.DomainManager)


def snapshot(model):
    return [[ord(sec), key, [list(r) for r in ast.policy]] for sec, d in model.model.items() for key, ast in d.items()]


FILTER_MODES = ("fresh", "reused", "reused-in-place")


def new_filter():
    f = Filter()
    f.P, f.G = [], []
    return f


class Sut:
    """one real Enforcer + FilteredFileAdapter on a temp file"""

    def __init__(self, tmpdir, text, gcount, filter_mode="fresh", shared_filter=None, name="policy.csv"):
        # filter_mode: "fresh" = a new Filter object per load; "reused" = the caller keeps ONE Filter object and assigns
        # new P / G lists to it before every load; "reused-in-place" = one Filter object whose P / G lists are edited in place
        self.filter_mode = filter_mode
        self.flt = shared_filter if shared_filter is not None else new_filter()
        self.path = os.path.join(tmpdir, name)
        with open(self.path, "wb") as f:
            f.write(text.encode("utf-8"))
        self.gcount = gcount
        m = Model()
        m.load_model_from_text(MODEL.format(gdef=GDEF[gcount]))
        self.adapter = FilteredFileAdapter(self.path)
        self.e = casbin.Enforcer(m, self.adapter)
        self.e.rm_map["g"] = (RecDM if gcount == 3 else RecRM)(10)
        self.e.rm_map["g2"] = RecRM(10)
        self.base = snapshot(self.e.model)

    def file_text(self):
        return open(self.path, "rb").read().decode("utf-8")

    def observe(self):
        links = [[k, [list(x) for x in self.e.rm_map[k].rec]] for k in self.e.model.model["g"].keys()]
        return [int(bool(self.e.is_filtered())), canon(snapshot(self.e.model)), canon(links), canon(self.file_text())]

    def apply(self, op):
        try:
            if op[0] == 0:
                self.e.load_policy()
            elif op[0] in (1, 2):
                if self.filter_mode == "fresh":
                    f = Filter()
                    f.P = list(op[1])
                    f.G = list(op[2])
                elif self.filter_mode == "reused":
                    f = self.flt
                    f.P = list(op[1])
                    f.G = list(op[2])
                else:
                    f = self.flt
                    f.P[:] = list(op[1])
                    f.G[:] = list(op[2])
                (self.e.load_filtered_policy if op[0] == 1 else self.e.load_increment_filtered_policy)(f)
            elif op[0] == 4:
                self.e.enable_auto_build_role_links(bool(op[1]))      # the caller's switch (non-default: off)
            elif op[0] == 5:
                self.e.build_role_links()                              # the caller builds the links himself
            else:
                self.e.save_policy()
            return [0, []]
        except Exception as ex:  # noqa
            return [999, classify_exception(ex)]


def run_trace(text, gcount, ops, filter_mode="fresh"):
    """-> (base model snapshot, [ [outcome, [flag, model, links, file]] per step ])"""
    with tempfile.TemporaryDirectory(prefix="c12_") as d:
        sut = Sut(d, text, gcount, filter_mode)
        out = []
        for op in ops:
            r = sut.apply(op)
            out.append([r, sut.observe()])
        return sut.base, out


def counts_wire(gcount):
    return [["g", gcount], ["g2", 2]]


# ----------------------------------------------------------------------------- spec on the implementation's output
def spec_check(chk, text, gcount, ops, base, steps):
    """returns (list of (step index, what, expected, got)), nontrivial?)  Everything is judged on the
    implementation's own observations; the oracle only evaluates the extracted spec functions."""
    bad = []
    nontrivial = False
    init_model = [[s, k, []] for s, k, _ in base]
    prev = [1, canon(init_model), None, canon(text)]       # constructor: filtered = True, nothing loaded
    counts = dict(g=gcount, g2=2)
    partial = True          # history variable "the loaded policy is a partial view" (Filtered.ghost_next)
    load_raised = False
    auto = True             # the caller's switch enable_auto_build_role_links (op 4); op 5 = build_role_links()
    # spec requests for the load steps
    reqs, where = [], []
    for i, op in enumerate(ops):
        before = prev if i == 0 else steps[i - 1][1]
        if op[0] in (0, 1, 2):
            cleared = [[s, k, ([] if chr(s) in "pg" else pol)] for s, k, pol in before[1]]
            start = before[1] if op[0] == 2 else cleared
            P, G = (op[1], op[2]) if op[0] != 0 else ([], [])
            reqs.append((3, [core.wstr(before[3]), P, G, start]))
            where.append(i)
    reps = dict(zip(where, chk.oracle.query(reqs))) if reqs else {}
    for i, op in enumerate(ops):
        before = prev if i == 0 else steps[i - 1][1]
        res, after = steps[i]
        flag_b, model_b, _, file_b = before
        flag_a, model_a, links_a, file_a = after
        # (1) the store is never written while the loaded policy is a filtered subset
        if op[0] == 3 and partial and res == [0, []]:
            bad.append((i, "save_policy wrote a partial view over the store (the view is partial by its load history)",
                        [999, ERR["EFilteredSave"]], res, F_RELOAD if (load_raised and not flag_b) else None))
        if op[0] == 3:
            if flag_b:
                if res != [999, ERR["EFilteredSave"]]:
                    bad.append((i, "save_policy did not refuse while is_filtered()", [999, ERR["EFilteredSave"]], res))
                if file_a != file_b:
                    bad.append((i, "the policy file changed although the loaded policy is a filtered subset", "unchanged", "changed"))
            elif res != [0, []]:
                bad.append((i, "save_policy raised although the policy is not filtered", [0, []], res))
        elif op[0] in (4, 5):
            if file_a != file_b or model_a != model_b or flag_a != flag_b:
                bad.append((i, "enable_auto_build_role_links / build_role_links changed the policy file, the loaded policy or is_filtered()",
                            "unchanged", "changed"))
        elif file_a != file_b:
            bad.append((i, "a load operation changed the policy file", "unchanged", "changed"))
        # (2) the flag
        if op[0] == 0 and flag_a != 0:
            bad.append((i, "is_filtered() still true after a full load_policy", 0, flag_a))
        if op[0] in (1, 2):
            empty = py_empty_filter(op[1], op[2])
            plain, m_subset, m_stored, m_empty, grammar = reps[i]
            if bool(m_empty) != empty and len(chk.disagreements) < 3:
                chk.disagree(dict(kind="empty-filter", P=op[1], G=op[2]), empty, m_empty,
                             where="empty filter: Python statement vs Filtered.is_empty_filter")
            if empty and flag_a != 0:
                bad.append((i, "is_filtered() true after loading with an empty filter", 0, flag_a))
            if not empty and res == [0, []] and flag_a != 1:
                bad.append((i, "is_filtered() false after a filtered load", 1, flag_a))
        # (3) exactly the subset, appended to what was loaded (incremental) or replacing it
        if op[0] in (0, 1, 2) and res == [0, []]:
            plain, m_subset, m_stored, m_empty, grammar = reps[i]
            if plain or grammar:
                want = m_stored if (op[0] == 0 or m_empty) else m_subset
                if model_a != want:
                    fid = F_BRACKET if (not plain and op[0] != 0 and has_bracketed_comma(core.wstr(file_b))) else None
                    bad.append((i, "loaded policy is not exactly the filtered subset of the stored rules"
                                if op[0] != 0 else "full load did not load the stored rules", want, model_a, fid))
                if op[0] != 0 and not m_empty:
                    stored = {core.wstr(k): pol for s, k, pol in m_stored if chr(s) in "pg"}
                    sub = {core.wstr(k): pol for s, k, pol in m_subset if chr(s) in "pg"}
                    if any(0 < len(sub[k]) for k in ("p", "g")) and any(len(sub[k]) < len(stored[k]) for k in ("p", "g")):
                        nontrivial = True
        # history variable, from the implementation's own outcomes
        ok = res == [0, []]
        adapter_done = ok or res == [999, ERR["EGroupArity"]]     # raised only while building role links
        if op[0] == 0:
            partial = False if ok else partial
        elif op[0] == 1:
            partial = (not py_empty_filter(op[1], op[2])) if adapter_done else True
        elif op[0] == 2:
            partial = (not py_empty_filter(op[1], op[2])) if adapter_done else partial
        if op[0] in (0, 1, 2) and not ok:
            load_raised = True
        if op[0] in (0, 1, 2) and res == [0, []]:
            # (4) links from exactly the loaded g rules
            want_links = [[k, [r[:counts[core.wstr(k)]] for r in pol]] for s, k, pol in model_a if chr(s) == "g"]
            if auto:
                if links_a != want_links:
                    bad.append((i, "role links are not those of the loaded g rules", want_links, links_a))
            else:
                # auto-build switched OFF by the caller: the load itself builds nothing, the caller will (op 5).  What the
                # role managers hold in the meantime must still come from the loaded policy: a link that no loaded g rule
                # gives (left over from an earlier load) answers role queries from rules that are not in memory
                want_by = {repr(k): ls for k, ls in want_links}
                stale = [[k, [l for l in ls if l not in want_by.get(repr(k), [])]] for k, ls in links_a]
                if any(ls for k, ls in stale):
                    bad.append((i, "role links are not those of the loaded g rules (auto-build off: the role managers still hold "
                                   "links that no loaded g rule gives)", want_links, links_a))
        if op[0] == 4 and res == [0, []]:
            auto = bool(op[1])
        if op[0] == 5 and res == [0, []]:
            # the caller's own build_role_links(): from now on the links are exactly those of the loaded g rules
            want_links = [[k, [r[:counts[core.wstr(k)]] for r in pol]] for s, k, pol in model_a if chr(s) == "g"]
            if links_a != want_links:
                bad.append((i, "after build_role_links() the role links are not those of the loaded g rules", want_links, links_a))
    bad = [b if len(b) == 5 else b + (None,) for b in bad]
    return bad, nontrivial


def tie_rule_kept(chk, rng, n):
    reqs, exp = [], []
    for _ in range(n):
        P = gen_values(rng, rng.randint(0, 4), None)
        G = gen_values(rng, rng.randint(0, 4), None)
        key = rng.choice(["p", "g", "p2", "g2", "q"])
        fs = [rng.choice(NAMES[:4]) for _ in range(rng.randint(0, 4))]
        reqs.append((4, [P, G, key, fs]))
        exp.append(int(py_rule_kept(P, G, key, fs)))
    rep = chk.oracle.query(reqs)
    for q, a, b in zip(reqs, exp, rep):
        chk.count(None)
        if a != b:
            chk.disagree(dict(kind="rule_kept", args=q[1]), a, b, where="rule_kept: the property's words in Python vs Filtered.rule_kept")
    return reqs[:40], rep[:40]


def tie_filter_line(chk, maxlen):
    alpha = ["p", "g", ",", " ", "a", "2"]
    lines = ["".join(t) for n in range(maxlen + 1) for t in itertools.product(alpha, repeat=n)]
    filters = [([], []), (["a"], []), ([], ["a"]), (["", "a"], ["a", ""]), ([" a "], [" "]), (["", ""], ["", "", ""]),
               (["2", "a"], ["2"])]
    reqs = [(2, [l, P, G]) for l in lines for P, G in filters]
    rep = chk.oracle.query(reqs)
    k = 0
    for l in lines:
        for P, G in filters:
            try:
                got = int(bool(filter_line(l, [P, G])))
            except Exception as ex:  # noqa
                got = [999, classify_exception(ex)]
            chk.count(None)
            if got != rep[k] and len(chk.disagreements) < 3:
                chk.disagree(dict(kind="filter_line", line=l, P=P, G=G), got, rep[k], where="filter_line: implementation vs model")
            # SPEC on the implementation's answer (theorem C12_filter_decides_by_rule: the alphabet has no bracket, so the
            # loader's fields are the comma-separated pieces, trimmed): a line is skipped iff its rule is not kept
            fields = [x.strip() for x in l.split(",")]
            want = int(not py_rule_kept(P, G, fields[0], fields[1:]))
            if got != want and not any(c.get("case", {}).get("kind") == "filter_line" for c in chk.spec_failures):
                chk.spec_fail(dict(kind="filter_line", line=l, P=P, G=G), dict(filter_line_skips=got), dict(filter_line_skips=want),
                              "filter_line skips / keeps a line against the rule the loader reads from it (fields " +
                              repr(fields[1:]) + " of policy type " + repr(fields[0]) + ")")
            k += 1
    chk.extra.setdefault("strata", {})["exhaustive_filter_line"] = len(reqs)
    idx = chk.rng.sample(range(len(reqs)), 60)
    return [reqs[i] for i in idx], [rep[i] for i in idx]


# ----------------------------------------------------------------------------- generators
def pad(rng, s):
    return rng.choice(["", "", " ", " ", "  ", "\t"]) + s + rng.choice(["", "", "", " ", "\t"])


def gen_rule(rng, pt, gcount, odd):
    ar = {"p": 3, "p2": 2, "g": gcount, "g2": 2}[pt]
    if odd and rng.random() < 0.3:
        ar = max(1, ar + rng.choice([-2, -1, 1]))
    pools = {"p": [NAMES[:3], NAMES[3:5], NAMES[5:7]], "p2": [NAMES[:3], NAMES[5:7]],
             "g": [NAMES[:2], NAMES[1:3], NAMES[7:8] + NAMES[3:4]], "g2": [NAMES[3:5], ["data_group", "g"]]}[pt]
    return [rng.choice(pools[i] if i < len(pools) else NAMES) for i in range(ar)]


def gen_file(rng, gcount, flavour):
    """flavour: plain | odd (odd arities, duplicates) | brackets | malformed"""
    lines, rules = [], []
    for _ in range(rng.choice([0, 1, 2, 3, 4, 5, 6, 8])):
        r = rng.random()
        if r < 0.08:
            lines.append(rng.choice(["", " ", "# comment", "#p, alice, data1, read", "\t"]))
            continue
        pt = rng.choice(["p", "p", "p", "g", "g", "p2", "g2"])
        rule = gen_rule(rng, pt, gcount, flavour != "plain")
        if rng.random() < 0.12:          # '#' opens a comment only at the very start of a line: inside a field it is a character
            rule[rng.randrange(len(rule))] = rng.choice(["#ops", "/docs#intro", "a#b", "#"])
        if flavour == "brackets" and rng.random() < 0.4:
            rule[rng.randrange(len(rule))] = rng.choice(["f(a,b)", "[alice,bob]", "(x)", "f(alice, data1)"])
        if flavour == "malformed" and rng.random() < 0.25:
            rule[rng.randrange(len(rule))] = rng.choice(["a)", "x]", ")("])
        rules.append((pt, rule))
        lines.append(pad(rng, pt) + "," + ",".join(pad(rng, f) for f in rule))
        if flavour == "odd" and rng.random() < 0.15:
            lines.append(lines[-1])
    if flavour == "malformed" and rng.random() < 0.5:
        lines.insert(rng.randrange(len(lines) + 1), rng.choice(["(p), a", ",,", ",p, alice, data1, read", "p, a), b"]))
    text = "\n".join(lines) + rng.choice(["", "\n"])
    return text, rules


def gen_values(rng, n, rules, mask=None):
    out = []
    src = rng.choice(rules)[1] if rules else None
    for i in range(n):
        nonblank = (mask[i] if mask is not None else rng.random() < 0.5)
        if not nonblank:
            out.append(rng.choice(BLANKV))
        else:
            v = src[i] if (src and i < len(src) and rng.random() < 0.75) else rng.choice(NAMES)
            out.append(pad(rng, v) if rng.random() < 0.2 else v)
    return out


def gen_filter(rng, rules, maskP=None, maskG=None):
    prules = [r for r in rules if r[0] == "p"]
    grules = [r for r in rules if r[0] == "g"]
    nP = len(maskP) if maskP is not None else rng.choice([0, 1, 2, 3, 3, 4])
    nG = len(maskG) if maskG is not None else rng.choice([0, 1, 2, 3, 3, 4])
    return gen_values(rng, nP, prules, maskP), gen_values(rng, nG, grules, maskG)


def gen_ops(rng, rules, first=None):
    ops = [first] if first else []
    for _ in range(rng.choice([1, 2, 3, 4, 5, 6]) - len(ops)):
        r = rng.random()
        if r < 0.35:
            ops.append([1, *gen_filter(rng, rules)])
        elif r < 0.6:
            ops.append([2, *gen_filter(rng, rules)])
        elif r < 0.75:
            ops.append([0])
        else:
            ops.append([3])
    return ops


def gen_blank_filter(rng):
    return [rng.choice(BLANKV) for _ in range(rng.choice([0, 0, 1, 2, 3]))], [rng.choice(BLANKV) for _ in range(rng.choice([0, 0, 1, 2, 3]))]


def gen_ops_boundary(rng, rules, lo=2, hi=6):
    """sequences that cross the boundary between empty (no position or blank positions only) and restricting filters
    again and again, with save attempts in between"""
    ops = []
    for _ in range(rng.randint(lo, hi)):
        r = rng.random()
        if r < 0.5:
            kind = 1 if rng.random() < 0.7 else 2
            ops.append([kind, *(gen_blank_filter(rng) if rng.random() < 0.4 else gen_filter(rng, rules))])
        elif r < 0.65:
            ops.append([0])
        else:
            ops.append([3])
    return ops


def gen_file_roles(rng, gcount):
    """a plain file with at least two g rules (so that a filter can keep one and drop one)"""
    for _ in range(20):
        text, rules = gen_file(rng, gcount, "plain")
        if sum(1 for pt, _r in rules if pt == "g") >= 2:
            break
    return text, rules


def gen_ops_autobuild(rng, rules):
    """filtered / incremental / full loads and save attempts with the caller's switch enable_auto_build_role_links turned
    off and on again in between (op 4) and the caller's own build_role_links() (op 5); most traces first load with the
    switch on (links exist), then turn it off"""
    ops = []
    auto = True
    if rng.random() < 0.7:
        ops.append([0] if rng.random() < 0.6 else [1, *gen_filter(rng, rules)])
        ops.append([4, 0])
        auto = False
    for _ in range(rng.randint(2, 7)):
        r = rng.random()
        if r < 0.18:
            auto = (not auto) if rng.random() < 0.85 else auto
            ops.append([4, int(auto)])
        elif r < 0.30:
            ops.append([5])
        elif r < 0.58:
            ops.append([1, *(gen_blank_filter(rng) if rng.random() < 0.15 else gen_filter(rng, rules))])
        elif r < 0.74:
            ops.append([2, *gen_filter(rng, rules)])
        elif r < 0.88:
            ops.append([0])
        else:
            ops.append([3])
    return ops


# ----------------------------------------------------------------------------- one case
def judge(chk, text, gcount, ops, record=True, stratum="", filter_mode="fresh"):
    base, steps = run_trace(text, gcount, ops, filter_mode)
    # traces with the caller's switch / own link building (ops 4, 5) are outside Filtered.v: implementation-level SPEC only
    model = None if any(op[0] in (4, 5) for op in ops) else chk.oracle.query([(1, [counts_wire(gcount), text, base, ops])])[0]
    bad, nontrivial = spec_check(chk, text, gcount, ops, base, steps)
    case = dict(kind="trace", file=text, gcount=gcount, ops=ops, stratum=stratum)
    if filter_mode != "fresh":
        case["filter_object"] = filter_mode
    verdict = "ok"
    if bad:
        verdict = "spec:" + str(bad[0][4]) if bad[0][4] else "spec"
        if record:
            i, what, want, got, fid = bad[0]
            chk.spec_fail(case, dict(step=i, got=got, outcomes=[s[0] for s in steps]), want, what, finding=fid)
    elif model is not None and canon(steps) != model:
        verdict = "model"
        if record:
            first = next((i for i, (a, b) in enumerate(zip(canon(steps), model)) if a != b), None)
            chk.disagree(case, dict(step=first, impl=canon(steps)[first] if first is not None else None),
                         model[first] if first is not None and first < len(model) else model,
                         where=f"trace step {first}: implementation vs model (outcome, flag, model, links, file)")
    return verdict, base, steps, model, nontrivial


def shrink(chk, text, gcount, ops, verdict, filter_mode="fresh"):
    def fails(t, o):
        return bool(o) and judge(chk, t, gcount, o, record=False, filter_mode=filter_mode)[0] == verdict
    changed = True
    while changed:
        changed = False
        for i in range(len(ops)):
            cand = ops[:i] + ops[i + 1:]
            if fails(text, cand):
                ops, changed = cand, True
                break
        if changed:
            continue
        lines = text.split("\n")
        for i in range(len(lines)):
            cand = "\n".join(lines[:i] + lines[i + 1:])
            if cand != text and fails(cand, ops):
                text, changed = cand, True
                break
        if changed:
            continue
        for i, op in enumerate(ops):
            if op[0] in (1, 2):
                for w in (1, 2):
                    for j in range(len(op[w])):
                        for repl in ([op[w][:j] + op[w][j + 1:]], [op[w][:j] + [""] + op[w][j + 1:]] if op[w][j] != "" else []):
                            for nv in repl:
                                cand = [list(o) for o in ops]
                                cand[i][w] = nv
                                if not changed and fails(text, cand):
                                    ops, changed = cand, True
    return text, ops


def run(chk, n_random, masks_files, maxlen, n_reuse=0, n_pairs=0, n_auto=0):
    if chk.oracle is None:
        chk.notes.append("oracle unavailable; correspondence not run")
        return
    rng = chk.rng
    vm_reqs, vm_reps = [], []
    for part in (tie_filter_line(chk, maxlen), tie_rule_kept(chk, rng, 1500)):
        vm_reqs += part[0]
        vm_reps += part[1]
    cases = []
    # A: every blank/non-blank mask over three positions for P and for G, as the first (filtered) load
    masks = list(itertools.product([False, True], repeat=3))
    for mP in masks:
        for mG in masks:
            for _ in range(masks_files):
                gcount = rng.choice([2, 3, 3])
                text, rules = gen_file(rng, gcount, "plain")
                first = [rng.choice([1, 1, 2]), *gen_filter(rng, rules, mP, mG)]
                cases.append((text, gcount, gen_ops(rng, rules, first), "masks"))
    # B: random traces over the four file flavours
    for _ in range(n_random):
        gcount = rng.choice([2, 3])
        flavour = rng.choice(["plain", "plain", "odd", "odd", "brackets", "malformed"])
        text, rules = gen_file(rng, gcount, flavour)
        cases.append((text, gcount, gen_ops(rng, rules), flavour))
    # C: fixed corner cases
    full = "p, alice, data1, read\np, bob, data2, write\ng, alice, admin\ng2, data1, data_group\np2, alice, read\n"
    cases += [
        (full, 2, [[1, ["alice"], []], [3], [0], [3]], "fixed"),
        (full, 2, [[1, ["", "", ""], [""]], [3]], "fixed"),
        (full, 2, [[1, [], []], [3]], "fixed"),
        (full, 2, [[1, ["alice"], ["bob"]], [2, ["bob"], ["alice"]], [3], [2, [], []], [3]], "fixed"),
        (full, 2, [[3], [0], [3], [1, ["", "data2"], []], [3]], "fixed"),
        (full, 2, [[1, ["alice", "", "", ""], ["alice", "", ""]]], "fixed"),
        ("", 2, [[1, ["alice"], []], [3], [0], [3]], "fixed"),
    ]
    # D: the caller keeps ONE Filter object and edits it between the loads (new lists assigned / lists edited in place),
    # the sequences cross the empty / restricting boundary in both directions
    for mode in FILTER_MODES[1:]:
        cases += [
            (full, 2, [[1, [], []], [1, ["alice"], []], [3], [1, ["", " "], [""]], [3]], "filter_object_" + mode + "/fixed", mode),
            (full, 2, [[1, ["bob"], ["alice"]], [3], [1, [], []], [3], [2, ["alice"], []], [3]], "filter_object_" + mode + "/fixed", mode),
            (full, 2, [[2, [" "], []], [2, ["", "data2"], []], [3], [0], [1, ["alice"], []], [1, ["", ""], ["", ""]], [3]],
             "filter_object_" + mode + "/fixed", mode),
        ]
        for _ in range(n_reuse):
            gcount = rng.choice([2, 3])
            text, rules = gen_file(rng, gcount, rng.choice(["plain", "plain", "odd"]))
            cases.append((text, gcount, gen_ops_boundary(rng, rules), "filter_object_" + mode, mode))
    # E: the non-default configuration enable_auto_build_role_links(False) - and switched back on - around filtered,
    # incremental and full loads; the caller builds the links himself (build_role_links)
    dom = "p, alice, data1, read\np, bob, data2, write\ng, alice, admin, dom1\ng, bob, admin, dom2\ng2, data1, data_group\n"
    if n_auto:
        cases += [
            (full, 2, [[0], [4, 0], [1, ["alice"], ["bob"]], [5], [3]], "auto_build_off/fixed"),
            (dom, 3, [[0], [4, 0], [1, [], ["", "", "dom1"]], [5], [2, [], ["", "", "dom2"]], [5]], "auto_build_off/fixed"),
            (dom, 3, [[1, [], ["bob"]], [4, 0], [1, [], ["alice"]], [4, 1], [2, ["bob"], []], [3]], "auto_build_off/fixed"),
            (dom, 3, [[4, 0], [1, [], ["alice"]], [5], [1, [], ["bob"]], [0], [5], [3]], "auto_build_off/fixed"),
            (full, 2, [[0], [4, 0], [0], [1, ["bob"], ["nobody"]], [4, 1], [0]], "auto_build_off/fixed"),
        ]
    for _ in range(n_auto):
        gcount = rng.choice([2, 3])
        text, rules = gen_file_roles(rng, gcount)
        cases.append((text, gcount, gen_ops_autobuild(rng, rules), "auto_build_off"))
    counts = {}
    covered_masks = set()
    for case in cases:
        text, gcount, ops, st = case[:4]
        fmode = case[4] if len(case) > 4 else "fresh"
        verdict, base, steps, model, nontrivial = judge(chk, text, gcount, ops, record=False, stratum=st, filter_mode=fmode)
        st = st.split("/")[0]
        counts[st] = counts.get(st, 0) + 1
        if st == "auto_build_off":
            # non-trivial here: some load happens while the switch is off
            off, nontrivial = False, False
            for op in ops:
                if op[0] == 4:
                    off = not op[1]
                elif op[0] in (0, 1, 2) and off:
                    nontrivial = True
        chk.count(((text, gcount, json.dumps(ops)) + (() if fmode == "fresh" else (fmode,))) if nontrivial else None)
        if st == "masks":
            covered_masks.add((tuple(not blank(v) for v in ops[0][1]), tuple(not blank(v) for v in ops[0][2])))
        if nontrivial and len(chk.samples) < 4:
            chk.sample(dict(file=text, gcount=gcount, ops=ops, outcomes=[s[0] for s in steps],
                            flags=[s[1][0] for s in steps]))
        if verdict != "ok":
            if verdict.startswith("spec:") and verdict[5:] in chk.known_hits:
                chk.extra["known_finding_cases"] = chk.extra.get("known_finding_cases", 0) + 1
                continue
            if len(chk.spec_failures if verdict.startswith("spec") else chk.disagreements) >= 3:
                chk.extra["further_failures_not_shrunk"] = chk.extra.get("further_failures_not_shrunk", 0) + 1
                continue
            t2, o2 = shrink(chk, text, gcount, ops, verdict, fmode)
            judge(chk, t2, gcount, o2, record=True, stratum=st + "/shrunk", filter_mode=fmode)
        elif model is not None and len(vm_reqs) < (160 if chk.tier == "quick" else 800) and len(text) < 200:
            vm_reqs.append((1, [counts_wire(gcount), text, base, ops]))
            vm_reps.append(model)
    stratum_store_unavailable(chk)
    stratum_duck_adapter(chk)
    stratum_two_enforcers(chk, n_pairs)
    chk.traces += len(cases)
    chk.extra.setdefault("strata", {}).update(counts)
    chk.extra["filter_masks_covered"] = f"{len(covered_masks)}/64 (blank/non-blank over 3 positions of P x 3 positions of G)"
    ok, n, log = core.vm_crosscheck(PROP, "From PyCasbin Require Import Base Filtered.", "oracle_C12", vm_reqs, vm_reps, chunk=60)
    chk.vm_checked += n
    if not ok:
        chk.disagree(dict(kind="extraction-vs-vm_compute"), "extracted oracle", log, where="vm_compute cross-check")


def stratum_store_unavailable(chk):
    """the policy file is briefly missing while a load is attempted: that load raises before anything is read, so
    the view in memory is still the filtered subset and save_policy must go on refusing once the file is back.
    (Different from the listed finding, where the failing load raises AFTER the adapter has started reading.)
    Implementation only; SPEC = flag still set, save refused, file bytes unchanged."""
    full = "p, alice, data1, read\np, bob, data2, write\ng, alice, admin\ng, bob, admin\ng2, data1, data_group\np2, alice, read\n"
    n = 0
    for first in ([1, ["alice"], []], [1, [], ["bob"]], [1, ["", "data2"], ["alice"]]):
        for attempt in ("load_policy", "load_filtered_policy(None)", "load_filtered_policy(empty)", "load_filtered_policy(other)",
                        "load_increment_filtered_policy(other)"):
            with tempfile.TemporaryDirectory(prefix="c12_") as d:
                sut = Sut(d, full, 2)
                r0 = sut.apply(first)
                before = sut.observe()
                hidden = sut.path + ".away"
                os.rename(sut.path, hidden)
                try:
                    if attempt == "load_policy":
                        r1 = sut.apply([0])
                    elif attempt == "load_filtered_policy(None)":
                        try:
                            sut.e.load_filtered_policy(None)
                            r1 = [0, []]
                        except Exception as ex:  # noqa
                            r1 = [999, classify_exception(ex)]
                    elif attempt == "load_filtered_policy(empty)":
                        r1 = sut.apply([1, [], []])
                    elif attempt == "load_filtered_policy(other)":
                        r1 = sut.apply([1, ["bob"], []])
                    else:
                        r1 = sut.apply([2, ["bob"], []])
                finally:
                    os.rename(hidden, sut.path)
                mid = sut.observe()
                r2 = sut.apply([3])
                after = sut.observe()
                n += 1
                chk.count(("store-unavailable", json.dumps(first), attempt))
                case = dict(kind="store-unavailable", first_load=first, attempt=attempt, file=full, gcount=2)
                what = None
                if r0 != [0, []] or before[0] != 1:
                    what = "harness: the first filtered load did not succeed"
                elif r1[0] != 999:
                    what = "a load from a missing policy file did not raise"
                elif mid[0] != 1:
                    what = "a load that raised before reading anything cleared is_filtered(): the partial view is no longer guarded"
                elif attempt == "load_policy" and mid[1] != before[1]:
                    # (load_filtered_policy clears memory before it asks the adapter, by design; only load_policy
                    #  promises - C11 - to leave memory as it was)
                    what = "load_policy raised before reading anything but changed the loaded policy"
                elif r2 != [999, ERR["EFilteredSave"]] or after[3] != before[3]:
                    what = "save_policy wrote a partial view over the store after a load that raised before reading anything"
                if what:
                    chk.spec_fail(case, dict(first=r0, attempt=r1, flag_after_attempt=mid[0], save=r2,
                                             file_changed=after[3] != before[3]), "flag set, save refused, file unchanged", what)
    chk.extra.setdefault("strata", {})["store_unavailable"] = n


class DuckFilteredAdapter(casbin.persist.Adapter):
    """a filtered adapter the way third-party (SQL/ORM) adapters are written: a plain casbin Adapter that offers
    load_filtered_policy and is_filtered WITHOUT subclassing casbin's FilteredAdapter interface and leaves the refusal to save a partial view
    to the enforcer (its own save_policy writes unconditionally)"""

    def __init__(self, path):
        self._a = FilteredFileAdapter(path)

    def load_policy(self, model):
        return self._a.load_policy(model)

    def load_filtered_policy(self, model, filter):
        return self._a.load_filtered_policy(model, filter)

    def is_filtered(self):
        return self._a.is_filtered()

    def save_policy(self, model):
        return self._a._save_policy_file(model)


def stratum_duck_adapter(chk):
    """the enforcer's own guard: while the loaded policy is a filtered subset, Enforcer.save_policy refuses whatever
    the adapter's class hierarchy looks like; a full load ends that state.  Implementation only."""
    full = "p, alice, data1, read\np, bob, data2, write\ng, alice, admin\ng, bob, admin\np2, alice, read\n"
    n = 0
    for flt in ([["alice"], []], [[], ["bob"]], [["", "data2"], ["alice"]]):
        with tempfile.TemporaryDirectory(prefix="c12_") as d:
            path = os.path.join(d, "policy.csv")
            with open(path, "wb") as f:
                f.write(full.encode())
            m = Model()
            m.load_model_from_text(MODEL.format(gdef=GDEF[2]))
            ad = DuckFilteredAdapter(path)
            e = casbin.Enforcer(m, ad)
            f1 = Filter()
            f1.P, f1.G = list(flt[0]), list(flt[1])
            e.load_filtered_policy(f1)
            n += 1
            chk.count(("duck-adapter", json.dumps(flt)))
            case = dict(kind="duck-adapter", filter=flt, file=full)
            obs = dict(is_filtered=bool(e.is_filtered()))
            try:
                e.save_policy()
                obs["save"] = "written"
            except Exception as ex:  # noqa
                obs["save"] = "raise:" + type(ex).__name__
            obs["file_changed"] = open(path, "rb").read().decode() != full
            if not obs["is_filtered"] or obs["save"] == "written" or obs["file_changed"]:
                chk.spec_fail(case, obs, dict(is_filtered=True, save="raise:RuntimeError", file_changed=False),
                              "after a filtered load through an adapter that does not subclass FilteredAdapter the enforcer did not "
                              "guard the store (is_filtered() false or save_policy wrote the partial view)")
                continue
            e.load_policy()
            ok = (not e.is_filtered())
            try:
                e.save_policy()
            except Exception:  # noqa
                ok = False
            if not ok:
                chk.spec_fail(dict(case, then="load_policy; save_policy"), dict(is_filtered=bool(e.is_filtered())), "not filtered, save accepted",
                              "a full load_policy did not end the filtered state")
    chk.extra.setdefault("strata", {})["duck_typed_adapter"] = n


# ----------------------------------------------------------------------------- two enforcers, two adapters, two stores in one process
def run_pair(files, gcounts, events, filter_mode):
    """events: [[who, op], ...] - op is applied to enforcer `who` (0 / 1); each enforcer has its own FilteredFileAdapter
    on its own policy file.  -> ([base0, base1], [steps0, steps1], frame) where steps_i are the own steps of enforcer i
    ([outcome, observation after the step]) and frame = first event after which the OTHER enforcer's observation
    (is_filtered, loaded policy, links, file bytes) differed from the one before the event, or None."""
    with tempfile.TemporaryDirectory(prefix="c12_") as d:
        shared = new_filter() if filter_mode.endswith("-shared") else None
        mode = filter_mode[:-len("-shared")] if shared is not None else filter_mode
        suts = [Sut(d, files[i], gcounts[i], mode, shared, name=f"policy{i}.csv") for i in (0, 1)]
        steps, frame = [[], []], None
        for k, (who, op) in enumerate(events):
            other = 1 - who
            ob = suts[other].observe()
            r = suts[who].apply(op)
            steps[who].append([r, suts[who].observe()])
            oa = suts[other].observe()
            if frame is None and oa != ob:
                comp = next(n for n, a, b in zip(("is_filtered()", "the loaded policy", "the role links", "the policy file"), ob, oa) if a != b)
                frame = (k, other, comp, ob[0], oa[0])
        return [s.base for s in suts], steps, frame


def judge_pair(chk, files, gcounts, events, filter_mode, record=True, stratum="two_enforcers"):
    """SPEC: each enforcer's own steps satisfy spec_check (subset, flag, save refusal, file bytes, links) against ITS store
    and agree with the model's run of ITS trace alone; an operation on one enforcer leaves the other one's is_filtered(),
    loaded policy, links and store as they were."""
    bases, steps, frame = run_pair(files, gcounts, events, filter_mode)
    case = dict(kind="two-enforcers", files=files, gcounts=gcounts, events=events, filter_object=filter_mode, stratum=stratum)
    verdict, nontrivial = "ok", False
    for i in (0, 1):
        ops = [op for who, op in events if who == i]
        if not ops:
            continue
        bad, nt = spec_check(chk, files[i], gcounts[i], ops, bases[i], steps[i])
        nontrivial = nontrivial or nt
        if bad:
            fid = bad[0][4]
            verdict = "spec:" + str(fid) if fid else "spec"
            if record:
                j, what, want, got, fid = bad[0]
                chk.spec_fail(dict(case, enforcer=i), dict(own_step=j, got=got, outcomes=[s[0] for s in steps[i]]), want,
                              what + f" [enforcer {i} of two that live in one process, each with its own adapter and store]", finding=fid)
            return verdict, nontrivial
    if frame is not None:
        k, other, comp, fb, fa = frame
        if record:
            chk.spec_fail(case, dict(event=k, enforcer_changed=other, component=comp, is_filtered_before=fb, is_filtered_after=fa),
                          "unchanged", f"an operation on one enforcer changed {comp} of ANOTHER enforcer that has its own adapter and "
                          "store (the filtered state of a loaded policy ends only by an empty filter or a full load of THAT enforcer)")
        return "spec-frame", nontrivial
    reqs = [(1, [counts_wire(gcounts[i]), files[i], bases[i], [op for who, op in events if who == i]]) for i in (0, 1)]
    models = chk.oracle.query(reqs)
    for i in (0, 1):
        if canon(steps[i]) != models[i]:
            if record:
                first = next((j for j, (a, b) in enumerate(zip(canon(steps[i]), models[i])) if a != b), None)
                chk.disagree(dict(case, enforcer=i), dict(own_step=first, impl=canon(steps[i])[first] if first is not None else None),
                             models[i][first] if first is not None and first < len(models[i]) else models[i],
                             where=f"two enforcers: own step {first} of enforcer {i}: implementation vs model of its trace alone")
            return "model", nontrivial
    return verdict, nontrivial


def shrink_pair(chk, files, gcounts, events, filter_mode, verdict):
    changed = True
    while changed:
        changed = False
        for i in range(len(events)):
            cand = events[:i] + events[i + 1:]
            if cand and judge_pair(chk, files, gcounts, cand, filter_mode, record=False)[0] == verdict:
                events, changed = cand, True
                break
    return events


def stratum_two_enforcers(chk, n):
    """TWO enforcers alive in one process, each with its own FilteredFileAdapter object on its own policy file; their traces
    (filtered / incremental / full loads, empty filters, save attempts) are interleaved at random."""
    rng = chk.rng
    full = "p, alice, data1, read\np, bob, data2, write\ng, alice, admin\ng, bob, admin\ng2, data1, data_group\np2, alice, read\n"
    other = "p, bob, data1, write\np, admin, data2, read\ng, bob, admin\np2, bob, write\n"
    cases = [
        ([full, other], [2, 2], [[0, [1, ["alice"], []]], [1, [0]], [0, [3]], [1, [3]]], "fresh"),
        ([full, other], [2, 2], [[1, [0]], [0, [1, ["alice"], []]], [1, [3]], [0, [3]]], "fresh"),
        ([full, other], [2, 2], [[0, [1, ["", "data2"], ["bob"]]], [1, [1, [], []]], [0, [3]], [1, [3]], [0, [0]], [1, [1, ["bob"], []]], [0, [3]], [1, [3]]], "fresh"),
        ([full, full], [2, 2], [[0, [1, ["alice"], []]], [1, [1, [" "], [""]]], [0, [3]], [1, [2, ["bob"], []]], [0, [1, [], []]], [1, [3]], [0, [3]]], "reused-shared"),
    ]
    for _ in range(n):
        gcounts = [rng.choice([2, 3]), rng.choice([2, 3])]
        files, rules = [], []
        for i in (0, 1):
            t, r = gen_file(rng, gcounts[i], rng.choice(["plain", "plain", "odd"]))
            files.append(t)
            rules.append(r)
        opss = [gen_ops_boundary(rng, rules[i], 1, 5) for i in (0, 1)]
        sched = [0] * len(opss[0]) + [1] * len(opss[1])
        rng.shuffle(sched)
        idx = [0, 0]
        events = []
        for who in sched:
            events.append([who, opss[who][idx[who]]])
            idx[who] += 1
        cases.append((files, gcounts, events, rng.choice(["fresh", "fresh", "reused", "reused-in-place", "reused-shared"])))
    done = 0
    for files, gcounts, events, mode in cases:
        verdict, nontrivial = judge_pair(chk, files, gcounts, events, mode, record=False)
        done += 1
        chk.count(("two-enforcers", json.dumps(files), json.dumps(events), mode) if nontrivial else None)
        if verdict != "ok":
            if verdict.startswith("spec:") and verdict[5:] in chk.known_hits:
                chk.extra["known_finding_cases"] = chk.extra.get("known_finding_cases", 0) + 1
                continue
            if len(chk.spec_failures if verdict.startswith("spec") else chk.disagreements) >= 3:
                chk.extra["further_failures_not_shrunk"] = chk.extra.get("further_failures_not_shrunk", 0) + 1
                continue
            ev2 = shrink_pair(chk, files, gcounts, events, mode, verdict)
            judge_pair(chk, files, gcounts, ev2, mode, record=True, stratum="two_enforcers/shrunk")
    chk.traces += done
    st = chk.extra.setdefault("strata", {})
    st["two_enforcers_interleaved"] = st.get("two_enforcers_interleaved", 0) + done


def replay(chk):
    rec = json.load(open(chk.replay_file))
    c = rec.get("case") or {}
    if c.get("kind") == "two-enforcers":
        n0 = (len(chk.spec_failures), len(chk.known_hits), len(chk.disagreements))
        verdict, _ = judge_pair(chk, c["files"], c["gcounts"], c["events"], c.get("filter_object", "fresh"), record=True)
        print(f"replay (two enforcers, events interleaved): verdict={verdict}")
        if chk.spec_failures:
            print(f"  spec: {chk.spec_failures[0]['what']}")
            print(f"VIOLATION property={PROP} replay={chk.replay_file}")
            sys.exit(1)
        if chk.known_hits:
            print(f"KNOWN-FINDING: property={PROP} {sorted(chk.known_hits)[0]}")
            sys.exit(0)
        if chk.disagreements:
            print(f"  {chk.disagreements[0]['where']}")
            print(f"VIOLATION property={PROP} replay={chk.replay_file} no-failing-input-found")
            sys.exit(1)
        print("replay passes: implementation agrees with the spec on this input")
        sys.exit(0)
    if c.get("kind") == "filter_line":
        l, P, G = c["line"], c["P"], c["G"]
        got = int(bool(filter_line(l, [P, G])))
        fields = [x.strip() for x in l.split(",")]
        want = int(not py_rule_kept(P, G, fields[0], fields[1:]))
        print(f"replay: filter_line({l!r}, P={P!r}, G={G!r}) skips={got}; the rule the loader reads ({fields}) is kept={1 - want}")
        if got != want:
            print(f"VIOLATION property={PROP} replay={chk.replay_file}")
            sys.exit(1)
        print("replay passes: implementation agrees with the spec on this input")
        sys.exit(0)
    if c.get("kind") != "trace":
        print("replay file names a broken theorem/correspondence, not an input:", json.dumps(rec.get("broken"))[:800])
        sys.exit(1)
    verdict, base, steps, model, _ = judge(chk, c["file"], c["gcount"], c["ops"], record=False, filter_mode=c.get("filter_object", "fresh"))
    bad, _ = spec_check(chk, c["file"], c["gcount"], c["ops"], base, steps)
    print(f"replay: outcomes={[s[0] for s in steps]} flags={[s[1][0] for s in steps]} model_agrees={(canon(steps) == model) if model is not None else 'n/a (implementation-level stratum)'}")
    if bad:
        print(f"  spec: step {bad[0][0]}: {bad[0][1]}")
        if bad[0][4] and all(b[4] == bad[0][4] for b in bad) and \
                any(f["id"] == bad[0][4] and f.get("status") == "known" for f in chk.findings):
            print(f"KNOWN-FINDING: property={PROP} {bad[0][4]}")
            sys.exit(0)
        print(f"VIOLATION property={PROP} replay={chk.replay_file}")
        sys.exit(1)
    print("replay passes: implementation agrees with the spec on this input")
    sys.exit(0)


def main():
    chk = Check(PROP)
    chk.rule = ("policy files of 0-8 lines (p, p2, g, g2 rules over 8 names with random blank padding, comments, blank "
                "lines; flavours: plain / odd arities and duplicates / bracketed commas / malformed lines) x filters "
                "(all 64 blank/non-blank masks over 3 positions of P and of G, values mostly drawn from the file's own "
                "rules, lengths 0-4) x sequences of 1-6 operations among load_filtered_policy, "
                "load_increment_filtered_policy, load_policy, save_policy on a real Enforcer + FilteredFileAdapter with "
                "g = _,_ or g = _,_,_ ; a case is non-trivial when some filtered/incremental load with a non-empty "
                "filter keeps at least one and drops at least one p or g rule; distinct by (file, model, operations); "
                "the same kind of trace with ONE Filter object kept by the caller and edited between the loads (sequences crossing "
                "the empty / restricting boundary), and pairs of such traces interleaved on TWO enforcers with their own adapter "
                "objects and stores in one process; traces in which the caller switches enable_auto_build_role_links off and on again "
                "around filtered / incremental / full loads and builds the links himself (build_role_links) - non-trivial there = some "
                "load happens while the switch is off")
    chk.assumptions = [
        "filters carry both attributes P and G as lists of strings (a Filter with only one of them set raises 'invalid filter type')",
        "the length clause of filter_words is part of the characterisation: a filter with more positions than the rule has fields drops the rule even if the extra positions are blank (C12_kept_iff states it)",
        "known finding C12/filter_splits_at_bracketed_commas: filter_line splits a line at EVERY comma while the loader splits at top-level commas only, so on a p/g rule with a comma inside brackets the filter looks at the wrong pieces; the rule-level theorems (C12_filtered_load_is_subset_exactly_partial ...) carry the guard plain_text (bracket-free lines with a non-blank first field), C12_filtered_load_is_subset_exactly_refuted is the witness; the line-level theorems (kept_iff, never_overwrites, flags, links) have no such guard",
        "the policy file exists and is UTF-8; no priority / subject-hierarchy model; auto_build_role_links stays enabled in the traces "
        "compared with Filtered.v - the traces that switch it off and on (stratum auto_build_off) are judged by the implementation-level "
        "SPEC only: with the switch off a load builds no links, the links that exist must still be given by loaded g rules, and the "
        "caller's build_role_links() makes them exactly those of the loaded g rules",
        "known finding C12/failed_load_unguards_save: a load that raises (unparsable line, g rule shorter than the role definition) after the adapter already cleared its flag — or half-way through an empty-filter load — leaves a partial view with is_filtered() False; C12_partial_view_guarded_partial carries the guard 'no load raised', C12_partial_view_guarded_refuted the witness",
        "AsyncEnforcer.load_increment_filtered_policy is C18's concern",
    ]
    chk.trusted = ["hand-written model coq/theories/Filtered.v (+ Csv.v) of filtered_file_adapter.py and the four Enforcer "
                   "methods (tied by the differential run of this check)",
                   "role links are observed at RoleManager/DomainManager.add_link/clear (recording subclasses of the real managers)"]
    chk.build(translators=["loadline", "filterline", "filtered"])
    if chk.replay_file:
        return replay(chk)
    if chk.tier == "thorough":
        run(chk, 20000, 20, 6, 2500, 4000, 4000)
    else:
        run(chk, 1200, 3, 5, 150, 250, 300)
        if (chk.broken() or chk.anchor_changed) and not chk.spec_failures:
            chk.notes.append("escalated to a bigger budget after a broken proof/correspondence")
            run(chk, 2500, 4, 5, 400, 800, 1200)
    chk.finish()


if __name__ == "__main__":
    main()
