"""C13 — built-in matching functions implement their documented pattern languages.

Proof: Props/C13.v (KeyMatch.v, Glob.v, IpMatch.v + *Proofs.v).  Correspondence: every function of
casbin/util/builtin_operators.py that the property names (key_match, key_get, key_match2..5,
key_get2, key_get3, glob_match, range_match, ip_match, their *_func wrappers and the names registered
by FunctionMap.load_function_map) is run on exhaustively enumerated (key, pattern) pairs over small
alphabets containing the metacharacters, on documented-form patterns up to a larger bound, on
generated longer paths and on an address x prefix grid; each observation is compared with the
extracted MODEL and, wherever the input is in the documented form, with the extracted SPEC
(denotational matcher) — a difference from the spec is a failing input."""
import itertools
import json
import re
import sys
import warnings

from ..core import Check, classify_exception, vm_crosscheck
from .. import ip_util

warnings.simplefilter("ignore")

PROP = "C13"
NM = 1113          # model: Err ENotModelled   /  implementation: re.error while compiling the rewritten pattern
E_KM4 = 1114       # key_match4: "number of tokens is not equal to number of values"
META = set("*?:{}[]\\")

# index in the model row (PatternInst.model_row) / spec row (PatternInst.spec_row)
M_KM, M_KG, M_KM2, M_KM3, M_KM4, M_KM5, M_GLOB, M_GLOB0, M_KG2, M_KG3 = range(10)
S_KEYOK, S_KM, S_KG, S_SEG2, S_SEG3, S_KM4, S_SEG5, S_GLOB, S_C2, S_C3, S_G2, S_KM4E = range(12)
ALL_FUNCS = ("key_match", "key_get", "key_match2", "key_match3", "key_match4", "key_match5", "glob_match",
             "key_get2", "key_get3")
REGISTERED = {"key_match": "keyMatch", "key_match2": "keyMatch2", "key_match3": "keyMatch3",
              "key_match4": "keyMatch4", "key_match5": "keyMatch5", "glob_match": "globMatch",
              "ip_match": "ipMatch"}


class BulkSet:
    """stand-in for Check.nontrivial: exhaustive enumerations are duplicate-free by construction, so
    they are counted; generated cases are de-duplicated in a real set."""

    def __init__(self):
        self.bulk = 0
        self.real = set()

    def add(self, k):
        self.real.add(k)

    def __len__(self):
        return self.bulk + len(self.real)


def load_impl():
    from casbin.util import builtin_operators as bo
    from casbin import util
    from casbin.model.function import FunctionMap
    fm = FunctionMap.load_function_map().get_functions()
    return bo, util, fm


def ob(f, *a):
    """boolean-valued observation: 0/1, 1113 for re.error, 1000+code for other exceptions"""
    try:
        r = f(*a)
    except re.error:
        return NM
    except RecursionError:
        return 1999
    except Exception as e:  # noqa
        if "KeyMatch4" in str(e):
            return E_KM4
        return 1000 + classify_exception(e)
    if r is True:
        return 1
    if r is False:
        return 0
    return ["non-bool", repr(r)]


def os_(f, *a):
    """string-valued observation in the shape of PatternInst.vrs"""
    try:
        r = f(*a)
    except re.error:
        return [999, 113]
    except Exception as e:  # noqa
        return [999, classify_exception(e)]
    if isinstance(r, str):
        return [0, [ord(c) for c in r]]
    return ["non-str", repr(r)]


def cps(s):
    return [ord(c) for c in s]


def vars_for(p):
    """path-variable names worth asking key_get2/key_get3 for: every ':'-run and every {...} candidate
    of the pattern, plus one name that does not occur"""
    out = []
    for i, c in enumerate(p):
        if c == ":":
            j = p.find("/", i)
            j = len(p) if j < 0 else j
            out.append(p[i + 1:j])
        if c == "{":
            for j in range(i + 1, len(p)):
                if p[j] == "/":
                    break
                if p[j] == "}":
                    out.append(p[i + 1:j])
    res = []
    for n in out + ["a"]:
        if n not in res:
            res.append(n)
    return res[:4]


REACH_MODEL = """[request_definition]
r = key
[policy_definition]
p = pat
[policy_effect]
e = some(where (p.eft == allow))
[matchers]
m = {name}(r.key, p.pat)
"""


class Reach:
    """the built-ins as a MATCHER reaches them: one real Enforcer per registered name whose matcher is
    <name>(r.key, p.pat); f(key, pattern) stores the pattern as the only rule and asks enforce(key)"""

    def __init__(self):
        import casbin
        from casbin.model import Model
        self.enf, self.cur = {}, {}
        for name in REGISTERED.values():
            m = Model()
            m.load_model_from_text(REACH_MODEL.format(name=name))
            self.enf[name] = casbin.Enforcer(m)

    def fn(self, name):
        e = self.enf[name]

        def f(key, pattern):
            if self.cur.get(name) != pattern:
                e.clear_policy()
                e.add_policy(pattern)
                self.cur[name] = pattern
            return e.enforce(key)
        return f


def others_customise():
    """what OTHER users of the library in the same process may do through the public API: an enforcer registers its
    own functions under the built-in names (add_function), a function map obtained from load_function_map() is edited,
    an RBAC enforcer has enforced (its role functions are entered into its function table).  None of this is about
    the enforcers under observation."""
    import casbin
    from casbin.model import Model
    from casbin.model.function import FunctionMap
    m = Model()
    m.load_model_from_text(REACH_MODEL.format(name="keyMatch").replace("[policy_effect]", "[role_definition]\ng = _, _\n[policy_effect]"))
    other = casbin.Enforcer(m)
    other.add_policy("/x")
    other.enforce("/x")
    for i, name in enumerate(list(REGISTERED.values()) + ["regexMatch"]):
        other.add_function(name, (lambda *a: True) if i % 2 else (lambda *a: False))
    other.enforce("/y")
    fm = FunctionMap.load_function_map()
    for name in REGISTERED.values():
        fm.add_function(name, lambda *a: True)
    return other, fm           # kept alive by the caller


class Runner:
    def __init__(self, chk, reach=None):
        self.chk = chk
        self.bo, self.util, self.fm = load_impl()
        self.reach = reach
        self.strata = {}
        self.fail_cap = 40
        self.total_spec_fail = 0
        self.total_disagree = 0
        self.vm_pool = []          # small (tag, value) requests for the vm_compute cross-check
        bo = self.bo
        self.impl = {"key_match": bo.key_match, "key_get": bo.key_get, "key_match2": bo.key_match2,
                     "key_match3": bo.key_match3, "key_match4": bo.key_match4, "key_match5": bo.key_match5,
                     "glob_match": bo.glob_match, "key_get2": bo.key_get2, "key_get3": bo.key_get3,
                     "ip_match": bo.ip_match}
        if reach is not None:
            for fn, name in REGISTERED.items():
                self.impl[fn] = reach.fn(name)
        self.wrap = {"key_match": bo.key_match_func, "key_match2": bo.key_match2_func,
                     "key_match3": bo.key_match3_func, "key_match4": bo.key_match4_func,
                     "key_match5": bo.key_match5_func, "glob_match": bo.glob_match_func,
                     "ip_match": bo.ip_match_func}

    # ------------------------------------------------------------------ verdicts
    def spec_fail(self, case, impl, expected, what):
        self.total_spec_fail += 1
        if len(self.chk.spec_failures) < self.fail_cap:
            self.chk.spec_fail(case, impl, expected, what)

    def disagree(self, case, impl, model, where):
        self.total_disagree += 1
        if len(self.chk.disagreements) < self.fail_cap:
            self.chk.disagree(case, impl, model, where=where)

    # ------------------------------------------------------------------ registration / wrappers
    def check_registration(self):
        """the *_func wrappers exported by casbin.util and the FunctionMap names are the functions"""
        chk = self.chk
        for fn, name in REGISTERED.items():
            w = self.wrap[fn]
            chk.count(None)
            if getattr(self.util, fn + "_func", None) is not w:
                self.spec_fail(dict(fn=fn, kind="export"), "casbin.util.%s_func is not the wrapper" % fn, "same object",
                               "casbin.util does not export the wrapper")
            if self.fm.get(name) is not w:
                self.spec_fail(dict(fn=fn, kind="registration", name=name),
                               getattr(self.fm.get(name), "__name__", type(self.fm.get(name)).__name__), fn + "_func",
                               "FunctionMap.load_function_map() registers another function under " + name)

    def wrappers_agree(self, fn, args, direct, case):
        """wrapper(*args) and the registered function give the observation of the direct call"""
        w = ob(self.wrap[fn], *args)
        r = ob(self.fm[REGISTERED[fn]], *args)
        self.chk.count(None, 2)
        if w != direct or r != direct:
            self.spec_fail(dict(case, via="wrapper/registered"), [w, r], direct,
                           f"{fn}_func / FunctionMap[{REGISTERED[fn]}] differ from {fn}")

    # ------------------------------------------------------------------ one (pattern, keys) block
    def judge(self, fn, k, p, var, impl, model, expected, stratum):
        """expected = spec verdict (None when the input is outside the documented form of fn)"""
        case = dict(fn=fn, key=k, pattern=p, stratum=stratum)
        if var is not None:
            case["var"] = var
        if expected is not None:
            ok = expected(impl) if callable(expected) else impl == expected
            if not ok:
                exp = "one of the candidate bindings" if callable(expected) else expected
                what = f"{fn}({k!r}, {p!r}{'' if var is None else ', ' + repr(var)}) = {show(impl)} but the " \
                       f"documented pattern language says {show(exp)}"
                self.spec_fail(case, impl, exp if not callable(expected) else getattr(expected, "cands", None), what)
                return
        if model == NM or model == [999, 113]:
            self.st["unmodelled"] += 1
            if expected is not None:
                self.disagree(case, impl, model, f"{fn}: model leaves its fragment on a documented-form input")
            return
        if impl != model:
            self.disagree(case, impl, model, f"{fn} on stratum {stratum}")

    def run_block(self, name, pats, keys, funcs, wrappers_every=0, chunk=400):
        chk, impl = self.chk, self.impl
        st = self.st = self.strata.setdefault(name, dict(patterns=0, keys=len(keys), pairs=0, comparisons=0,
                                                         unmodelled=0, spec_evaluated=0, accepted=0))
        st["patterns"] += len(pats)
        funcs = set(funcs)
        wcount = 0
        for c0 in range(0, len(pats), chunk):
            part = pats[c0:c0 + chunk]
            vs = [vars_for(p) if ("key_get2" in funcs or "key_get3" in funcs) else [] for p in part]
            rep1 = chk.oracle.query([(1, [p, keys, v]) for p, v in zip(part, vs)])
            rep2 = chk.oracle.query([(2, [p, keys, v]) for p, v in zip(part, vs)])
            for p, v, rows, (flags, srows) in zip(part, vs, rep1, rep2):
                d2, d3, d4, d5, is_star, g2 = flags
                meta = any(c in META for c in p)
                for k, m, s in zip(keys, rows, srows):
                    st["pairs"] += 1
                    kok = s[S_KEYOK]
                    if d4 and s[S_KM4] != s[S_KM4E]:
                        self.disagree(dict(fn="key_match4", key=k, pattern=p), s[S_KM4], s[S_KM4E],
                                      "specs differ: km4_bind_spec (unique decomposition) vs km4_spec (all decompositions)")
                    n = 0
                    acc = False
                    if "key_match" in funcs:
                        o = ob(impl["key_match"], k, p)
                        self.judge("key_match", k, p, None, o, m[M_KM], s[S_KM], name)
                        acc |= o == 1
                        n += 1
                    if "key_get" in funcs:
                        o = os_(impl["key_get"], k, p)
                        self.judge("key_get", k, p, None, o, [0, m[M_KG]], [0, s[S_KG]], name)
                        n += 1
                    if "key_match2" in funcs:
                        o = ob(impl["key_match2"], k, p)
                        exp = (1 if is_star else s[S_SEG2]) if (kok and (d2 or is_star)) else None
                        self.judge("key_match2", k, p, None, o, m[M_KM2], exp, name)
                        acc |= o == 1
                        n += 1
                    if "key_match3" in funcs:
                        o = ob(impl["key_match3"], k, p)
                        self.judge("key_match3", k, p, None, o, m[M_KM3], s[S_SEG3] if (kok and d3) else None, name)
                        acc |= o == 1
                        n += 1
                    if "key_match4" in funcs:
                        o = ob(impl["key_match4"], k, p)
                        self.judge("key_match4", k, p, None, o, m[M_KM4], s[S_KM4] if (kok and d4) else None, name)
                        acc |= o == 1
                        n += 1
                    if "key_match5" in funcs:
                        o = ob(impl["key_match5"], k, p)
                        self.judge("key_match5", k, p, None, o, m[M_KM5], s[S_SEG5] if (kok and d5) else None, name)
                        acc |= o == 1
                        n += 1
                    if "glob_match" in funcs:
                        o = ob(impl["glob_match"], k, p)
                        self.judge_glob(k, p, o, m, s, name)
                        acc |= o == 1
                        n += 1
                    for j, var in enumerate(v):
                        if "key_get2" in funcs:
                            o = os_(impl["key_get2"], k, p, var)
                            self.judge("key_get2", k, p, var, o, m[M_KG2][j], get2_expected(kok, d2, g2, s, j), name)
                            n += 1
                        if "key_get3" in funcs:
                            o = os_(impl["key_get3"], k, p, var)
                            self.judge("key_get3", k, p, var, o, m[M_KG3][j],
                                       binding_spec(s[S_C3][j], True) if (kok and d3) else None, name)
                            n += 1
                    st["comparisons"] += n
                    st["spec_evaluated"] += ("key_match" in funcs) + ("key_get" in funcs) + ("glob_match" in funcs) + \
                        (kok and (("key_match2" in funcs and (d2 or is_star)) + ("key_match3" in funcs and d3) +
                                  ("key_match4" in funcs and d4) + ("key_match5" in funcs and d5) +
                                  len(v) * (("key_get2" in funcs and d2) + ("key_get3" in funcs and d3))))
                    st["accepted"] += acc
                    chk.evaluations += n
                    if meta:
                        chk.nontrivial.bulk += 1
                    if wrappers_every:
                        wcount += 1
                        if wcount % wrappers_every == 0:
                            for fn in REGISTERED:
                                if fn in funcs:
                                    self.wrappers_agree(fn, (k, p), ob(impl[fn], k, p), dict(fn=fn, key=k, pattern=p))
                # keep a few small requests for the kernel cross-check
                if len(self.vm_pool) < 4000 and (c0 == 0 or chk.rng.random() < 0.02):
                    ks = keys[:2] + [keys[chk.rng.randrange(len(keys))]]
                    self.vm_pool.append((1, [p, ks, v]))
                    self.vm_pool.append((2, [p, ks, v]))
            if len(chk.samples) < 5 and part:
                p = part[len(part) // 2]
                k = keys[len(keys) // 2]
                chk.sample(dict(stratum=name, pattern=p, key=k, impl={f: ob(impl[f], k, p) for f in REGISTERED
                                                                       if f in funcs}))

    def judge_glob(self, k, p, o, m, s, name):
        case = dict(fn="glob_match", key=k, pattern=p, stratum=name)
        if o != s[S_GLOB]:
            tag = ""
            if o == m[M_GLOB0]:
                tag = " [agrees with the model of the UNREPAIRED function: finding C13/glob-star, " \
                      "fixes/C13-glob-star.diff not applied]"
            self.spec_fail(case, o, s[S_GLOB],
                           f"glob_match({k!r}, {p!r}) = {show(o)} but the shell-glob language ('*' and '?' never "
                           f"cross '/') says {show(s[S_GLOB])}{tag}")
        elif o != m[M_GLOB]:
            self.disagree(case, o, m[M_GLOB], f"glob_match on stratum {name}")

    # ------------------------------------------------------------------ range_match
    def run_range(self, bodies, tests, name, doc=None):
        chk = self.chk
        st = self.strata.setdefault(name, dict(classes=0, comparisons=0, spec_evaluated=0))
        st["classes"] += len(bodies)
        reqs = [(4, [b, ord(t)]) for b in bodies for t in tests]
        rep = chk.oracle.query(reqs)
        i = 0
        for bi, b in enumerate(bodies):
            pat = "[" + b
            for t in tests:
                try:
                    r = self.bo.range_match(pat, 1, t)
                    o = [0, []] if r == -1 else [0, [cps(pat[r:])]]
                except Exception as e:  # noqa
                    o = [999, classify_exception(e)]
                m = rep[i]
                i += 1
                st["comparisons"] += 1
                chk.evaluations += 1
                chk.nontrivial.bulk += 1
                case = dict(fn="range_match", pattern=pat, test=t, stratum=name)
                if doc is not None:
                    neg, items, rest = doc[bi]
                    inn = any((len(it) == 1 and it == t) or (len(it) == 2 and it[0] <= t <= it[1]) for it in items)
                    exp = [0, [cps(rest)]] if inn != neg else [0, []]
                    st["spec_evaluated"] += 1
                    if o != exp:
                        self.spec_fail(case, o, exp, f"range_match({pat!r}, 1, {t!r}): class membership is wrong")
                        continue
                if o != m:
                    self.disagree(case, o, m, "range_match")
        for b in bodies[:40]:
            self.vm_pool.append((4, [b, ord(tests[0])]))

    # ------------------------------------------------------------------ ip_match
    def run_ip(self, cases, name):
        """cases: (ip1, ip2, exp) — exp None, or ip_util.Exp: the verdict of INTEGER ARITHMETIC on the numbers the
        two texts were generated from (the spec, evaluated on the implementation's answer), or, for malformed
        arguments, ValueError / False"""
        chk = self.chk
        st = self.strata.setdefault(name, dict(cases=0, documented=0, raises=0, unmodelled=0, accepted=0))
        rep = chk.oracle.query([(6, [a, b]) for a, b, _ in cases])
        for (a, b, exp), (m, doc, spec, pa, pn) in zip(cases, rep):
            o = ob(self.impl["ip_match"], a, b)
            st["cases"] += 1
            chk.evaluations += 1
            case = dict(fn="ip_match", ip1=a, ip2=b, stratum=name)
            if exp is not None:
                case["exp"] = exp.as_list()
                # the Coq side against the arithmetic: documented-form flag, extracted spec, parsed integers
                if bool(doc) != exp.doc or (exp.doc and spec != exp.val):
                    self.disagree(case, [doc, spec], [int(exp.doc), exp.val],
                                  "ip_doc / ip_spec (IpMatch.v) differ from integer arithmetic on the generating numbers")
                if exp.addr is not None and pa != [ip_wire(*exp.addr)]:
                    self.disagree(case, pa, [ip_wire(*exp.addr)], "parse_addr differs from the integer the text was written from")
                if exp.net is not None and pn != [ip_wire(*exp.net[:2]), exp.net[2]]:
                    self.disagree(case, pn, [ip_wire(*exp.net[:2]), exp.net[2]],
                                  "parse_network differs from the integers the text was written from")
            want = exp.val if exp is not None else (spec if doc else None)
            if doc or (exp is not None and exp.doc):
                st["documented"] += 1
                chk.nontrivial.add(("ip", a, b))
                st["accepted"] += o == 1
            if want is not None and o != want:
                if exp is not None and exp.doc:
                    f, x = exp.addr
                    g, net, n = exp.net
                    why = (f"block membership is {show(want)}: address {x:#x} (IPv{f}), block {net:#x}/{n} (IPv{g})"
                           + ("" if f == g else ", families differ"))
                elif exp is not None:
                    why = ("the address is malformed: ValueError expected" if want == 1011
                           else "the pattern is not a network: False expected")
                else:
                    why = f"block membership on the parsed integers (IpMatch.ip_spec) is {show(want)}"
                self.spec_fail(case, o, want, f"ip_match({a!r}, {b!r}) = {show(o)} but {why}")
                continue
            if m == NM:
                st["unmodelled"] += 1
                if doc or exp is not None:
                    self.disagree(case, o, m, "ip_match: the model leaves its fragment")
                continue
            if o >= 1000 if isinstance(o, int) else False:
                st["raises"] += 1
            if o != m:
                self.disagree(case, o, m, "ip_match")
            if st["cases"] % 7 == 0:
                self.wrappers_agree("ip_match", (a, b), o, case)
        for a, b, _ in cases[:40]:
            if len(a) + len(b) < 90:
                self.vm_pool.append((6, [a, b]))

    def run_ip_render(self, ints, name):
        """render6_full / render6_compressed (the texts of theorem C13_ip6_render_roundtrip) are Python's
        IPv6Address(n).exploded / str(IPv6Address(n)), and ip_match identifies them"""
        import ipaddress
        st = self.strata.setdefault(name, dict(cases=0))
        rep = self.chk.oracle.query([(7, ip_util.groups(n)) for n in ints])
        for n, (full, comp) in zip(ints, rep):
            full, comp = "".join(map(chr, full)), "".join(map(chr, comp))
            st["cases"] += 1
            self.chk.evaluations += 1
            A = ipaddress.IPv6Address(n)
            case = dict(fn="ip_match", kind="render", n=str(n), ip1=comp, ip2=full, stratum=name)
            if full != A.exploded or comp != str(A) or comp != ip_util.canonical6(n) or full != ip_util.full6(n):
                self.disagree(case, [A.exploded, str(A)], [full, comp], "render6_full / render6_compressed vs ipaddress")
            o = ob(self.impl["ip_match"], comp, full)
            if o != 1:
                self.spec_fail(case, o, 1, f"ip_match({comp!r}, {full!r}) = {show(o)} but both texts denote {n:#x}")
        for n in ints[:10]:
            self.vm_pool.append((7, ip_util.groups(n)))


def ip_wire(f, x):
    return [4, x] if f == 4 else [6] + ip_util.groups(x)


def show(x):
    if x == 1:
        return "True"
    if x == 0:
        return "False"
    if isinstance(x, list) and len(x) == 2 and x[0] == 0 and isinstance(x[1], list):
        return repr("".join(chr(c) for c in x[1]))
    return repr(x)


def get2_expected(kok, d2, g2, s, j):
    """key_get2: unique decomposition (theorem C13_key_get2_iff_partial) -> exactly get2_spec;
    otherwise documented form -> one of the candidate bindings"""
    if not kok or not d2:
        return None
    if g2:
        if [c for c in s[S_C2][j]] and s[S_G2][j] not in s[S_C2][j]:
            return lambda impl: False          # the two specs contradict each other: surfaces as a failure
        return [0, s[S_G2][j]]
    return binding_spec(s[S_C2][j], False)


def binding_spec(cands, lazy):
    """key_get2/key_get3 on a documented-form pattern: the text bound to the named segment.
    cands = binding of the name in every decomposition of the key along the pattern.
    No decomposition -> "".  All decompositions bind the same text -> exactly it.  Several different
    bindings (adjacent {a}{b}, or '/*' before a variable) -> "the text bound" is one of them (which
    one is the regex priority order, covered by the model correspondence, not by the spec)."""
    uniq = []
    for c in cands:
        if c not in uniq:
            uniq.append(c)

    def ok(impl):
        if not cands:
            return impl == [0, []]
        if len(uniq) == 1:
            return impl == [0, uniq[0]]
        return impl[0] == 0 and impl[1] in uniq
    ok.cands = [[0, c] for c in uniq] if cands else [0, []]
    return ok


# ---------------------------------------------------------------------- generators
def strings(alpha, maxlen):
    return ["".join(t) for n in range(maxlen + 1) for t in itertools.product(alpha, repeat=n)]


def doc_patterns(chk, alpha, maxlen):
    """all strings over alpha up to maxlen that are in the documented form of at least one of
    keyMatch2/3/4/5 (decided by the extracted doc2/doc3/doc4/doc5), plus "*" """
    pats = strings(alpha, maxlen)
    out = []
    for c0 in range(0, len(pats), 20000):
        part = pats[c0:c0 + 20000]
        fl = chk.oracle.query([(5, p) for p in part])
        out += [p for p, f in zip(part, fl) if any(f) or p == "*"]
    return out, len(pats)


VOCAB = ["foo", "bar", "alice", "bob", "data1", "res", "v1", "x", "proxy", "myid", "a_b", "r-2", "api", "42", "using"]
NAMES = ["id", "resId", "name", "x", "proj"]


def rand_seg(rng):
    if rng.random() < 0.7:
        return rng.choice(VOCAB)
    return "".join(rng.choice("abcxyz019_-") for _ in range(rng.randint(1, 6)))


def gen_path_case(rng, style):
    """(pattern, key) for style in colon|brace|star|glob: a documented-form pattern of 1-6 segments and
    a key obtained by instantiating it, then possibly mutating it"""
    nseg = rng.randint(1, 6)
    pat, key = [], []
    env = {}
    for i in range(nseg):
        r = rng.random()
        if style in ("colon", "brace") and r < 0.35:
            n = rng.choice(NAMES)
            val = env[n] if (n in env and rng.random() < 0.6) else rand_seg(rng)
            env.setdefault(n, val)
            pat.append(":" + n if style == "colon" else "{" + n + "}")
            key.append(val)
        elif style == "brace" and r < 0.43:
            n1, n2 = rng.sample(NAMES, 2)
            sep = rng.choice(["", "_", "-", "."])
            v1, v2 = rand_seg(rng), rand_seg(rng)
            pat.append("{" + n1 + "}" + sep + "{" + n2 + "}")
            key.append(v1 + (sep if rng.random() < 0.7 else "") + (v2 if rng.random() < 0.8 else ""))
        elif style == "brace" and r < 0.5:
            n = rng.choice(NAMES)
            val = rand_seg(rng)
            pre, suf = rng.choice(["", "p_", "v"]), rng.choice(["", "_admin", "-x"])
            pat.append(pre + "{" + n + "}" + suf)
            key.append(pre + val + suf)
        elif style == "glob" and r < 0.6:
            s = rand_seg(rng)
            j = rng.randrange(len(s) + 1)
            kind = rng.random()
            if kind < 0.4:
                j2 = rng.randrange(j, len(s) + 1)
                pat.append(s[:j] + "*" + s[j2:])
            elif kind < 0.6 and s:
                j = rng.randrange(len(s))
                pat.append(s[:j] + "?" + s[j + 1:])
            elif kind < 0.9 and s:
                j = rng.randrange(len(s))
                c = s[j]
                cls = rng.choice(["[%s]" % c, "[!%s]" % c, "[a-z]", "[!0-9]", "[%s-%s]" % (c, chr(ord(c) + 1)), "[xyz%s]" % c,
                                  "[^%s]" % c])
                pat.append(s[:j] + cls + s[j + 1:])
            else:
                pat.append(s + "\\*")
                s = s + "*"
            key.append(s)
        else:
            s = rand_seg(rng)
            pat.append(s)
            key.append(s)
    p = "/" + "/".join(pat)
    k = "/" + "/".join(key)
    r = rng.random()
    if r < 0.35:
        if style == "star" and rng.random() < 0.5:
            p += "*"
        else:
            p += "/*"
        extra = rng.choice(["", "/", "/x", "/x/y/z", "x", "/" + rand_seg(rng)])
        k += extra
    elif style == "star" and r < 0.6:
        j = rng.randrange(1, len(p) + 1)
        p = p[:j] + "*" + p[j:]
    # mutate the key
    m = rng.random()
    if m < 0.45 and k:
        j = rng.randrange(len(k))
        op = rng.random()
        if op < 0.3:
            k = k[:j] + k[j + 1:]
        elif op < 0.6:
            k = k[:j] + rng.choice("ab/x_1") + k[j:]
        elif op < 0.8:
            k = k[:j] + rng.choice("ab/x") + k[j + 1:]
        elif op < 0.9:
            k = k + "/" + rand_seg(rng)
        else:
            k = k.rsplit("/", 1)[0]
    if rng.random() < 0.2:
        k += rng.choice(["?a=1", "?x=/y&z=2", "?"])
    return p, k


def class_cases(rng, n):
    bodies, docs = [], []
    alpha = "abcdxyz0123459_"
    for _ in range(n):
        neg = rng.random() < 0.4
        items = []
        for _ in range(rng.randint(0, 4)):
            if rng.random() < 0.5:
                items.append(rng.choice(alpha))
            else:
                lo, hi = sorted(rng.sample(alpha, 2)) if rng.random() < 0.85 else sorted(rng.sample(alpha, 2), reverse=True)
                items.append(lo + hi)
        rest = rng.choice(["", "x", "*/a", "]"])
        body = ("!" if neg else "") + "".join(i if len(i) == 1 else i[0] + "-" + i[1] for i in items) + "]" + rest
        if neg and rng.random() < 0.5:
            body = "^" + body[1:]
        bodies.append(body)
        docs.append((neg, items, rest))
    return bodies, docs


# ---------------------------------------------------------------------- the run
BUDGET = {
    # A: every pattern over the 8-character alphabet; B: documented-form patterns; G: glob alphabets
    "quick": dict(A=(4, 3), B=(5, 4), G1=(5, 4), G2=(4, 3), random=3000, ipbase=12, ip6=(8, 10, 6), classes=(4, 300), nl=(3, 2), reach=(600, 3)),
    # after a broken proof/correspondence in quick: look for a failing input where it is most likely to be
    # (longer documented-form patterns, more generated paths); the other strata are not repeated
    "escalated": dict(A=None, B=(6, 4), G1=None, G2=None, random=12000, ipbase=40, ip6=(40, 24, 30), classes=None, nl=None, reach=(3000, 8)),
    "thorough": dict(A=(4, 4), B=(6, 5), G1=(6, 5), G2=(5, 3), random=20000, ipbase=120, ip6=(120, None, 200), classes=(5, 3000), nl=(4, 3), reach=(6000, 12)),
}


def run(chk, budget):
    rng = chk.rng
    R = Runner(chk)
    if chk.oracle is None:
        chk.notes.append("oracle unavailable; correspondence not run")
        return R
    b = BUDGET[budget]
    R.check_registration()
    keys3 = lambda n: strings("/ab", n)
    qkeys = ["?", "/a?", "/a?b", "/a/?a", "/a?/b", "a?", "/a/b?a=/", "/?/a"]

    # G: glob_match over its own metacharacters (the defect-prone function first: minimal counterexamples)
    if b["G1"]:
        pl, kl = b["G1"]
        R.run_block("glob{/ab*?}", strings("/ab*?", pl), keys3(kl), ["glob_match"], wrappers_every=997)
    if b["G2"]:
        pl, kl = b["G2"]
        R.run_block("glob{/a*[]!-\\}", strings("/a*[]!-\\", pl), strings("/a]-\\", kl), ["glob_match"], wrappers_every=997)
    # A: all functions, every pattern over {/ a b : * { } ?}
    if b["A"]:
        pl, kl = b["A"]
        R.run_block("all{/ab:*{}?}", strings("/ab:*{}?", pl), keys3(kl) + qkeys, ALL_FUNCS, wrappers_every=499)
    # B: documented-form patterns up to a larger bound, longer keys
    if b["B"]:
        pl, kl = b["B"]
        docp, ncand = doc_patterns(chk, "/ab:*{}", pl)
        R.strata["doc-form-filter"] = dict(candidates=ncand, documented=len(docp), maxlen=pl)
        R.run_block("documented{/ab:*{}}", docp, keys3(kl) + qkeys,
                    ["key_match2", "key_match3", "key_match4", "key_match5", "key_get2", "key_get3"], wrappers_every=499)
    # N: faithfulness of the regex-fragment model on '.', '+', '(', ')', digits, ',', newline
    if b["nl"]:
        pl, kl = b["nl"]
        R.run_block("regex-chars{/a.*+(1,}", strings("/a.*+(){1,}", pl), strings("/a1\n", kl),
                    ["key_match2", "key_match3", "key_match4", "key_match5", "key_get2", "key_get3"])
    # E: range_match
    if b["classes"]:
        cl, nrand = b["classes"]
        R.run_range(strings("ab]\\-!^", cl), "ab-]!^c\\", "range{ab]\\-!^}")
        bodies, docs = class_cases(rng, nrand)
        R.run_range(bodies, "abcdxyz0159_-]", "range-documented", doc=docs)
    # C: generated longer paths, every function, wrappers and registered names on every case
    st = R.strata.setdefault("generated-paths", dict(cases=0))
    by_style = {}
    for i in range(b["random"]):
        style = ("colon", "brace", "star", "glob")[i % 4]
        p, k = gen_path_case(rng, style)
        by_style.setdefault(style, []).append((p, k))
    for style, lst in by_style.items():
        funcs = {"colon": ["key_match", "key_get", "key_match2", "key_get2"],
                 "brace": ["key_match3", "key_match4", "key_match5", "key_get3"],
                 "star": ["key_match", "key_get", "key_match2", "key_match3", "key_match5", "glob_match"],
                 "glob": ["glob_match"]}[style]
        # one block per pattern (its own key); group identical patterns
        groups = {}
        for p, k in lst:
            groups.setdefault(p, []).append(k)
        for p, ks in groups.items():
            for k in ks:
                chk.nontrivial.add((style, p, k))
        # run in batches of patterns sharing one key list is not possible: query per pattern
        run_generated(R, "generated-" + style, groups, funcs)
        st["cases"] += len(lst)
    # D: ip_match — both families; every documented-form case is written from integers (harness/ip_util.py)
    if b["ipbase"]:
        nb6, npref, nrand = b["ip6"]
        R.run_ip(ip_util.grid4(rng, b["ipbase"]), "ip-grid")
        R.run_ip(ip_util.masks4(rng, max(2, b["ipbase"] // 3)), "ip4-netmask-hostmask")
        R.run_ip(ip_util.structured6_cases(rng), "ip6-structured")
        R.run_ip(ip_util.grid6(rng, nb6, npref), "ip6-grid")
        R.run_ip(ip_util.embedded4(rng, nrand), "ip6-embedded-ipv4")
        R.run_ip(ip_util.mixed(rng, nrand), "ip-mixed-families")
        R.run_ip(ip_util.malformed(rng), "ip-malformed")
        R.run_ip(ip_util.zones(rng), "ip6-zones")
        R.run_ip_render(ip_util.SPECIAL6 + [rng.getrandbits(128) for _ in range(20 * nrand)] +
                        [rng.getrandbits(128) & ~(((1 << 64) - 1) << rng.randrange(0, 65)) for _ in range(20 * nrand)] +
                        [n for _, n in ip_util.structured6()[::7]], "ip6-renderings")

    # F: the registered names as REACHED THROUGH an Enforcer's matcher (the property's second observation point), before
    #    and after other users of the library customised their own function tables
    if b.get("reach"):
        run_reached(chk, R, b["reach"])

    # kernel cross-check of the extracted oracle on a sample of small requests
    pool = R.vm_pool
    k = 160 if budget == "quick" else 1200
    sample = [pool[i] for i in sorted(rng.sample(range(len(pool)), min(k, len(pool))))]
    if sample:
        replies = chk.oracle.query(sample)
        ok, n, log = vm_crosscheck(chk.prop, "From PyCasbin Require Import Base PatternInst.", "oracle_C13", sample, replies,
                                   chunk=80)
        chk.vm_checked += n
        if not ok:
            chk.disagree(dict(kind="extraction-vs-vm_compute"), "extracted oracle", log, where="vm_compute cross-check")
    chk.traces += sum(s.get("pairs", 0) + s.get("cases", 0) + s.get("classes", 0) for s in R.strata.values())
    chk.extra["strata"] = R.strata
    chk.extra["budget"] = budget
    chk.extra["spec_failures_total"] = R.total_spec_fail
    chk.extra["disagreements_total"] = R.total_disagree
    chk.exhaustive = True
    chk.spec_failures.sort(key=lambda r: (len(str(r["case"].get("pattern", r["case"].get("ip2", "")))) +
                                          len(str(r["case"].get("key", r["case"].get("ip1", ""))))))
    if chk.spec_failures and str(chk.spec_failures[0]["case"].get("stratum", "")).startswith("generated"):
        try:
            chk.spec_failures[0] = shrink(chk, chk.spec_failures[0])
        except Exception as e:  # noqa  (shrinking is best effort)
            chk.notes.append(f"shrink failed: {e!r}")
    return R


REACH_PHASES = ("reached-through-enforcer", "reached-through-enforcer/others-customised/enforcer-built-before",
                "reached-through-enforcer/others-customised/enforcer-built-after")


def reach_runners(chk, R=None):
    """the three observation set-ups, in program order: enforcers built now; the same enforcers after others
    customised; fresh enforcers built after that.  Yields (stratum name, Runner)"""
    first = Reach()
    r0 = Runner(chk, reach=first)
    yield REACH_PHASES[0], r0
    keep = others_customise()
    yield REACH_PHASES[1], r0
    r2 = Runner(chk, reach=Reach())
    r2.keep = keep
    yield REACH_PHASES[2], r2


def run_reached(chk, R, budget):
    import time
    n, nip = budget
    rng = chk.rng
    t0 = time.time()
    styles = {"colon": ["key_match", "key_match2"], "brace": ["key_match3", "key_match4", "key_match5"],
              "star": ["key_match", "key_match2", "key_match3", "key_match5", "glob_match"], "glob": ["glob_match"]}
    for phase, (name, Rr) in enumerate(reach_runners(chk)):
        Rr.strata, Rr.vm_pool, Rr.fail_cap = R.strata, R.vm_pool, R.fail_cap
        Rr.check_registration()
        for style, funcs in styles.items():
            groups = {}
            for _ in range(n // 12):
                p, k = gen_path_case(rng, style)
                groups.setdefault(p, []).append(k)
                chk.nontrivial.add((name, style, p, k))
            run_generated(Rr, name, groups, funcs)
        Rr.run_ip(ip_util.grid4(rng, nip) + ip_util.structured6_cases(rng)[phase::40] + ip_util.mixed(rng, nip), name + "/ip")
        R.total_spec_fail += Rr.total_spec_fail
        R.total_disagree += Rr.total_disagree
        Rr.total_spec_fail = Rr.total_disagree = 0
    R.strata["reached-through-enforcer-wall"] = dict(seconds=round(time.time() - t0, 1))


def run_generated(R, name, groups, funcs):
    """like run_block but each pattern has its own key list"""
    chk, impl = R.chk, R.impl
    st = R.st = R.strata.setdefault(name, dict(patterns=0, pairs=0, comparisons=0, unmodelled=0, accepted=0,
                                               spec_evaluated=0, maxlen_pattern=0, maxlen_key=0))
    items = list(groups.items())
    funcs = set(funcs)
    vs = [vars_for(p) for p, _ in items]
    rep1 = chk.oracle.query([(1, [p, ks, v]) for (p, ks), v in zip(items, vs)])
    rep2 = chk.oracle.query([(2, [p, ks, v]) for (p, ks), v in zip(items, vs)])
    for (p, ks), v, rows, (flags, srows) in zip(items, vs, rep1, rep2):
        d2, d3, d4, d5, is_star, g2 = flags
        st["patterns"] += 1
        st["maxlen_pattern"] = max(st["maxlen_pattern"], len(p))
        for k, m, s in zip(ks, rows, srows):
            st["pairs"] += 1
            st["maxlen_key"] = max(st["maxlen_key"], len(k))
            kok = s[S_KEYOK]
            n = 0
            table = [("key_match", M_KM, s[S_KM]), ("key_match2", M_KM2, s[S_SEG2] if kok and d2 else None),
                     ("key_match3", M_KM3, s[S_SEG3] if kok and d3 else None),
                     ("key_match4", M_KM4, s[S_KM4] if kok and d4 else None),
                     ("key_match5", M_KM5, s[S_SEG5] if kok and d5 else None)]
            for fn, mi, exp in table:
                if fn in funcs:
                    o = ob(impl[fn], k, p)
                    R.judge(fn, k, p, None, o, m[mi], exp, name)
                    R.wrappers_agree(fn, (k, p), o, dict(fn=fn, key=k, pattern=p, stratum=name))
                    st["accepted"] += o == 1
                    st["spec_evaluated"] += exp is not None
                    n += 1
            if "glob_match" in funcs:
                o = ob(impl["glob_match"], k, p)
                R.judge_glob(k, p, o, m, s, name)
                R.wrappers_agree("glob_match", (k, p), o, dict(fn="glob_match", key=k, pattern=p, stratum=name))
                st["accepted"] += o == 1
                st["spec_evaluated"] += 1
                n += 1
            if "key_get" in funcs:
                o = os_(impl["key_get"], k, p)
                R.judge("key_get", k, p, None, o, [0, m[M_KG]], [0, s[S_KG]], name)
                n += 1
            for j, var in enumerate(v):
                if "key_get2" in funcs:
                    o = os_(impl["key_get2"], k, p, var)
                    R.judge("key_get2", k, p, var, o, m[M_KG2][j], get2_expected(kok, d2, g2, s, j), name)
                    n += 1
                if "key_get3" in funcs:
                    o = os_(impl["key_get3"], k, p, var)
                    R.judge("key_get3", k, p, var, o, m[M_KG3][j], binding_spec(s[S_C3][j], True) if kok and d3 else None,
                            name)
                    n += 1
            st["comparisons"] += n
            chk.evaluations += n
        if len(R.vm_pool) < 6000 and chk.rng.random() < 0.1:
            R.vm_pool.append((1, [p, ks[:2], v]))
            R.vm_pool.append((2, [p, ks[:2], v]))
    if items:
        p, ks = items[len(items) // 2]
        chk.sample(dict(stratum=name, pattern=p, key=ks[0], impl={f: ob(impl[f], ks[0], p) for f in REGISTERED if f in funcs}))


# ---------------------------------------------------------------------- shrinking of generated failures
class _Stub:
    """just enough of Check for a throw-away Runner"""

    def __init__(self, chk):
        import random
        self.oracle, self.prop, self.rng = chk.oracle, chk.prop, random.Random(0)
        self.evaluations, self.nontrivial, self.samples = 0, BulkSet(), []
        self.spec_failures, self.disagreements, self.findings = [], [], []

    def count(self, key=None, n=1):
        self.evaluations += n

    def sample(self, s, cap=6):
        pass

    def spec_fail(self, case, impl, expected, what, finding=None):
        self.spec_failures.append(dict(case=case, impl_observation=impl, spec_expected=expected, what=what))

    def disagree(self, case, impl, model, where=""):
        self.disagreements.append(dict(case=case))


def shrink(chk, rec, max_rounds=200):
    """drop characters of the key / the pattern while the same function still violates its spec"""
    c = rec["case"]
    fn = c.get("fn")
    if fn not in ALL_FUNCS or "key" not in c or c.get("via"):
        return rec
    k, p = c["key"], c["pattern"]
    for _ in range(max_rounds):
        cands = [(k[:i] + k[i + 1:], p) for i in range(len(k))] + [(k, p[:i] + p[i + 1:]) for i in range(len(p))]
        groups = {}
        for k2, p2 in cands:
            groups.setdefault(p2, [])
            if k2 not in groups[p2]:
                groups[p2].append(k2)
        stub = _Stub(chk)
        R2 = Runner(stub)
        R2.fail_cap = 10 ** 6
        run_generated(R2, "shrunk", groups, [fn])
        fails = [r for r in stub.spec_failures if r["case"].get("fn") == fn and not r["case"].get("via")]
        if not fails:
            break
        best = min(fails, key=lambda r: (len(r["case"]["pattern"]) + len(r["case"]["key"]), r["case"]["pattern"]))
        k, p = best["case"]["key"], best["case"]["pattern"]
        rec = dict(best, case=dict(best["case"], shrunk_from=dict(key=c["key"], pattern=c["pattern"], stratum=c.get("stratum"))))
    return rec


# ---------------------------------------------------------------------- replay
def replay(chk):
    rec = json.load(open(chk.replay_file))
    c = rec.get("case") or {}
    fn = c.get("fn")
    if fn is None or c.get("kind") in ("export", "registration", "extraction-vs-vm_compute"):
        R = Runner(chk)
        R.check_registration()
        for _name, Rr in reach_runners(chk):       # ... and in the set-ups of stratum F (before / after others customised)
            Rr.check_registration()
        if chk.spec_failures:
            print("replay: registration/export check fails:", chk.spec_failures[0]["what"])
            print(f"VIOLATION property={chk.prop} replay={chk.replay_file}")
            sys.exit(1)
        print("replay file names a broken theorem/correspondence, not an input:", json.dumps(rec.get("broken"))[:800])
        sys.exit(1 if rec.get("kind") == "no-failing-input-found" else 0)
    R = Runner(chk)
    if str(c.get("stratum", "")).split("/ip")[0] in REACH_PHASES:
        # the case was observed through an enforcer: rebuild the same set-up (program order matters)
        for name, Rr in reach_runners(chk):
            if name == str(c["stratum"]).split("/ip")[0]:
                R = Rr
                break
    if fn == "ip_match":
        if c.get("kind") == "render":
            R.run_ip_render([int(c["n"])], "replay")
        else:
            R.run_ip([(c["ip1"], c["ip2"], ip_util.Exp.from_list(c["exp"]) if c.get("exp") else None)], "replay")
    elif fn == "range_match":
        R.run_range([c["pattern"][1:]], c["test"], "replay")
    else:
        k, p = c["key"], c["pattern"]
        if c.get("via"):
            R.wrappers_agree(fn, (k, p), ob(R.impl[fn], k, p), dict(fn=fn, key=k, pattern=p))
        groups = {p: [k]}
        run_generated(R, "replay", groups, [fn])
    o = None
    try:
        args = (c["ip1"], c["ip2"]) if fn == "ip_match" else (c["key"], c["pattern"]) + ((c["var"],) if "var" in c else ())
        o = (os_ if fn in ("key_get", "key_get2", "key_get3") else ob)(R.impl[fn], *args) if fn in R.impl else None
    except Exception:  # noqa
        pass
    print(f"replay: {fn} case={json.dumps(c)} impl={show(o)}")
    if chk.spec_failures:
        print("  " + chk.spec_failures[0]["what"])
        print(f"VIOLATION property={chk.prop} replay={chk.replay_file}")
        sys.exit(1)
    if chk.disagreements:
        print("  implementation and model differ (no spec verdict on this input):", chk.disagreements[0]["where"])
        print(f"VIOLATION property={chk.prop} replay={chk.replay_file} no-failing-input-found")
        sys.exit(1)
    print("replay passes: implementation agrees with the spec on this input")
    sys.exit(0)


def main():
    chk = Check(PROP)
    chk.nontrivial = BulkSet()
    chk.rule = (
        "(key, pattern) pairs: (G) glob_match on every pattern over {/ a b * ?} and over {/ a * [ ] ! - \\} up to the stated "
        "length x every key over {/ a b} resp. {/ a ] - \\}; (A) all nine functions on every pattern over {/ a b : * { } ?} "
        "x every key over {/ a b} plus keys with a query string; (B) every string over {/ a b : * { }} up to a larger "
        "length that is in the documented form of keyMatch2/3/4/5 (extracted doc2..doc5) x longer keys, key_get2/3 asked "
        "for every variable name of the pattern and one absent name; (N) regex-forwarded characters and newline keys; "
        "(E) range_match on every class body over {a b ] \\ - ! ^} and generated documented classes; (C) generated longer "
        "paths (1-6 segments, vocabulary + random segments, key = instantiated pattern, half of them mutated, query strings) "
        "through the functions, their *_func wrappers and the FunctionMap names; (D) ip_match, every documented-form case "
        "written from integers (family, address, block, prefix length) in a chosen spelling: IPv4 base addresses x all 33 "
        "prefix lengths x addresses at the block boundaries / one bit off / random, the same blocks written with a netmask "
        "and with a hostmask (incl. 0.0.0.0 and 255.255.255.255) and non-contiguous masks; IPv6: every placement of '::' "
        "(36 pre/post shapes and the '::'-less shape) with groups from {0, 1, db8, FFFF, 00a} (exhaustive up to 4 explicit "
        "groups, rotations above) in both cases, networks x prefix lengths 0..128 x boundary / one-bit-off / random addresses "
        "in random admissible spellings (case, leading zeros, '::' over any sub-run of zeros, dotted-quad tail), embedded "
        "IPv4 tails against their hex form, IPv4 vs IPv6 both ways incl. IPv4-mapped, a malformed stream (group counts, "
        "two '::', 5 hex digits, empty groups, bad prefixes 129 -1 +8 ' 8' 0x8, non-ASCII digits, corrupted valid texts), "
        "'%zone' suffixes, and the canonical / exploded renderings of integers; (F) the registered names as a MATCHER reaches "
        "them: one real Enforcer per built-in name with the matcher <name>(r.key, p.pat), generated paths and address grids "
        "asked through enforce() - on enforcers built first, on the same enforcers after other users of the library registered "
        "their own functions under the built-in names / edited a function map of their own, and on enforcers built after "
        "that. Exhaustive "
        "strata are duplicate-free by construction; a pair is non-trivial when its pattern contains a metacharacter "
        "(ip: when both arguments parse); generated cases are distinct by (style, pattern, key).")
    chk.assumptions = [
        "documented form (boolean predicates doc2/doc3/doc4/doc5, ip_doc, class items citem_ok): literals are any "
        "characters except regex metacharacters . ^ $ * + ? { } [ ] \\ | ( ) and ':'; '*' only as the segment '/*' "
        "(keyMatch2..5; whole pattern '*' for keyMatch2), ':name' to the end of its segment, '{name}' anywhere in a "
        "segment (keyMatch5: one per segment; keyMatch4: a whole segment); keys contain no newline "
        "(re's '$' also matches before a final newline and '.' does not match it: key_match2('/foo\\n','/foo') is True)",
        "outside the documented form the regex-based functions forward pattern characters to Python's re: the model "
        "covers literal . [^/] with * + ? and lazy variants and one level of groups, anything else is reported as "
        "not modelled and only counted",
        "ip_match: string arguments; both families, /prefix-length, IPv4 /netmask and /hostmask, IPv6 '::' / dotted-quad "
        "tail are modelled and in the documented form (ip_doc); '%zone' suffixes are modelled (the zone is ignored by the "
        "code) but outside the documented form: model comparison only; int / bytes arguments are not modelled; int() refusing "
        "prefix strings of more than 4300 digits is modelled with the default limit",
        "Python re backtracking priority, ipaddress and str methods are modelled executably and tied by this "
        "correspondence check, not verified",
        "glob_match is modelled WITH fixes/C13-glob-star.diff applied; on a tree without it the check reports the "
        "violation (finding C13/glob-star)",
    ]
    chk.trusted = ["hand-written models coq/theories/KeyMatch.v Glob.v IpMatch.v, tied to the code by this differential check"]
    chk.build(translators=["keymatch", "rangematch", "globmatch"])
    if chk.replay_file:
        return replay(chk)
    if chk.tier == "thorough":
        run(chk, "thorough")
    else:
        run(chk, "quick")
        if (chk.broken() or chk.anchor_changed) and not chk.spec_failures:
            chk.notes.append("escalated after a broken proof/correspondence")
            run(chk, "escalated")
    chk.finish()


if __name__ == "__main__":
    main()
