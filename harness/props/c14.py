"""C14 — pattern role assignments grant their roles to exactly the names that match.

Proof: Props/C14.v (model PatternRM.v).  Correspondence: histories of add_link / delete_link /
has_link / get_roles / get_users (plus clear, re-registration of the matching functions, dumps of the
internal state) on the REAL RoleManager with key_match2_func and DomainManager with key_match_func as
domain matcher, and through Enforcer (g2(r.obj, p.obj) under add_named_matching_func,
g(r.sub, p.sub, r.dom) under add_named_domain_matching_func), against the extracted model (which gets
the matching functions as truth tables computed by calling the real matchers on the universe) and
against the SPEC `grants`, evaluated here independently on the implementation's answers."""
import hashlib
import itertools
import json
import sys

from ..core import Check, classify_exception, vm_crosscheck

PROP = "C14"
FINDING = "C14-F14-delete-removes-shared-grant"
ADD, DEL, HAS, ROLES, USERS, CLEAR = 0, 1, 2, 3, 4, 5
DUMP, SETMF, SETDMF = 8, 9, 10
L_DEFAULT = 10

# ---- the universe (atoms are indices) ---------------------------------------------------------
NAMES = ["", "/book/:id", "/book/*", "/*/1", "/book/1", "/book/2", "/pen/1", "alice", "book_group", "pen_group",
         "/book/1/2", "admin", "bob", "/pen/:id"]
N = {s: i for i, s in enumerate(NAMES)}
DOMS = ["", "d1", "d2", "*", "d*", "e1"]
D = {s: i for i, s in enumerate(DOMS)}


def _safe(fn, a, b):
    """match_error_handler (role_manager.py:365-369)"""
    try:
        return bool(fn(a, b))
    except Exception:  # noqa
        return False


def _funcs():
    from casbin import util
    return util.key_match2_func, util.key_match_func


def nonreflexive_dmf(d, p):
    """a domain matcher that does not say a literal domain matches itself (model tie only)"""
    return p == "*" and d != "*"


_TABLES = {}


def tables():
    if not _TABLES:
        km2, km = _funcs()
        _TABLES["mf"] = [[i, j] for i, a in enumerate(NAMES) for j, b in enumerate(NAMES) if _safe(km2, a, b)]
        _TABLES["eq"] = [[i, i] for i in range(len(NAMES))]
        _TABLES["dmf"] = [[i, j] for i, a in enumerate(DOMS) for j, b in enumerate(DOMS) if _safe(km, a, b)]
        _TABLES["nrdmf"] = [[i, j] for i, a in enumerate(DOMS) for j, b in enumerate(DOMS) if nonreflexive_dmf(a, b)]
        for k in ("mf", "eq", "dmf", "nrdmf"):
            _TABLES[k + "_set"] = {tuple(x) for x in _TABLES[k]}
    return _TABLES


# ---- implementation --------------------------------------------------------------------------
def _edges(rm):
    ro = sorted([N[a], N[r.name]] for a, R in rm.all_roles.items() for r in R.roles)
    us = sorted([N[u.name], N[b]] for b, R in rm.all_roles.items() for u in R.users)
    return [[[N[l.user], N[l.role]] for l in rm.all_links], [N[k] for k in rm.all_roles], ro, us]


def name_mf(case):
    km2, _ = _funcs()
    if case["kind"] in ("rm", "erm") or case.get("usermf"):
        return km2
    return None


def dom_mf(case):
    _, km = _funcs()
    return nonreflexive_dmf if case.get("nrdmf") else km


ERM_TEXT = """
[request_definition]
r = sub, obj, act
[policy_definition]
p = sub, obj, act
[role_definition]
g = _, _
g2 = _, _
[policy_effect]
e = some(where (p.eft == allow))
[matchers]
m = g(r.sub, p.sub) && g2(r.obj, p.obj) && r.act == p.act
"""
EDM_TEXT = """
[request_definition]
r = sub, dom, obj, act
[policy_definition]
p = sub, dom, obj, act
[role_definition]
g = _, _, _
[policy_effect]
e = some(where (p.eft == allow))
[matchers]
m = g(r.sub, p.sub, r.dom) && r.dom == p.dom && r.obj == p.obj && r.act == p.act
"""


def run_enforcer(case):
    """the same history through Enforcer.  erm: the pattern side is the resource role definition g2
    (has_link a b  =  enforce(u, a, act_b) against the rule  p, u, b, act_b).  edm: g with domains.
    `late` registers the matching function after the policy was added (=> _rebuild / cache reset)."""
    import casbin
    from casbin.model import Model
    kind, ops = case["kind"], case["ops"]
    m = Model()
    m.load_model_from_text(ERM_TEXT if kind == "erm" else EDM_TEXT)
    e = casbin.Enforcer(m)
    km2, km = _funcs()
    names = enforcer_names(ops)
    doms = sorted({d for op in ops if op[0] in (ADD, DEL, HAS, ROLES, USERS) for d in op[-1]})
    for b in names:
        if kind == "erm":
            e.add_policy("u", NAMES[b], f"act{b}")
        else:
            for d in doms:
                e.add_policy(NAMES[b], DOMS[d], f"o{b}", "read")
    late = case.get("late", 0)

    def register():
        if kind == "erm":
            e.add_named_matching_func("g2", km2)
        else:
            e.add_named_domain_matching_func("g", dom_mf(case))
            if case.get("usermf"):
                e.add_named_matching_func("g", km2)
    if not late:
        register()
    obs = []
    for i, op in enumerate(ops):
        if late and i == late:
            register()
        c = op[0]
        try:
            if c == ADD:
                if kind == "erm":
                    ok = e.add_named_grouping_policy("g2", NAMES[op[1]], NAMES[op[2]])
                else:
                    ok = e.add_grouping_policy(NAMES[op[1]], NAMES[op[2]], *[DOMS[d] for d in op[3]])
                obs.append([0, []] if ok else [999, 800])
            elif c == DEL:
                if kind == "erm":
                    ok = e.remove_named_grouping_policy("g2", NAMES[op[1]], NAMES[op[2]])
                else:
                    ok = e.remove_grouping_policy(NAMES[op[1]], NAMES[op[2]], *[DOMS[d] for d in op[3]])
                obs.append([0, []] if ok else [999, 801])
            elif c == HAS:
                if kind == "erm":
                    r = e.enforce("u", NAMES[op[1]], f"act{op[2]}")
                else:
                    r = e.enforce(NAMES[op[1]], DOMS[op[3][0]], f"o{op[2]}", "read")
                obs.append([0, int(bool(r))])
            elif c == ROLES:
                if kind == "erm":
                    r = e.get_named_roles_for_user("g2", NAMES[op[1]]) if hasattr(e, "get_named_roles_for_user") else \
                        e.model.model["g"]["g2"].rm.get_roles(NAMES[op[1]])
                else:
                    r = e.get_roles_for_user_in_domain(NAMES[op[1]], DOMS[op[2][0]])
                obs.append([0, sorted(N[x] for x in r)])
            else:
                obs.append([998])
        except Exception as exc:  # noqa
            obs.append([999, classify_exception(exc)])
    return obs


def run_impl(case):
    kind, ops = case["kind"], case["ops"]
    if kind in ("erm", "edm"):
        return run_enforcer(case)
    from casbin.rbac import default_role_manager as drm
    km2, km = _funcs()
    L = case["L"]
    if kind == "rm":
        m = drm.RoleManager(L)
        m.add_matching_func(km2)
    else:
        m = drm.DomainManager(L)
        if case.get("usermf"):
            m.add_matching_func(km2)
        m.add_domain_matching_func(dom_mf(case))
    obs = []
    for op in ops:
        c = op[0]
        try:
            if c in (ADD, DEL, HAS):
                a, b, ds = NAMES[op[1]], NAMES[op[2]], [DOMS[d] for d in op[3]]
                if c == ADD:
                    m.add_link(a, b, *ds)
                    obs.append([0, []])
                elif c == DEL:
                    m.delete_link(a, b, *ds)
                    obs.append([0, []])
                else:
                    obs.append([0, int(bool(m.has_link(a, b, *ds)))])
            elif c in (ROLES, USERS):
                f = m.get_roles if c == ROLES else m.get_users
                obs.append([0, sorted(N[x] for x in f(NAMES[op[1]], *[DOMS[d] for d in op[2]]))])
            elif c == CLEAR:
                m.clear()
                obs.append([0, []])
            elif c == DUMP:
                if kind == "rm":
                    obs.append([0, _edges(m)])
                else:
                    obs.append([0, [[[D[d], [[N[l[0]], N[l[1]]] for l in ls]] for d, ls in m.all_links.items()],
                                    [[D[d], _edges(r)] for d, r in m.rm_map.items()]]])
            elif c == SETMF:
                m.add_matching_func(km2 if (kind == "rm" or case.get("usermf")) else (lambda a, b: a == b))
                obs.append([0, []])
            elif c == SETDMF:
                m.add_domain_matching_func(dom_mf(case))
                obs.append([0, []])
        except Exception as exc:  # noqa
            obs.append([999, classify_exception(exc)])
    return obs


# ---- model -----------------------------------------------------------------------------------
def enforcer_names(ops):
    return sorted({x for op in ops if op[0] in (ADD, DEL, HAS) for x in op[1:3]} |
                  {op[1] for op in ops if op[0] in (ROLES, USERS)})


def expand(case):
    """-> (ops as the oracle sees them, for each call of the case the index of its reply).
    Through the Enforcer one enforce() evaluates g/g2 against EVERY policy rule (the matcher starts with
    the role function), i.e. has_link(a, b') for every rule subject b' in policy order — each of which
    creates Role objects; registering the function after the assignments = _rebuild / cache reset."""
    kind = case["kind"]
    ops = [list(o) for o in case["ops"]]
    late = case.get("late", 0)
    out, where = [], []
    names = enforcer_names(ops) if kind in ("erm", "edm") else []
    for i, op in enumerate(ops):
        if late and i == late:
            out.append([SETMF if kind == "erm" else SETDMF])
        if kind in ("erm", "edm") and op[0] == HAS:
            for b in names:
                if b == op[2]:
                    where.append(len(out))
                out.append([HAS, op[1], b, op[3]])
        else:
            where.append(len(out))
            out.append(op)
    if late and late >= len(ops):
        out.append([SETMF if kind == "erm" else SETDMF])
    return out, where


def model_request(case):
    t = tables()
    kind = case["kind"]
    L = L_DEFAULT if kind in ("erm", "edm") else case["L"]
    ops, _ = expand(case)
    if kind in ("rm", "erm"):
        return (1, [L, t["mf"], ops])
    return (2, [L, t["mf"] if case.get("usermf") else t["eq"], t["nrdmf"] if case.get("nrdmf") else t["dmf"], ops])


def canon_model(case, reply):
    _, where = expand(case)
    out = []
    dm = case["kind"] in ("dm", "edm")
    for op, k in zip(case["ops"], where):
        r = reply[k]
        if r and r[0] == 0 and op[0] in (ROLES, USERS):
            r = [0, sorted(r[1])]
        if r and r[0] == 0 and op[0] == DUMP:
            if not dm:
                r = [0, [r[1][0], r[1][1], sorted(r[1][2]), sorted(r[1][3])]]
            else:
                r = [0, [r[1][0], [[d, [e[0], e[1], sorted(e[2]), sorted(e[3])]] for d, e in r[1][1]]]]
        out.append(r)
    return out


# ---- spec ------------------------------------------------------------------------------------
def mfun(case):
    t = tables()
    s = t["mf_set"] if (case["kind"] in ("rm", "erm") or case.get("usermf")) else t["eq_set"]
    return lambda a, b: (a, b) in s


def dmfun(case):
    t = tables()
    s = t["nrdmf_set"] if case.get("nrdmf") else t["dmf_set"]
    return lambda a, b: (a, b) in s


def grants(S, mf, a, b, maxedges):
    """b reachable from a within `maxedges` steps x -> r, (u, r) in S, x == u or x matches u"""
    if maxedges < 0:
        return False
    if a == b:
        return True
    dist = {a: 0}
    frontier = [a]
    while frontier:
        nxt = []
        for x in frontier:
            if dist[x] >= maxedges:
                continue
            for (u, r) in S:
                if (x == u or mf(x, u)) and r not in dist:
                    dist[r] = dist[x] + 1
                    if r == b:
                        return True
                    nxt.append(r)
        frontier = nxt
    return False


def scope_ok(mf, names, adds):
    """the Coq boolean in_scope: first-position patterns only, matching transitive towards users"""
    for x in names:
        for (u, r) in adds:
            if mf(x, r) and x != r:
                return False
    for x in names:
        for p in names:
            if mf(x, p):
                for (u, r) in adds:
                    if mf(p, u) and not mf(x, u):
                        return False
    return True


def spec_check(case, obs):
    """-> list of (op index, expected, what).  Evaluated while the history so far is in the property's
    scope: first-position patterns, transitive matching, no assignment added twice, domain matcher
    reflexive on the domains used, no rejected call.  Deletions are NOT guarded: the spec after a
    delete is simply the grants of what remains."""
    kind, ops = case["kind"], case["ops"]
    if not case.get("spec", True):
        return []
    L = L_DEFAULT if kind in ("erm", "edm") else case["L"]
    mf, dmf = mfun(case), dmfun(case)
    domained = kind in ("dm", "edm")
    force = []                      # assignments in force: (u, r, d)   (d = None for the plain manager)
    names, adds = set(), set()
    bad = []
    for i, op in enumerate(ops):
        c = op[0]
        if c in (CLEAR,):
            force = []
            continue
        if c in (DUMP, SETMF, SETDMF):
            continue
        doms = op[-1]
        if domained:
            if len(doms) > 1:
                return bad
            d = doms[0] if doms else 0
            if not dmf(d, d):
                return bad
        else:
            d = None
        if c in (ADD, DEL, HAS):
            names.update(op[1:3])
        else:
            names.add(op[1])
        if c == ADD:
            if (op[1], op[2], d) in force:
                return bad                       # double add: outside the quantifier from here on
            force.append((op[1], op[2], d))
            adds.add((op[1], op[2]))
        if not scope_ok(mf, names, adds):
            return bad
        if c == DEL:
            if (op[1], op[2], d) in force:
                force.remove((op[1], op[2], d))
                if obs[i][0] != 0:
                    bad.append((i, [0, []], "removing an assignment in force raised"))
                    return bad                   # the state after a failed delete is not spec'ed
            continue
        if c in (HAS, ROLES):
            S = [(u, r) for (u, r, dd) in force if (not domained) or dd == d or dmf(d, dd)]
            if c == HAS:
                exp = [0, int(grants(S, mf, op[1], op[2], L - 1))]
                what = "has_link differs from the grants of the assignments in force"
            else:
                exp = [0, sorted({r for (u, r) in S if u == op[1] or mf(op[1], u)})]
                what = "get_roles differs from the direct grants of the assignments in force"
            if obs[i] != exp:
                bad.append((i, exp, what))
    return bad


def f14_fingerprint(case, idx):
    """the listed finding: before the failing call, an assignment was deleted while ANOTHER assignment in
    force granted the same role to a name both reach (directly or through their patterns; for domains:
    both apply in a common domain)"""
    ops = case["ops"][:idx + 1]
    mf, dmf = mfun(case), dmfun(case)
    domained = case["kind"] in ("dm", "edm")
    # through the Enforcer every name of the case is a rule subject, hence known from the first enforce() on
    src = case["ops"] if case["kind"] in ("erm", "edm") else ops
    names = set(enforcer_names(src))
    doms = {(op[-1][0] if op[-1] else 0) for op in src if op[0] in (ADD, DEL, HAS, ROLES, USERS)} if domained else {None}
    force = []
    for op in ops:
        if op[0] == ADD:
            force.append((op[1], op[2], (op[3][0] if op[3] else 0) if domained else None))
        elif op[0] == DEL:
            l = (op[1], op[2], (op[3][0] if op[3] else 0) if domained else None)
            if l in force:
                force.remove(l)
                for (u2, r2, d2) in force:
                    if r2 != l[1]:
                        continue
                    for dq in doms:
                        if domained and not ((d2 == dq or dmf(dq, d2)) and (l[2] == dq or dmf(dq, l[2]))):
                            continue
                        for x in names:
                            if (x == l[0] or mf(x, l[0])) and (x == u2 or mf(x, u2)):
                                return True
    return False


def well_formed(case):
    """shrinking must not leave the generator's territory: no rejected arity, late registration intact"""
    late = case.get("late", 0)
    if late and (late > len(case["ops"]) or any(o[0] != ADD for o in case["ops"][:late])):
        return False
    return True


def shrink(case, idx):
    cur = dict(case, ops=case["ops"][:idx + 1])
    i = len(cur["ops"]) - 2
    while i >= 0:
        trial = dict(cur, ops=cur["ops"][:i] + cur["ops"][i + 1:])
        if trial.get("late", 0) and i < trial["late"]:
            trial["late"] -= 1
        try:
            b = spec_check(trial, run_impl(trial)) if well_formed(trial) else []
        except Exception:  # noqa
            b = []
        if b and b[-1][0] == len(trial["ops"]) - 1:
            cur = trial
        i -= 1
    return cur


# ---- generators ------------------------------------------------------------------------------
def closing_queries(names, roles, doms_list):
    return [[HAS, a, b, ds] for ds in doms_list for a in names for b in roles]


def gen_sequences(rng, kind, adds, queries, maxlen, closing, L=L_DEFAULT, stratum="exhaustive", **flags):
    """EVERY sequence of at most `maxlen` calls over: add l (l not in force), delete l (l in force),
    query q — each followed by the closing queries"""
    alphabet = [("a", l) for l in adds] + [("d", l) for l in adds] + [("q", q) for q in queries]

    def rec(prefix, force, n_ops):
        if prefix:
            yield list(prefix)
        if n_ops == maxlen:
            return
        for sym in alphabet:
            k, x = sym
            if k == "a":
                if x in force:
                    continue
                prefix.append([ADD, x[0], x[1], list(x[2])])
                yield from rec(prefix, force | {x}, n_ops + 1)
                prefix.pop()
            elif k == "d":
                if x not in force:
                    continue
                prefix.append([DEL, x[0], x[1], list(x[2])])
                yield from rec(prefix, force - {x}, n_ops + 1)
                prefix.pop()
            else:
                if prefix and prefix[-1] == x:
                    continue
                prefix.append(x)
                yield from rec(prefix, force, n_ops + 1)
                prefix.pop()
    for seq in rec([], frozenset(), 0):
        if not any(o[0] == ADD for o in seq):
            continue
        yield dict(kind=kind, L=L, ops=seq + closing, spec=True, stratum=stratum, **flags)


def exhaustive_strata(rng, maxlen):
    P1, P2, P3 = N["/book/:id"], N["/book/*"], N["/*/1"]
    C1, C2, C3 = N["/book/1"], N["/book/2"], N["/pen/1"]
    R1, R2 = N["book_group"], N["pen_group"]
    # (i) two patterns matching each other (and both matching C1, C2); (ii) two overlapping patterns that do not
    for tag, pa, pb in (("mutual", P1, P2), ("overlap", P1, P3)):
        adds = [(pa, R1, ()), (pb, R1, ()), (C1, R1, ()), (R1, R2, ())]
        queries = [[HAS, C1, R1, []], [HAS, C2, R2, []], [HAS, C3, R1, []]]
        closing = closing_queries([C1, C2, C3, pa, pb, N["alice"]], [R1, R2], [[]]) + [[ROLES, C1, []], [ROLES, C3, []]]
        yield from gen_sequences(rng, "rm", adds, queries, maxlen, closing, stratum=f"exhaustive-rm-{tag}")
    # domains: an assignment recorded for d1, d2, the pattern * and the pattern d*
    A, B, Rt = N["alice"], N["admin"], N["book_group"]
    adds = [(A, B, (D["d1"],)), (A, B, (D["*"],)), (A, B, (D["d*"],)), (B, Rt, (D["d2"],))]
    # (the pattern domain itself is also queried literally: it then has a cached manager of its own)
    queries = [[HAS, A, B, [D["d1"]]], [HAS, A, Rt, [D["d2"]]], [HAS, A, B, [D["e1"]]], [HAS, A, B, [D["*"]]]]
    closing = [[HAS, a, b, [d]] for d in (D["d1"], D["d2"], D["e1"]) for a in (A, B) for b in (B, Rt)]
    yield from gen_sequences(rng, "dm", adds, queries, maxlen, closing, stratum="exhaustive-dm")


def gen_random(rng, count, kinds, tie_only=False):
    """longer random histories.  In-scope ones use first-position patterns only; the tie-only ones add
    second-position patterns, a name breaking transitivity, repeated adds, clear(), re-registration of
    the matching functions, a non-reflexive domain matcher and dumps of the internal state."""
    pats = [N["/book/:id"], N["/book/*"], N["/*/1"], N["/pen/:id"]]
    conc = [N["/book/1"], N["/book/2"], N["/pen/1"], N["alice"], N["bob"]]
    roles = [N["book_group"], N["pen_group"], N["admin"]]
    for _ in range(count):
        kind = rng.choice(kinds)
        domained = kind in ("dm", "edm")
        usermf = domained and rng.random() < 0.5
        flags = dict(usermf=usermf)
        if tie_only and domained and kind == "dm" and rng.random() < 0.2:
            flags["nrdmf"] = True
        users = rng.sample(pats, rng.randint(1, 3)) + rng.sample(conc, rng.randint(1, 4))
        if domained and not usermf:
            users = rng.sample(conc, rng.randint(2, 4)) + [N["admin"]]
        rls = list(roles)
        qnames = users + conc[:3]
        if tie_only:
            qnames = qnames + [N["/book/1/2"]] + pats
            rls = rls + rng.sample(pats, 1)           # second-position patterns
        domsets = [[D["d1"]], [D["d2"]], [D["*"]], [D["d*"]]] if domained else [[]]
        qdoms = [[D["d1"]], [D["d2"]], [D["e1"]]] if domained else [[]]
        if domained and rng.random() < 0.4:
            qdoms = qdoms + [[D["*"]]] + ([[D["d*"]]] if rng.random() < 0.5 else [])   # pattern domains queried literally
        if kind == "dm" and tie_only:
            domsets += [[], [D["d1"], D["d2"]]]
        force, ops = [], []
        for _ in range(rng.randint(6, 30)):
            x = rng.random()
            ds = rng.choice(domsets)
            if x < 0.38:
                l = (rng.choice(users + ([rng.choice(rls)] if rng.random() < 0.3 else [])), rng.choice(rls), tuple(ds))
                if l[0] == l[1] and not tie_only:
                    continue
                if l in force and not tie_only:
                    continue
                force.append(l)
                ops.append([ADD, l[0], l[1], list(ds)])
            elif x < 0.55:
                if force and (rng.random() < 0.9 or kind[0] == "e" or not tie_only):
                    l = rng.choice(force)
                    force.remove(l)
                    ops.append([DEL, l[0], l[1], list(l[2])])
                elif tie_only and kind[0] != "e":
                    ops.append([DEL, rng.choice(users), rng.choice(rls), list(ds)])
            elif x < 0.85:
                ops.append([HAS, rng.choice(qnames), rng.choice(rls), rng.choice(qdoms)])
            elif x < 0.92:
                ops.append([ROLES, rng.choice(qnames), rng.choice(qdoms)])
            elif tie_only and kind[0] != "e":
                ops.append(rng.choice([[USERS, rng.choice(rls), rng.choice(qdoms)], [CLEAR], [SETMF], [SETDMF], [DUMP], [DUMP]]))
                if ops[-1] == [CLEAR]:
                    force = []
        for ds in qdoms:
            for _ in range(5):
                ops.append([HAS, rng.choice(qnames), rng.choice(rls), ds])
        if tie_only and kind[0] != "e":
            ops.append([DUMP])
        late = 0
        if kind[0] == "e" and rng.random() < 0.4:
            late = next((i for i, o in enumerate(ops) if o[0] != ADD), len(ops))
        yield dict(kind=kind, L=rng.choice([2, 3, 10]) if kind[0] != "e" else L_DEFAULT, ops=ops, spec=not tie_only,
                   stratum="tie-only (out of scope)" if tie_only else "random", late=late, **flags)


# ---- driver ----------------------------------------------------------------------------------
def digest(case):
    return hashlib.blake2b(repr((case["kind"], case["L"], case.get("usermf"), case.get("late"), case["ops"])).encode(),
                           digest_size=8).digest()


def process(chk, cases, state):
    if not cases:
        return
    impl = [run_impl(c) for c in cases]
    reqs = [model_request(c) for c in cases]
    replies = chk.oracle.query(reqs) if chk.oracle is not None else [None] * len(cases)
    for c, obs, req, rep in zip(cases, impl, reqs, replies):
        nq = sum(1 for o in c["ops"] if o[0] in (HAS, ROLES, USERS))
        nontriv = any(o[0] == ADD for o in c["ops"]) and any(o[0] == HAS and o[1] != o[2] for o in c["ops"])
        chk.count(digest(c) if nontriv else None, n=max(nq, 1))
        state["strata"][c["stratum"]] = state["strata"].get(c["stratum"], 0) + 1
        state["kinds"][c["kind"]] = state["kinds"].get(c["kind"], 0) + 1
        chk.traces += 1
        state["n"] += 1
        if state["n"] % 1999 == 1:
            chk.sample(dict(case=dict(c, ops=c["ops"][:10] + (["..."] if len(c["ops"]) > 10 else [])), impl=obs[:10]))
        mod = canon_model(c, rep) if rep is not None else None
        agrees = mod is not None and obs == mod
        bad = spec_check(c, obs)
        if bad:
            i0 = bad[0][0]
            if agrees and f14_fingerprint(c, i0):
                state["f14"] += 1
                if FINDING not in chk.known_hits:
                    small = shrink(c, i0)
                    so = run_impl(small)
                    sb = spec_check(small, so)
                    rec = (small, so, sb[-1]) if sb and f14_fingerprint(small, sb[-1][0]) else (c, obs, bad[0])
                    chk.spec_fail(rec[0], rec[1], dict(op_index=rec[2][0], expected=rec[2][1]), rec[2][2], finding=FINDING)
                continue
            if len(chk.spec_failures) < 3:
                small = shrink(c, i0)
                so = run_impl(small)
                sb = spec_check(small, so)
                if sb:
                    c, obs, bad = small, so, [sb[-1]]
            chk.spec_fail(c, obs, dict(op_index=bad[0][0], expected=bad[0][1]),
                          bad[0][2] + ("" if agrees else " (and the implementation differs from the model)"))
            continue
        if mod is None:
            continue
        if not agrees:
            k = next((i for i, (x, y) in enumerate(zip(obs, mod)) if x != y), min(len(obs), len(mod)))
            chk.disagree(c, obs, mod, where=f"{c['kind']} history, stratum {c['stratum']}, first difference at call {k}: "
                                            f"{c['ops'][k] if k < len(c['ops']) else '?'}")
        elif len(state["vm"]) < state["vm_cap"] and len(c["ops"]) <= 40 and state["n"] % state["vm_every"] == 0:
            state["vm"].append((req, rep))


def spec_tie(chk, rng, count):
    """Python grants() against the Coq spec function greach (C14_spec_function_sound)"""
    if chk.oracle is None:
        return
    t = tables()
    mf = lambda a, b: (a, b) in t["mf_set"]
    users = [N[x] for x in ("/book/:id", "/book/*", "/*/1", "/book/1", "alice", "book_group")]
    roles = [N[x] for x in ("book_group", "pen_group", "admin")]
    qn = [N[x] for x in ("/book/1", "/book/2", "/pen/1", "/book/:id", "alice", "/book/1/2")]
    reqs, want = [], []
    for _ in range(count):
        S = [(rng.choice(users), rng.choice(roles)) for _ in range(rng.randint(0, 5))]
        for k in range(0, 4):
            a, b = rng.choice(qn), rng.choice(roles + qn[:1])
            reqs.append((3, [t["mf"], [list(l) for l in S], k, a, b]))
            want.append(int(grants(S, mf, a, b, k)))
    got = chk.oracle.query(reqs)
    for r, w, g in zip(reqs, want, got):
        chk.count(None)
        if w != g:
            chk.disagree(dict(kind="python-spec-vs-coq-spec", request=r[1][1:]), w, g, where="grants() vs greach")
            break
    chk.extra["spec_tie_cases"] = len(reqs)


def listed_finding_case(chk):
    for f in chk.findings:
        if f.get("id") == FINDING and f.get("status") == "known":
            return f["replay"]
    return None


# ---- concurrent first queries -------------------------------------------------------------------
CONC_SETUPS = [
    # (manager kind, links, [query of thread 0, query of thread 1])
    ("rm", [("/book/:id", "book_group"), ("book_group", "readers")], [("/book/77", "readers"), ("/book/77", "book_group")]),
    ("rm", [("/book/:id", "book_group"), ("/book/*", "pen_group")], [("/book/1", "book_group"), ("/book/1", "pen_group")]),
    ("rm", [("/book/:id", "book_group"), ("/book/1", "archive")], [("/book/1", "book_group"), ("/book/2", "book_group")]),
    ("rm", [("/book/:id", "book_group")], [("/pen/1", "book_group"), ("/book/9", "book_group")]),
    ("dm", [("alice", "admin", "*"), ("admin", "root", "d1")], [("alice", "root", "d1"), ("alice", "admin", "d1")]),
    ("dm", [("alice", "admin", "d*"), ("bob", "admin", "d1")], [("alice", "admin", "d1"), ("bob", "admin", "d2")]),
]


def _conc_make(kind, links):
    from casbin.rbac import default_role_manager
    from casbin.util import key_match2_func, key_match_func
    if kind == "rm":
        rm = default_role_manager.RoleManager(10)
        rm.add_matching_func(key_match2_func)
    else:
        rm = default_role_manager.DomainManager(10)
        rm.add_domain_matching_func(key_match_func)
    for l in links:
        rm.add_link(*l)
    return rm


def conc_run(setup, choose, lines):
    from .. import sched
    kind, links, queries = setup
    rm = _conc_make(kind, links)
    out = {}

    def body(tid):
        with sched.preemptible(lambda fn: "/casbin/" in fn, lines=lines):
            try:
                out[tid] = bool(rm.has_link(*queries[tid]))
            except Exception as ex:  # noqa
                out[tid] = "raise:" + type(ex).__name__
    res = sched.Controller().run([body, body], choose)
    res.out = [out.get(0), out.get(1)]
    return res


def stratum_concurrent(chk, lines):
    """two threads issue the FIRST queries about never-seen names concurrently (what two readers inside the same
    SyncedEnforcer read section do): for every schedule with one preemption at function-call (thorough: source-line)
    granularity inside casbin/, each query must answer what it answers alone - 'whatever the order in which names
    were first queried'.  SPEC only; the replay is the schedule."""
    from .. import sched
    n = 0
    with sched.pinned_cpu():
        for si, setup in enumerate(CONC_SETUPS):
            rm = _conc_make(setup[0], setup[1])
            want = [bool(rm.has_link(*q)) for q in setup[2]]
            reported = False
            for a, k, res in sched.one_preemption_schedules(lambda ch: conc_run(setup, ch, lines)):
                n += 1
                chk.count(("concurrent", si, a, k))
                if (res.status != "ok" or res.out != want) and not reported:
                    reported = True
                    chk.spec_fail(dict(stratum="concurrent-first-queries", setup=si, manager=setup[0], links=setup[1],
                                       queries=setup[2], granularity="line" if lines else "call", schedule=res.schedule),
                                  dict(status=res.status, answers=res.out, errors=[str(e) for e in res.errors]), want,
                                  "two concurrent first queries: an answer differs from the answer of the query alone")
    chk.extra.setdefault("strata", {})
    chk.extra["concurrent_first_query_schedules"] = n


def stratum_function_replaced(chk, rng, n):
    """the matching function of a role manager is REPLACED (add_matching_func again, add_named_matching_func on an
    Enforcer, a filtered reload that re-creates the managers): afterwards every answer must be that of a manager that
    had the new function and the same assignments from the start.  SPEC = differential against a fresh manager."""
    from casbin.rbac import default_role_manager
    from casbin.util import key_match2_func, key_match3_func, key_match_func
    funcs = [("key_match2", key_match2_func), ("key_match3", key_match3_func), ("key_match", key_match_func)]
    pats = ["/book/:id", "/book/{id}", "/book/*", "/pen/:id"]
    conc = ["/book/1", "/book/2", "/pen/1", "alice"]
    roles = ["book_group", "pen_group", "admin"]
    cnt = 0
    for _ in range(n):
        (n1, f1), (n2, f2) = rng.sample(funcs, 2)
        links, seen = [], set()
        for _k in range(rng.randint(1, 5)):
            l = (rng.choice(pats + conc[:2]), rng.choice(roles))
            if l not in seen:
                seen.add(l)
                links.append(l)
        early = [(rng.choice(conc), rng.choice(roles)) for _k in range(rng.randint(0, 4))]
        late = [(c, r) for c in conc for r in roles]
        rm = default_role_manager.RoleManager(10)
        rm.add_matching_func(f1)
        for l in links:
            rm.add_link(*l)
        for q in early:
            rm.has_link(*q)                       # names first seen (and memoised) under the OLD function
        rm.add_matching_func(f2)
        got = [bool(rm.has_link(*q)) for q in late]
        fresh = default_role_manager.RoleManager(10)
        fresh.add_matching_func(f2)
        for l in links:
            fresh.add_link(*l)
        want = [bool(fresh.has_link(*q)) for q in late]
        cnt += 1
        chk.count(("function-replaced", n1, n2, repr(links), repr(early)))
        if got != want:
            bad = [(q, g, w) for q, g, w in zip(late, got, want) if g != w][:3]
            chk.spec_fail(dict(stratum="matching-function-replaced", first=n1, then=n2, links=links, queried_before_the_switch=early),
                          dict(differences=[dict(query=list(q), answer=g, fresh_manager=w) for q, g, w in bad]), "the fresh manager's answers",
                          "after the matching function was replaced an answer differs from a manager that had the new function from the start")
            break
    chk.extra["function_replaced_cases"] = cnt


def stratum_enforcer_reload_keeps_function(chk):
    """a matching function registered through the Enforcer must survive every kind of reload: load_policy,
    load_filtered_policy (which re-initialises the role managers), build_role_links"""
    import casbin
    from casbin.persist.adapters import FilteredFileAdapter
    from casbin.persist.adapters.filtered_file_adapter import Filter
    from casbin.util import key_match2_func
    import os
    import tempfile
    model = ("[request_definition]\nr = sub, obj, act\n[policy_definition]\np = sub, obj, act\n[role_definition]\ng = _, _\ng2 = _, _\n"
             "[policy_effect]\ne = some(where (p.eft == allow))\n[matchers]\nm = g(r.sub, p.sub) && g2(r.obj, p.obj) && r.act == p.act\n")
    text = "p, alice, book_group, GET\np, bob, pen_group, GET\ng2, /book/:id, book_group\ng2, /pen/:id, pen_group\n"
    reqs = [("alice", "/book/1", "GET"), ("alice", "/pen/1", "GET"), ("bob", "/pen/7", "GET"), ("bob", "/book/7", "GET")]
    want = [True, False, True, False]
    n = 0
    with tempfile.TemporaryDirectory(prefix="c14_") as d:
        path = os.path.join(d, "policy.csv")
        with open(path, "w") as f:
            f.write(text)
        for steps in (["load_policy"], ["load_filtered_policy"], ["load_filtered_policy", "load_policy"], ["build_role_links"],
                      ["load_policy", "load_filtered_policy"]):
            e = casbin.Enforcer(casbin.Enforcer.new_model(text=model), FilteredFileAdapter(path))
            e.load_policy()
            e.add_named_matching_func("g2", key_match2_func)
            for st in steps:
                if st == "load_filtered_policy":
                    flt = Filter()
                    flt.P, flt.G = [], []           # g2 lines are never filtered; an all-blank filter loads everything
                    flt.P = ["", "", "GET"]
                    e.load_filtered_policy(flt)
                else:
                    getattr(e, st)()
            got = [bool(e.enforce(*r)) for r in reqs]
            n += 1
            chk.count(("enforcer-reload-keeps-function", tuple(steps)))
            if got != want:
                chk.spec_fail(dict(stratum="enforcer-reload-keeps-function", model=model, policy=text, steps_after_registration=steps),
                              dict(decisions=dict(zip(map(str, reqs), got))), dict(zip(map(str, reqs), want)),
                              "after a reload the registered matching function is no longer applied to the pattern assignments")
    chk.extra["enforcer_reload_cases"] = n


# ---- a reload that fails on an Enforcer with a matching function -----------------------------------
FR_PATS = ["/book/:id", "/book/*", "/pen/:id", "/book/1", "/pen/1"]
FR_CONC = ["/book/1", "/book/2", "/pen/1", "/pen/2", "alice"]
FR_ROLES = ["book_group", "pen_group", "admin"]


def failed_reload_execute(c):
    """c: kept = pattern assignments (g2) in force, loaded from the adapter; queried_before = names asked about before the
    reload; offered = the g2 lines of the source the reload reads (one of them may be too short for the role definition:
    link building then fails after the lines before it were linked), fail_at = the adapter raises after that many rows.
    Whatever the reload did - succeed, or raise and keep the old policy - afterwards every concrete name holds exactly the
    roles that the assignments THE ENFORCER NOW REPORTS give it: SPEC = a fresh RoleManager with the same matching function
    fed those assignments.  -> None or (what, details)"""
    import casbin
    from casbin.model import Model
    from casbin.rbac import default_role_manager
    from casbin.util import key_match2_func
    from ..mgmt import RecAdapter
    m = Model()
    m.load_model_from_text(ERM_TEXT)
    prow = [("p", ["u", r, "act_" + r]) for r in FR_ROLES]
    ad = RecAdapter(prow + [("g2", list(l)) for l in c["kept"]])
    e = casbin.Enforcer(m)
    e.set_adapter(ad)
    if not c.get("late"):
        e.add_named_matching_func("g2", key_match2_func)
    e.load_policy()
    if c.get("late"):
        e.add_named_matching_func("g2", key_match2_func)
    for x, r in c["queried_before"]:
        e.enforce("u", x, "act_" + r)
    ad.rows = prow + [("g2", list(l)) for l in c["offered"]]
    ad.fail_at = c.get("fail_at")
    raised = None
    try:
        e.load_policy()
    except Exception as exc:  # noqa
        raised = type(exc).__name__
    ad.fail_at = None
    force = [list(l) for l in e.get_named_grouping_policy("g2")]
    fresh = default_role_manager.RoleManager(10)
    fresh.add_matching_func(key_match2_func)
    try:
        for l in force:
            fresh.add_link(*l[:2])
    except Exception:  # noqa
        return None                                 # the policy in force itself is unusable (a too-short line was accepted)
    qs = [(x, r) for x in FR_CONC for r in FR_ROLES]
    got = [bool(e.enforce("u", x, "act_" + r)) for x, r in qs]
    want = [bool(fresh.has_link(x, r)) for x, r in qs]
    if got != want:
        bad = [dict(name=x, role=r, enforcer=g, assignments_in_force_give=w) for (x, r), g, w in zip(qs, got, want) if g != w]
        return ("after a reload that " + ("raised" if raised else "succeeded") + " a name holds / lacks a role against the pattern "
                "assignments in force", dict(reload_raised=raised, assignments_in_force=force, differences=bad[:4]))
    return None


def stratum_enforcer_failed_reload(chk, rng, n, seed_cases=()):
    cnt = 0
    reported = 0
    cases = list(seed_cases)
    for _ in range(n):
        def links(k):
            out = []
            for _k in range(k):
                l = [rng.choice(FR_PATS), rng.choice(FR_ROLES)]
                if l not in out:
                    out.append(l)
            return out
        kept, offered = links(rng.randint(0, 4)), links(rng.randint(1, 5))
        mode = rng.choice(["short-line", "short-line", "adapter-fails", "succeeds"])
        c = dict(stratum="enforcer-failed-reload", kept=kept, offered=offered, late=rng.random() < 0.3, mode=mode,
                 queried_before=[[rng.choice(FR_CONC), rng.choice(FR_ROLES)] for _k in range(rng.randint(0, 4))], fail_at=None)
        if mode == "short-line":
            offered.insert(rng.randint(0, len(offered)), [rng.choice(FR_PATS)])
        elif mode == "adapter-fails":
            c["fail_at"] = rng.randint(0, len(FR_ROLES) + len(offered))
        cases.append(c)
    for c in cases:
        bad = failed_reload_execute(c)
        cnt += 1
        chk.count(("enforcer-failed-reload", repr(c["kept"]), repr(c["offered"]), c.get("fail_at"), c.get("late"), repr(c["queried_before"])))
        if bad and reported < 2:
            # shrink: drop assignments / earlier queries while the same complaint remains
            changed = True
            while changed:
                changed = False
                for key in ("kept", "offered", "queried_before"):
                    for i in range(len(c[key]) - 1, -1, -1):
                        if key == "offered" and len(c[key][i]) < 2:
                            continue
                        cand = dict(c, **{key: c[key][:i] + c[key][i + 1:]})
                        try:
                            b2 = failed_reload_execute(cand)
                        except Exception:  # noqa
                            b2 = None
                        if b2 and b2[0] == bad[0]:
                            c, bad, changed = cand, b2, True
            reported += 1
            chk.spec_fail(c, bad[1], "a fresh role manager with the same matching function and the assignments in force", bad[0])
    chk.extra["enforcer_failed_reload_cases"] = chk.extra.get("enforcer_failed_reload_cases", 0) + cnt


# ---- configuration events after first use ---------------------------------------------------------
# The matching function of a role definition registered LATE (after assignments and after names were queried),
# registered a SECOND time, REPLACED by another one, removed again (None); the role manager itself replaced
# (set_named_role_manager + build_role_links) after the first decision; rebuilds and reloads - anywhere in a history
# of pattern assignments added, removed and queried through the Enforcer.  SPEC (the property's own sentence): at
# every query, a name holds a role iff the assignments in force (as the enforcer reports them) grant it under the
# matching function in force - `grants`, with "the function raised on this pair" counting as "no match"
# (match_error_handler).  Observed: decisions and has_link only (listings depend on which names were asked about).
CFG_FUNCS = ["none", "key_match", "key_match2", "key_match3", "regex_match", "glob_match"]
CFG_PATS = ["/book/:id", "/book/{id}", "/book/*", "/pen/:id"]
CFG_CONC = ["/book/1", "/book/2", "/pen/1", "alice"]
CFG_ODD = ["+pen", "?book"]         # stored names on which the regex-compiling matching functions RAISE when tried as a pattern
CFG_ROLES = ["book_group", "pen_group", "admin"]
CFG_USERS_DOM = ["alice", "bob", "carol"]
CFG_ADOMS = ["d1", "d2", "*", "d*"]
CFG_QDOMS = ["d1", "d2", "e1"]      # domains in which requests are made: every pool function says they match themselves
CFG_DFUNCS = ["none", "key_match", "regex_match", "glob_match"]
_CFG_MF = {}


def cfg_fn(name):
    from casbin import util
    return None if name == "none" else getattr(util, name)


def cfg_mf(name):
    """the matching function as the SPEC sees it: a boolean relation, an exception = no match, none = nothing matches"""
    if name not in _CFG_MF:
        f, memo = cfg_fn(name), {}

        def mf(a, b, f=f, memo=memo):
            if f is None:
                return False
            if (a, b) not in memo:
                memo[(a, b)] = _safe(f, a, b)
            return memo[(a, b)]
        _CFG_MF[name] = mf
    return _CFG_MF[name]


def cfg_overlap(pool, names, doms, l, l2):
    """two assignments of the SAME role that some name (in some domain) could hold through both - under any function of
    the pool: deleting one of them is the listed finding, so the generator never has both in force"""
    if l[1] != l2[1]:
        return False
    if len(l) > 2:
        dfs = [cfg_mf(f) for f in pool]
        if not any((dq == l[2] or any(f(dq, l[2]) for f in dfs)) and (dq == l2[2] or any(f(dq, l2[2]) for f in dfs)) for dq in doms):
            return False
        return l[0] == l2[0]
    fs = [cfg_mf(f) for f in pool]
    return any((x == l[0] or any(f(x, l[0]) for f in fs)) and (x == l2[0] or any(f(x, l2[0]) for f in fs)) for x in names)


def cfg_execute(c, upto=None):
    """-> (observations, violations [(op index, expected, what)]); stops at the first violation"""
    import casbin
    from casbin.model import Model
    from casbin.rbac import default_role_manager as drm
    from ..mgmt import RecAdapter
    dom = c["kind"] == "cfg-edm"
    pt = "g" if dom else c.get("pt", "g2")
    roles = c["roles"]
    m = Model()
    m.load_model_from_text(EDM_TEXT if dom else ERM_TEXT)
    if dom:
        prow = [("p", [r, d, "o_" + r, "read"]) for r in roles for d in CFG_QDOMS]
    elif pt == "g2":
        prow = [("p", ["u", r, "act_" + r]) for r in roles]
    else:
        prow = [("p", [r, "obj", "act_" + r]) for r in roles]
    ad = RecAdapter(prow + [(pt, list(l)) for l in c.get("initial", [])])
    e = casbin.Enforcer(m)
    e.set_adapter(ad)
    cur = dict(mf=c.get("mf0", "none"), dmf=c.get("dmf0", "none"))
    if cur["mf"] != "none":
        e.add_named_matching_func(pt, cfg_fn(cur["mf"]))
    if cur["dmf"] != "none":
        e.add_named_domain_matching_func(pt, cfg_fn(cur["dmf"]))
    e.load_policy()
    obs, bad = [], []
    ops = c["ops"] if upto is None else c["ops"][:upto]
    for i, op in enumerate(ops):
        k = op[0]
        try:
            if k == "add":
                obs.append([0, int(bool(e.add_named_grouping_policy(pt, *op[1:])))])
            elif k == "del":
                inforce = list(op[1:]) in [list(x) for x in e.get_named_grouping_policy(pt)]
                try:
                    obs.append([0, int(bool(e.remove_named_grouping_policy(pt, *op[1:])))])
                except Exception as exc:  # noqa
                    obs.append([999, classify_exception(exc)])
                    if inforce:
                        bad.append((i, [0, 1], "removing an assignment in force raised"))
                    return obs, bad
            elif k in ("enforce", "has"):
                x, r = op[1], op[2]
                d = op[3] if dom else None
                force = [tuple(l) for l in e.get_named_grouping_policy(pt)]
                if k == "has":
                    got = e.get_named_role_manager(pt).has_link(x, r, *([d] if dom else []))
                elif dom:
                    got = e.enforce(x, d, "o_" + r, "read")
                elif pt == "g2":
                    got = e.enforce("u", x, "act_" + r)
                else:
                    got = e.enforce(x, "obj", "act_" + r)
                obs.append([0, int(bool(got))])
                if dom:
                    dmf = cfg_mf(cur["dmf"])
                    S = [(l[0], l[1]) for l in force if len(l) == 3 and (l[2] == d or dmf(d, l[2]))]
                else:
                    S = [(l[0], l[1]) for l in force if len(l) == 2]
                exp = [0, int(grants(S, cfg_mf(cur["mf"]), x, r, L_DEFAULT - 1))]
                if obs[-1] != exp:
                    bad.append((i, exp, ("the decision" if k == "enforce" else "has_link") + " differs from the grants of the assignments in "
                                        "force under the matching function in force (configured after first use)"))
                    return obs, bad
            elif k == "setmf":
                e.add_named_matching_func(pt, cfg_fn(op[1]))
                cur["mf"] = op[1]
                obs.append([0, []])
            elif k == "setdmf":
                e.add_named_domain_matching_func(pt, cfg_fn(op[1]))
                cur["dmf"] = op[1]
                obs.append([0, []])
            elif k == "swaprm":
                rm = drm.DomainManager(L_DEFAULT) if dom else drm.RoleManager(L_DEFAULT)
                if op[1] != "none":
                    rm.add_matching_func(cfg_fn(op[1]))
                if dom and op[2] != "none":
                    rm.add_domain_matching_func(cfg_fn(op[2]))
                e.set_named_role_manager(pt, rm)
                e.build_role_links()
                cur["mf"] = op[1]
                if dom:
                    cur["dmf"] = op[2]
                obs.append([0, []])
            elif k == "build":
                e.build_role_links()
                obs.append([0, []])
            elif k == "reload":
                e.load_policy()
                obs.append([0, []])
            else:
                obs.append([998])
        except Exception as exc:  # noqa
            obs.append([999, classify_exception(exc)])
            if k in ("enforce", "has"):
                bad.append((i, "an answer", "a query raised"))
            return obs, bad
    return obs, bad


def cfg_f14(c, idx):
    """the listed finding's fingerprint on this stratum's histories (never generated; kept for shrunk cases)"""
    dom = c["kind"] == "cfg-edm"
    pool = c["dpool"] if dom else c["pool"]
    names = set(c["names"]) | set(c["roles"])
    force = [tuple(l) for l in c.get("initial", [])]
    for op in c["ops"][:idx + 1]:
        if op[0] == "add" and tuple(op[1:]) not in force:
            force.append(tuple(op[1:]))
        elif op[0] == "del" and tuple(op[1:]) in force:
            force.remove(tuple(op[1:]))
            if any(cfg_overlap(pool, names, CFG_QDOMS, tuple(op[1:]), l2) for l2 in force):
                return True
    return False


def cfg_cases(rng, n):
    for _ in range(n):
        dom = rng.random() < 0.3
        roles = list(CFG_ROLES)
        if dom:
            dpool = ["none"] + rng.sample(CFG_DFUNCS[1:], rng.randint(1, 2))
            pool = ["none"]
            users = list(CFG_USERS_DOM)
            names = users
            qnames = users + roles[:1]
            c = dict(kind="cfg-edm", dpool=dpool, dmf0=rng.choice(dpool) if rng.random() < 0.5 else "none")
        else:
            while True:
                pool = ["none"] + rng.sample(CFG_FUNCS[1:], rng.randint(1, 3))
                pats = rng.sample(CFG_PATS, rng.randint(1, 3))
                conc = rng.sample(CFG_CONC, rng.randint(2, 4))
                odd = rng.sample(CFG_ODD, rng.choice([0, 0, 1, 1, 2]))
                names = pats + conc + odd
                users = pats + conc[:2] + odd
                alln = set(names) | set(roles)
                adds = {(u, r) for u in users + roles for r in roles if u != r}
                if all(scope_ok(cfg_mf(f), alln, adds) for f in pool):
                    break
            qnames = conc + odd + pats[:1] + roles[:1]
            c = dict(kind="cfg-erm", pt=rng.choice(["g2", "g2", "g"]), pool=pool, mf0=rng.choice(pool) if rng.random() < 0.5 else "none")
        alln = set(names) | set(roles)
        force = []

        def new_link():
            for _t in range(6):
                u = rng.choice(users + ([rng.choice(roles)] if rng.random() < 0.25 else []))
                r = rng.choice(roles)
                l = (u, r, rng.choice(CFG_ADOMS)) if dom else (u, r)
                if u == r or l in force:
                    continue
                if any(cfg_overlap(dpool if dom else pool, alln, CFG_QDOMS, l, l2) for l2 in force):
                    continue
                return l
            return None

        initial = []
        for _k in range(rng.randint(0, 3)):
            l = new_link()
            if l:
                force.append(l)
                initial.append(list(l))
        ops = []

        def query():
            q = [rng.choice(["enforce", "enforce", "has"]), rng.choice(qnames), rng.choice(roles)]
            return q + ([rng.choice(CFG_QDOMS)] if dom else [])

        for _k in range(rng.randint(6, 26)):
            x = rng.random()
            if x < 0.28:
                l = new_link()
                if l:
                    force.append(l)
                    ops.append(["add"] + list(l))
            elif x < 0.43:
                if force:
                    l = rng.choice(force)
                    force.remove(l)
                    ops.append(["del"] + list(l))
            elif x < 0.73:
                ops.append(query())
            elif x < 0.87:
                ops.append(["setdmf", rng.choice(dpool)] if dom else ["setmf", rng.choice(pool)])
            elif x < 0.94:
                ops.append(["swaprm", "none", rng.choice(dpool)] if dom else ["swaprm", rng.choice(pool)])
            else:
                ops.append([rng.choice(["build", "reload"])])
        for xn in qnames:
            for r in roles:
                for d in (CFG_QDOMS if dom else [None]):
                    if rng.random() < (0.5 if dom else 0.8):
                        ops.append(["enforce", xn, r] + ([d] if dom else []))
        yield dict(c, stratum="config-events", names=names, roles=roles, initial=initial, ops=ops)


def cfg_shrink(c, idx):
    cur = dict(c, ops=c["ops"][:idx + 1])
    for key in ("ops", "initial"):
        i = len(cur[key]) - (2 if key == "ops" else 1)
        while i >= 0:
            trial = dict(cur, **{key: cur[key][:i] + cur[key][i + 1:]})
            try:
                _, b = cfg_execute(trial)
            except Exception:  # noqa
                b = []
            if b and b[-1][0] == len(trial["ops"]) - 1:
                cur = trial
            i -= 1
    return cur


def stratum_config_events(chk, rng, n):
    cnt = reported = 0
    per = {}
    for c in cfg_cases(rng, n):
        obs, bad = cfg_execute(c)
        cnt += 1
        per[c["kind"]] = per.get(c["kind"], 0) + 1
        events = [o for o in c["ops"] if o[0] in ("setmf", "setdmf", "swaprm", "build", "reload")]
        nontriv = events and any(o[0] == "add" for o in c["ops"]) or c["initial"]
        chk.count(("config-events", c["kind"], repr(c["initial"]), repr(c["ops"])) if nontriv else None,
                  n=max(1, sum(1 for o in c["ops"] if o[0] in ("enforce", "has"))))
        chk.traces += 1
        if cnt % 97 == 1:
            chk.sample(dict(case=dict(c, ops=c["ops"][:12] + ["..."]), impl=obs[:12]))
        if bad and reported < 2:
            small = cfg_shrink(c, bad[0][0])
            so, sb = cfg_execute(small)
            if sb:
                c, obs, bad = small, so, sb
            reported += 1
            chk.spec_fail(c, obs, dict(op_index=bad[0][0], expected=bad[0][1]), bad[0][2],
                          finding=FINDING if cfg_f14(c, bad[0][0]) else None)
    chk.extra["config_events_cases"] = dict(per, total=chk.extra.get("config_events_cases", {}).get("total", 0) + cnt)


def run(chk, tier):
    rng = chk.rng
    thorough = tier == "thorough"
    state = dict(strata={}, kinds={}, n=0, vm=[], vm_cap=1000 if thorough else 150, vm_every=211 if thorough else 61, f14=0)

    def feed(gen, batch=3000):
        buf = []
        for c in gen:
            buf.append(c)
            if len(buf) >= batch:
                process(chk, buf, state)
                buf = []
        process(chk, buf, state)

    # the listed finding is replayed on every run
    lf = listed_finding_case(chk)
    if lf is not None:
        case = dict(lf, stratum="listed finding")
        before = state["f14"]
        process(chk, [case], state)
        chk.extra["listed_finding_reproduced"] = state["f14"] > before
    feed(exhaustive_strata(rng, 6 if thorough else 5))
    feed(gen_random(rng, 20000 if thorough else 2500, ["rm", "rm", "dm", "dm"]))
    feed(gen_random(rng, 4000 if thorough else 500, ["erm", "edm"]))
    feed(gen_random(rng, 15000 if thorough else 2000, ["rm", "dm", "dm"], tie_only=True))
    spec_tie(chk, rng, 3000 if thorough else 500)
    stratum_concurrent(chk, lines=thorough)
    stratum_function_replaced(chk, rng, 3000 if thorough else 300)
    stratum_enforcer_reload_keeps_function(chk)
    stratum_enforcer_failed_reload(chk, rng, 6000 if thorough else 600)
    stratum_config_events(chk, rng, 6000 if thorough else 700)
    chk.exhaustive = True
    chk.extra["strata"] = dict(state["strata"], enforcer_failed_reload=chk.extra.get("enforcer_failed_reload_cases", 0),
                               config_events=chk.extra.get("config_events_cases", {}).get("total", 0))
    chk.extra["histories_per_manager"] = state["kinds"]
    chk.extra["histories_showing_the_listed_finding"] = state["f14"]
    chk.rule += ("; concurrent stratum: two threads issuing first queries about never-seen names on one RoleManager / "
                 "DomainManager with matching functions, every one-preemption schedule at call (thorough: line) granularity"
                 "; reload stratum: an Enforcer with key_match2 on g2 and 0-4 pattern assignments in force reloads from a source "
                 "offering 1-5 other assignments - cleanly, with a too-short line at a random position (link building fails half-way), "
                 "or with the adapter raising after k rows - names queried before or not; afterwards every (name, role) answer is "
                 "compared with a fresh manager holding the assignments the enforcer reports")
    chk.extra["exhaustive_scope"] = (f"every sequence of <= {6 if thorough else 5} calls over 4 adds / their deletes / 3 queries "
                                     "(no add of an assignment in force, no delete of an absent one) for two pattern "
                                     "universes (mutually matching /book/:id, /book/*; overlapping /book/:id, /*/1) and for "
                                     "domains d1, d2, *, d* — each followed by all closing queries")
    if state["vm"]:
        ok, n, log = vm_crosscheck(chk.prop, "From PyCasbin Require Import Base RoleGraph PatternRM.", "oracle_C14",
                                   [r for r, _ in state["vm"]], [p for _, p in state["vm"]], chunk=50)
        chk.vm_checked += n
        if not ok:
            chk.disagree(dict(kind="extraction-vs-vm_compute"), "extracted oracle", log, where="vm_compute cross-check")


def replay(chk):
    rec = json.load(open(chk.replay_file))
    c = rec.get("case") or rec.get("replay") or {}
    if c.get("stratum") == "concurrent-first-queries":
        from .. import sched
        setup = (c["manager"], [tuple(l) for l in c["links"]], [tuple(q) for q in c["queries"]])
        rm = _conc_make(setup[0], setup[1])
        want = [bool(rm.has_link(*q)) for q in setup[2]]
        with sched.pinned_cpu():
            res = conc_run(setup, sched.follow(list(c["schedule"])), c.get("granularity") == "line")
        print(f"replay: schedule of {len(c['schedule'])} steps -> status {res.status}, answers {res.out}, alone {want}")
        if res.status != "ok" or res.out != want:
            print(f"VIOLATION property={chk.prop} replay={chk.replay_file}")
            sys.exit(1)
        print("replay passes: both queries answer as they do alone under this schedule")
        sys.exit(0)
    if c.get("stratum") == "enforcer-failed-reload":
        bad = failed_reload_execute(c)
        print(f"replay (reload on an Enforcer with a matching function): kept={c['kept']} offered={c['offered']} fail_at={c.get('fail_at')} -> {bad}")
        if bad:
            print(f"VIOLATION property={chk.prop} replay={chk.replay_file}")
            sys.exit(1)
        print("replay passes: after the reload every name holds exactly the roles the assignments in force give it")
        sys.exit(0)
    if c.get("stratum") == "config-events":
        obs, bad = cfg_execute(c)
        print(f"replay (configuration events after first use): kind={c['kind']} initial={c.get('initial')} calls={c['ops']}")
        print(f"  impl ={obs}")
        if bad:
            i, exp, what = bad[0]
            print(f"  call {i} {c['ops'][i]}: implementation {obs[i] if i < len(obs) else None}, spec {exp}: {what}")
            if cfg_f14(c, i) and listed_finding_case(chk) is not None:
                print(f"KNOWN-FINDING: property={chk.prop} {FINDING}")
                sys.exit(0)
            print(f"VIOLATION property={chk.prop} replay={chk.replay_file}")
            sys.exit(1)
        print("replay passes: every answer is the grants of the assignments in force under the matching function in force")
        sys.exit(0)
    if "ops" not in c:
        print("replay file names a broken theorem/correspondence, not an input:", json.dumps(rec.get("broken"))[:800])
        sys.exit(1)
    c.setdefault("spec", True)
    c.setdefault("L", L_DEFAULT)
    obs = run_impl(c)
    mod = canon_model(c, chk.oracle.query([model_request(c)])[0]) if chk.oracle else None
    bad = spec_check(c, obs)
    print(f"replay: kind={c['kind']} calls={[[o[0]] + [NAMES[x] for x in o[1:3] if isinstance(x, int)] for o in c['ops']]}")
    print(f"  impl ={obs}")
    print(f"  model={mod}")
    if bad:
        i, exp, what = bad[0]
        print(f"  call {i} {c['ops'][i]}: implementation {obs[i]}, spec {exp}: {what}")
        if obs == mod and f14_fingerprint(c, i) and listed_finding_case(chk) is not None:
            print(f"KNOWN-FINDING: property={chk.prop} {FINDING}")
            sys.exit(0)
        print(f"VIOLATION property={chk.prop} replay={chk.replay_file}")
        sys.exit(1)
    print("replay passes: implementation agrees with the spec on this input")
    sys.exit(0)


def main():
    chk = Check(PROP)
    chk.rule = (
        "a case is a history of calls on a RoleManager with key_match2_func as matching function, on a "
        "DomainManager with key_match_func as domain matching function (names matched by equality or by key_match2), "
        "or the same through Enforcer (g2(r.obj, p.obj) + add_named_matching_func; g(r.sub, p.sub, r.dom) + "
        "add_named_domain_matching_func, registered before or after the policy).  Exhaustive: EVERY sequence of <= 5 "
        "(quick) / 6 (thorough) calls over {add l, delete l, query} for 4 assignments and 3 queries — mutually "
        "matching patterns (/book/:id, /book/*), overlapping patterns (/book/:id, /*/1), a direct assignment, a role "
        "chain; domains d1, d2, *, d* — each followed by all closing queries; plus random histories of up to 30 calls "
        "over 4 patterns, 5 names, 3 roles, 4 domains.  Every has_link/get_roles answer of the implementation is "
        "compared with the spec `grants` (reachability, within the depth bound, over x -> r for each assignment "
        "(u, r) in force with x = u or x matching u; per domain: the assignments recorded for a domain pattern "
        "matching the queried domain), evaluated while the history is in the property's scope (first-position "
        "patterns, transitive matching, no double add), and every observation (exceptions, dumps of all_links / "
        "all_roles / the edge sets included) with the extracted model.  Out-of-scope histories (second-position "
        "patterns, a name breaking transitivity, repeated adds, clear, re-registration, a non-reflexive domain "
        "matcher) are run for the model tie only.  Non-trivial: at least one assignment and one has_link query "
        "between different names; distinct by (manager, flags, call sequence).  Configuration-events stratum (spec only): "
        "through an Enforcer (g2 or g pattern assignments; g with domains), histories of add / remove / decision / has_link "
        "interleaved with configuration events AFTER first use - the (domain) matching function registered late, a second "
        "time, replaced by another of key_match / key_match2 / key_match3 / regex_match / glob_match, removed (None), the role "
        "manager replaced (set_named_role_manager + build_role_links), build_role_links, load_policy - over 4 patterns, 4 "
        "concrete names, 2 stored names on which the regex-compiling functions raise, 3 roles, domains d1 d2 * d* (queried: "
        "d1 d2 e1); every answer = grants of the assignments the enforcer reports under the function in force (a raising "
        "pair = no match); universes are drawn so that every function of the case's pool is in the theorems' scope and no "
        "two assignments in force share a grant (listed finding).")
    chk.assumptions = [
        "what a concrete matching function answers is C13; here matching functions are arbitrary boolean functions "
        "(exceptions count as False, as match_error_handler does); the oracle receives their truth tables on the universe",
        "scope of the theorems (explicit booleans in_scope): patterns in the FIRST position of assignments only; matching "
        "transitive towards assignment users (needed: C14_transitivity_needed)",
        "deletions: exact only under the guard dels_guarded (C14_delete_exact_partial); outside it the listed finding "
        f"{FINDING} applies (C14_delete_exact_refuted)",
        "domain patterns: the domain matching function is reflexive on the domains used (a literal domain matches itself), "
        "otherwise _affected_role_managers skips the pattern's own cached manager",
        "the depth bound is the plain manager's (paths of k < max_hierarchy_level grants, see C03)",
    ]
    chk.trusted = ["hand-written model coq/theories/PatternRM.v tied to role_manager.py by this differential check only",
                   "Python spec grants() tied to the Coq spec function greach (C14_spec_function_sound) on random inputs"]
    chk.build()
    if chk.replay_file:
        return replay(chk)
    run(chk, chk.tier)
    if chk.tier == "quick" and (chk.broken() or chk.anchor_changed) and not chk.spec_failures:
        chk.notes.append("escalated to thorough budget after a broken proof/correspondence")
        run(chk, "thorough")
    chk.finish()


if __name__ == "__main__":
    main()
