"""C15 — RBAC query API agrees with enforcement.

SPEC evaluated on the implementation's own observations (it mirrors the theorems of coq/theories/Props/C15.v), for
RBAC and RBAC-with-domains models (allow-override, matcher = role membership on the subject + equality on the rest),
for every user / object / action / domain of the case's universe:
  T1  get_implicit_roles_for_user(u[,d]) = once each, exactly the names reachable from u by >= 1 assignment (of d),
      computed here by an independent closure over the g rules                         (C15_implicit_roles_is_reach);
  T2  get_implicit_permissions_for_user(u[,d]) = exactly the p rules (of d) whose subject is u or reachable from u
                                                                                       (C15_implicit_permissions_exact);
  T3  enforce(u,[d],o,a)  <->  some rule of get_implicit_permissions_for_user(u[,d]) has object o and action a,
      whenever everything reachable from u is reachable in fewer than max_hierarchy_level (10) assignments
                                                                                       (C15_enforce_iff_implicit_permission);
  T4  get_implicit_users_for_permission = once each, exactly the non-role subjects enforce allows
                                                                                       (C15_users_for_permission_exact);
  T5  get_users_for_role / get_roles_for_user (and the _in_domain variants) are inverse views of the g rules (of d),
      each name once                                                                   (C15_roles_users_inverse);
  T6  get_implicit_users_for_resource[_by_domain] = the rules on the resource (of d) with a role subject replaced by
      each of the role's direct users, and every reported permission is granted by enforce
                                                                                       (C15_resource_view_exact_and_sound);
  no query raises or fails to terminate on a well-formed policy.
Every case is also run on the extracted model (oracle "Mgmt") and compared observation by observation."""
import itertools
import signal

import casbin

from ..core import Check, vm_crosscheck
from .. import mgmt

PROP = "C15"
MAXLVL = 10                     # RoleManager max_hierarchy_level: has_link follows fewer than 10 assignments
A = mgmt.ATOMS.a
DEEP = [A("r%d" % i) for i in range(1, 15)]    # interned at import time so that replays decode the same atoms
from .. import c15_conf as cf                  # noqa: E402  (after DEEP: it interns its own atoms at import time)


# ----------------------------------------------------------------------------- non-termination guard
class NonTermination(Exception):
    pass


def _alarm(signum, frame):
    raise NonTermination("RBAC query did not return within the time limit")


_depth = [0]
_limit = [2.0]      # CPU seconds (ITIMER_VIRTUAL: not affected by machine load); a healthy query needs ~1 ms
_hangs = [0]


def _guarded(name):
    base = getattr(casbin.Enforcer, name)

    def wrapped(self, *a, **kw):
        if _depth[0]:                       # enforce called from get_implicit_users_for_permission: outer timer runs
            return base(self, *a, **kw)
        _depth[0] = 1
        old = signal.signal(signal.SIGVTALRM, _alarm)
        # repeating: casbin has bare `except:` clauses that would swallow a single shot
        signal.setitimer(signal.ITIMER_VIRTUAL, _limit[0], 0.02)
        try:
            return base(self, *a, **kw)
        except NonTermination:
            _hangs[0] += 1
            _limit[0] = 0.05                # a walk is known to hang now: do not spend 2 s on every further one
            raise
        finally:
            signal.setitimer(signal.ITIMER_VIRTUAL, 0)
            signal.signal(signal.SIGVTALRM, old)
            _depth[0] = 0
    wrapped.__name__ = name
    return wrapped


class GuardedEnforcer(casbin.Enforcer):
    """the real Enforcer; the graph-walking queries run under a timer, so that a walk that no longer terminates (a
    cycle in the role graph) is reported as a failing input instead of hanging the check"""
    get_implicit_roles_for_user = _guarded("get_implicit_roles_for_user")
    get_implicit_permissions_for_user = _guarded("get_implicit_permissions_for_user")
    get_implicit_users_for_permission = _guarded("get_implicit_users_for_permission")
    enforce = _guarded("enforce")


IMPL_KW = dict(enforcer_cls=GuardedEnforcer)


# ----------------------------------------------------------------------------- independent graph spec
def reach_plus(edges, u, nm=None):
    """nm (configured strata): the name matching function in force - a name holds what is assigned to a pattern it matches"""
    out, front = set(), {u}
    while front:
        if nm is None:
            nxt = {b for a, b in edges if a in front} - out
        else:
            nxt = {b for a, b in edges if any(nm(x, a) for x in front)} - out
        out |= nxt
        front = nxt
    return out


def depth_ok(edges, u, maxlvl=MAXLVL, nm=None):
    """everything reachable from u is reachable in fewer than MAXLVL assignments (shallow, Props/C15.v); maxlvl = the
    bound of the role manager in force (configured strata)"""
    dist, front, seen = 0, {u}, {u}
    while front:
        if nm is None:
            nxt = {b for a, b in edges if a in front} - seen
        else:
            nxt = {b for a, b in edges if any(nm(x, a) for x in front)} - seen
        if not nxt:
            return True
        dist += 1
        if dist >= maxlvl:
            return False
        seen |= nxt
        front = nxt
    return True


def subjects_of(kind, rows):
    uni = mgmt.Universe(kind)
    subs = list(uni.subs)
    for pt, r in rows:
        for x in (r[:2] if pt == 1 else [r[kind.i_sub]]):
            if x not in subs:
                subs.append(x)
    return uni, subs


def query_ops(kind, rows):
    uni, subs = subjects_of(kind, rows)
    ops = []
    doms = uni.doms if kind.dom else [0]
    for d in doms:
        for u in subs:
            ops.append((60, u, d))
            ops.append((61, u, d))
            if kind.dom:
                ops += [(57, u, d), (58, u, d)]
            for o in uni.objs:
                for a in uni.acts:
                    ops.append((50, [u, d, o, a] if kind.dom else [u, o, a]))
        for o in uni.objs:
            for a in uni.acts:
                ops.append((62, [d, o, a] if kind.dom else [o, a]))
        if kind.dom:
            ops += [(64, o, d) for o in uni.objs]
    ops += [(63, o) for o in uni.objs]
    if not kind.dom:
        for u in subs:
            ops += [(55, u), (56, u)]
    return ops


def spec_check(kind, rows, lf, ops, obs, impl, conf=None):
    """returns [(step, message)] for the first violated clause.  conf (configured strata, harness/c15_conf.py): the
    configuration of the role manager in force - its hierarchy bound, and whether a name / domain matching function is
    registered (None = the default configuration: bound 10, names and domains compared by equality)"""
    maxlvl = conf.maxlvl if conf else MAXLVL
    nm = conf.name_match() if conf else None
    dm = conf.dom_match() if conf else None
    res = {}
    for i, (op, o) in enumerate(zip(ops, obs)):
        if op[0] < 50:
            continue
        if op[0] == 50 and len(op[1]) != kind.r_arity:
            continue            # a request of the wrong size is refused by design (the shrinker can produce one)
        key = (op[0],) + tuple(tuple(x) if isinstance(x, list) else x for x in op[1:])
        res[key] = (i, o[0])
        if o[0][0] != 0:
            return [(i, "an RBAC query raised or did not terminate on a well-formed policy")]
    p = obs[-1][3]
    g = obs[-1][4]
    i_sub, i_dom, i_obj, i_act = kind.i_sub, kind.i_dom, kind.i_obj, kind.i_act
    g_roles = {r[1] for r in g}

    def edges_of(d):
        if dm is not None and kind.dom:
            return {(r[0], r[1]) for r in g if dm(d, r[2])}
        return {(r[0], r[1]) for r in g if (not kind.dom or r[2] == d)}

    for key, (i, r) in res.items():
        c = key[0]
        v = r[1]
        if c == 60:
            u, d = key[1], key[2]
            if len(v) != len(set(v)):
                return [(i, "get_implicit_roles_for_user reports a role twice")]
            if set(v) != reach_plus(edges_of(d), u, nm):
                return [(i, "get_implicit_roles_for_user is not the set of roles reachable from the user")]
        elif c == 61:
            u, d = key[1], key[2]
            who = {u} | reach_plus(edges_of(d), u, nm)
            want = [x for x in p if x[i_sub] in who and (not kind.dom or x[i_dom] == d)]
            if kind.dom and any(x[i_dom] != d for x in v):
                return [(i, "get_implicit_permissions_for_user reports a rule of another domain")]
            if sorted(map(tuple, set(map(tuple, v)))) != sorted(map(tuple, want)):
                return [(i, "get_implicit_permissions_for_user is not exactly the rules of the user and of its reachable roles")]
        elif c == 50:
            req = key[1]
            u, d, o_, a = (req[0], req[1], req[2], req[3]) if kind.dom else (req[0], 0, req[1], req[2])
            pk = (61, u, d)
            if pk in res and depth_ok(edges_of(d), u, maxlvl, nm):
                perms = res[pk][1][1]
                has = any(x[i_obj] == o_ and x[i_act] == a for x in perms)
                if bool(v) != has:
                    return [(i, "enforce disagrees with get_implicit_permissions_for_user")]
        elif c == 62:
            perm = list(key[1])
            if len(v) != len(set(v)):
                return [(i, "get_implicit_users_for_permission reports a user twice")]
            if any(u in g_roles for u in v):
                return [(i, "get_implicit_users_for_permission reports a role")]
            cand = []
            for x in [r_[0] for r_ in g] + [r_[i_sub] for r_ in p]:
                if x not in cand and x not in g_roles:
                    cand.append(x)
            want = []
            for u in cand:
                k2 = (50, tuple([u] + perm))
                if k2 not in res:
                    want = None
                    break
                if res[k2][1][1]:
                    want.append(u)
            if want is not None and sorted(v) != sorted(want):
                return [(i, "get_implicit_users_for_permission is not exactly the non-role subjects that enforce allows")]
        elif c in (63, 64):
            o_, d = key[1], (key[2] if c == 64 else None)
            roles = {x[1] for x in g if x[-1] == d} if c == 64 else g_roles
            ed = edges_of(d if c == 64 else 0) if kind.dom else edges_of(0)
            want = set()
            for x in p:
                if x[i_obj] != o_ or (c == 64 and x[i_dom] != d):
                    continue
                if x[i_sub] not in roles:
                    want.add(tuple(x))
                else:
                    for a_, b in ed:
                        if b == x[i_sub]:
                            y = list(x)
                            y[i_sub] = a_
                            want.add(tuple(y))
            if len(v) != len(set(map(tuple, v))):
                return [(i, "get_implicit_users_for_resource reports a rule twice")]
            if nm is not None:
                # the direct users of a role include the names that were asked about before and match a user pattern:
                # every listed rule is demanded to be granted (below), every rule of the literal users to be listed
                if not want <= set(map(tuple, v)):
                    return [(i, "get_implicit_users_for_resource misses a rule of a role's direct user")]
            elif set(map(tuple, v)) != want:
                return [(i, "get_implicit_users_for_resource is not the rules on the resource with role subjects replaced by the role's direct users")]
            for x in v:
                k2 = (50, tuple(x))
                if k2 in res and not res[k2][1][1]:
                    return [(i, "get_implicit_users_for_resource reports a permission that enforce refuses")]
        elif c in (55, 57):
            u, d = key[1], (key[2] if c == 57 else 0)
            if len(v) != len(set(v)):
                return [(i, "get_roles_for_user reports a role twice")]
            if set(v) != {b for a_, b in edges_of(d) if (a_ == u or (nm is not None and nm(u, a_)))}:
                return [(i, "get_roles_for_user is not the set of roles assigned to the user by the grouping rules")]
        elif c in (56, 58):
            r_, d = key[1], (key[2] if c == 58 else 0)
            if len(v) != len(set(v)):
                return [(i, "get_users_for_role reports a user twice")]
            lit = {a_ for a_, b in edges_of(d) if b == r_}
            if nm is not None:
                # besides the users written in the grouping rules, the names looked up so far that match one of them
                if not lit <= set(v) or any(not any(nm(u, a_) for a_ in lit) for u in v):
                    return [(i, "get_users_for_role is not the set of users assigned to the role by the grouping rules")]
            elif set(v) != lit:
                return [(i, "get_users_for_role is not the set of users assigned to the role by the grouping rules")]
            # inverse view, stated directly on the two observations
            for u in v:
                k2 = (57, u, d) if c == 58 else (55, u)
                if k2 in res and r_ not in res[k2][1][1]:
                    return [(i, "get_users_for_role and get_roles_for_user are not inverse views")]
    for key, (i, r) in res.items():
        if key[0] in (55, 57):
            u, d = key[1], (key[2] if key[0] == 57 else 0)
            for ro in r[1]:
                k2 = (58, ro, d) if key[0] == 57 else (56, ro)
                if nm is not None and k2 in res and res[k2][0] < i:
                    continue        # the role's users were listed before this name was first looked up
                if k2 in res and u not in res[k2][1][1]:
                    return [(i, "get_users_for_role and get_roles_for_user are not inverse views")]
    return []


# ----------------------------------------------------------------------------- case generators
def link_alphabet(kind):
    subs = [A("alice"), A("bob"), A("admin"), A("editor")]
    d = [A("d1")] if kind.dom else []
    return [[a, b] + d for a in subs[:3] for b in subs[1:] if a != b]


def rule_alphabet(kind):
    subs = [A("alice"), A("bob"), A("admin"), A("editor")]
    d = [A("d1")] if kind.dom else []
    return [[s] + d + [A("data1"), A("read")] for s in subs] + [[A("admin")] + d + [A("data2"), A("write")]]


def exhaustive_rows(kind, max_g, max_p):
    glinks, prules = link_alphabet(kind), rule_alphabet(kind)
    for ng in range(0, min(max_g, len(glinks)) + 1):
        for gs in itertools.combinations(glinks, ng):
            for np_ in range(1, min(max_p, len(prules)) + 1):
                for ps in itertools.combinations(prules, np_):
                    yield [(1, r) for r in gs] + [(0, r) for r in ps]


def shape_rows(kind):
    """role graphs whose shape matters to a graph walk: self-loop, 2- and 3-cycles (with a tail), diamond, chain, a role
    that is also a user of itself through a cycle; in the domain model a copy of part of the graph sits in the other domain"""
    al, bo, ad, ed = A("alice"), A("bob"), A("admin"), A("editor")
    shapes = {
        "self_loop": [(al, al), (al, ad)],
        "two_cycle": [(al, ad), (ad, al)],
        "two_cycle_tail": [(bo, al), (al, ad), (ad, al), (ad, ed)],
        "three_cycle": [(al, bo), (bo, ad), (ad, al)],
        "diamond": [(al, bo), (al, ad), (bo, ed), (ad, ed)],
        "chain": [(al, bo), (bo, ad), (ad, ed)],
        "fan_in": [(al, ed), (bo, ed), (ad, ed)],
    }
    prules = rule_alphabet(kind)
    for name, links in shapes.items():
        for np_ in (1, 2):
            for ps in itertools.combinations(prules, np_):
                if kind.dom:
                    d1, d2 = A("d1"), A("d2")
                    gs = [[a, b, d1] for a, b in links] + [[b, a, d2] for a, b in links[:2]]
                    extra = [(0, [ed, d2, A("data1"), A("read")])]
                else:
                    gs = [[a, b] for a, b in links]
                    extra = []
                yield [(1, r) for r in gs] + [(0, r) for r in ps] + extra


def deep_rows(kind, rng, n):
    """chains alice -> r1 -> ... -> rN around the depth bound (N = 7..12), optionally with a shortcut or a back edge;
    permissions sit on the last three roles"""
    al = A("alice")
    out = []
    for _ in range(n):
        N = rng.choice([7, 8, 9, 9, 10, 10, 11, 12])
        d = [rng.choice([A("d1"), A("d2")])] if kind.dom else []
        names = [al] + DEEP[:N]
        links = [[a, b] + d for a, b in zip(names, names[1:])]
        x = rng.random()
        if x < 0.3:
            i = rng.randrange(0, N - 1)
            links.append([names[i], names[rng.randrange(i + 2, N + 1)]] + d)       # shortcut
        elif x < 0.5:
            i = rng.randrange(1, N + 1)
            links.append([names[i], names[rng.randrange(0, i)]] + d)               # back edge: a cycle
        rng.shuffle(links)
        ps = [[names[N]] + d + [A("data1"), A("read")], [names[N - 1]] + d + [A("data2"), A("read")],
              [names[N - 2]] + d + [A("data1"), A("write")]]
        if kind.dom:
            other = A("d2") if d[0] == A("d1") else A("d1")
            links.append([al, names[N], other])
            ps.append([names[N], other, A("data2"), A("write")])
        out.append([(1, r) for r in links] + [(0, r) for r in ps])
    return out


def key_fn(k, r, o):
    return (k.name, repr(r)) if any(pt == 1 for pt, _ in r) else None


def run_stratum(chk, kind, cases, label):
    """in chunks, so that a walk that stopped terminating ends the run after the chunk that found it"""
    VM_POOL.extend((kind, rows, ops) for rows, _, ops in cases[::7])
    for k in range(0, len(cases), 100):
        if _hangs[0]:
            chk.notes.append(f"{label}: stopped after {k} of {len(cases)} cases (a query did not terminate)")
            return False
        mgmt.run_cases(chk, kind, cases[k:k + 100], spec_check, label=label, key_fn=key_fn, impl_kwargs=IMPL_KW)
    return True


VM_POOL = []


def vm_check(chk, n):
    """the extracted OCaml model and Coq's own vm_compute agree on a sample of the histories just run"""
    if chk.oracle is None or not VM_POOL or _hangs[0]:
        return
    sample = [VM_POOL[i] for i in sorted(chk.rng.sample(range(len(VM_POOL)), min(n, len(VM_POOL))))]
    reqs = [(1, [kind.wire(), [[pt, r] for pt, r in rows], True, [list(op) for op in ops]]) for kind, rows, ops in sample]
    reps = chk.oracle.query(reqs)
    ok, nchk, log = vm_crosscheck(PROP, "From PyCasbin Require Import Base MgmtWire.", "oracle_mgmt", reqs, reps, chunk=20)
    chk.vm_checked += nchk
    if not ok:
        chk.disagree(dict(level="vm_compute"), None, log[-600:],
                     where="vm_compute re-evaluation of oracle_mgmt differs from the extracted OCaml")


W_HIST = dict(p_add=3, p_add_many=1, p_remove=2, p_remove_many=0.5, p_remove_filtered=0.5, p_update=1, p_update_many=0,
              p_update_filtered=0, g_add=7, g_add_many=3, g_remove=6, g_remove_many=2, g_remove_filtered=2, rbac=5,
              clear=0, load=1.5, save=0.5, build=0.3, flags=0, query=4, probe=0)


def history_cases(kind, rng, n):
    """the same query block, but asked AFTER a management history (adds, removals, batch and filtered forms, RBAC-API
    calls, reloads, queries in between that build per-domain caches): the API must agree with enforcement and with
    the grouping rules in every reachable state, not only right after a load"""
    A = mgmt.ATOMS.a
    for i in range(n):
        gen = mgmt.Gen(rng, kind, W_HIST)
        rows = gen.rows(rng.randint(0, 8))
        uni = mgmt.Universe(kind)
        d = [rng.choice(uni.doms)] if kind.dom else []
        if i % 6 == 0:
            # revoke every assignment, reload, (re-assign one): the emptied role definition must not keep old links
            gs = [r for pt, r in rows if pt == 1]
            prefix = [(3, 1, list(r)) for r in gs] + [(31,)]
            if gs and rng.random() < 0.5:
                prefix.append((1, 1, list(gs[0])))
        elif i % 6 == 1:
            # assignments that exist in memory only (auto-save off) are dropped by a reload: afterwards nobody holds them
            rows = [(pt, r) for pt, r in rows if pt == 0]
            adds = [(1, 1, gen.uni.g_rule(rng)) for _ in range(rng.randint(1, 4))]
            prefix = [(35, False)] + adds + [(50, rq) for rq in rng.sample(uni.requests(), 3)] + [(31,)]
        elif i % 6 == 2:
            # every domain is queried while it has no assignment yet (an empty per-domain manager gets cached), then
            # the first assignments arrive through the management API
            rows = [(pt, r) for pt, r in rows if pt == 0]
            qs = [(50, rq) for rq in uni.requests()[::3]]
            if kind.dom:
                qs += [(57, u, dd) for u in uni.subs[:3] for dd in uni.doms]
            adds = [(1, 1, gen.uni.g_rule(rng)) for _ in range(rng.randint(1, 5))]
            prefix = qs + adds
        elif i % 6 == 3:
            # a refused request, then two role chains are joined in the middle (not at the asked subject, not at the
            # permitted role): the earlier refusal must not be remembered
            a, b, c, e = rng.sample(uni.subs, 4) if len(uni.subs) >= 4 else (uni.subs * 4)[:4]
            rows = [(0, [e] + d + [uni.objs[0], uni.acts[0]]), (1, [a, b] + d), (1, [c, e] + d)]
            req = [a] + d + [uni.objs[0], uni.acts[0]]
            prefix = [(50, req), (60, a, d[0] if d else 0), (1, 1, [b, c] + d)]
        else:
            prefix = mgmt.drop_prefix_aliases(kind, rows, gen.history(rng.randint(2, 12), final_probe=False))
            # in-between queries: only the RBAC queries and enforce (a get_filtered_policy whose filter reaches past a
            # rule raises IndexError by design - not this property's business)
            # (also dropped: enforce requests of the wrong size and, on domain models, the implicit queries with the empty
            # string as domain - "" means "no domain filter", it is not a domain of the universe)
            prefix = [o for o in prefix if o[0] < 50 or (o[0] == 50 and len(o[1]) == kind.r_arity) or
                      (o[0] in (55, 56, 57, 58, 60, 61, 62, 63, 64) and not (kind.dom and o[0] in (60, 61) and o[2] == 0))]
        mentioned = list(rows)
        for op in prefix:
            if op[0] == 1 and op[1] in (0, 1) and len(op[2]) >= 2:
                mentioned.append((op[1], list(op[2])))
            elif op[0] == 2 and op[1] in (0, 1):
                mentioned.extend((op[1], list(r)) for r in op[2] if len(r) >= 2)
        mentioned = [(pt, r) for pt, r in mentioned if (pt == 1 and len(r) >= 2) or (pt == 0 and len(r) == kind.p_arity)]
        yield (rows, True, list(prefix) + query_ops(kind, mentioned))


# ----------------------------------------------------------------------------- query blocks INTERLEAVED with the history
def spec_check_blocks(kind, rows, lf, ops, obs, impl):
    """T1-T6 on EVERY maximal block of queries of the history, each against the policy in force at that block (the
    answers of an earlier block - remembered misses, cached per-domain managers - must not leak into a later one)"""
    i, n = 0, len(ops)
    while i < n:
        if ops[i][0] < 50:
            i += 1
            continue
        j = i
        while j < n and ops[j][0] >= 50:
            j += 1
        v = spec_check(kind, rows, lf, ops[i:j], obs[i:j], impl)
        if v:
            return [(i + v[0][0], v[0][1])]
        i = j
    return []


def _blocks_variant(model_compared):
    def sc(kind, rows, lf, ops, obs, impl):
        return spec_check_blocks(kind, rows, lf, ops, obs, impl)
    sc.case_extra = dict(layout="blocks", model_compared=model_compared)
    return sc


def interleaved_cases(kind, rng, n, store):
    """the whole query block after EACH of 2..4 segments of a management history (1..5 calls each; with `store`, also
    steps in which the store is edited behind the enforcer's back and reloaded - accepted, or refused because of a
    malformed grouping row or a failing adapter - with the block after every reload)"""
    uni = mgmt.Universe(kind)
    block = query_ops(kind, [])
    for _ in range(n):
        gen = mgmt.Gen(rng, kind, W_HIST)
        rows = gen.rows(rng.randint(0, 8))
        ops = list(block) if rng.random() < 0.5 else []
        for _ in range(rng.randint(2, 4)):
            if store and rng.random() < 0.4:
                ops += mgmt.store_step(rng, kind, gen, len(rows), block)
                continue
            for _ in range(rng.randint(1, 5)):
                for o in gen.op():
                    if kind.dom and o[0] in (60, 61) and o[2] == 0:
                        continue            # the empty string is not a domain of the universe (it means "no domain filter")
                    if o[0] < 50 or (o[0] == 50 and len(o[1]) == kind.r_arity) or o[0] in (55, 56, 57, 58, 60, 61, 62, 63, 64):
                        ops.append(o)
            ops += block
        yield (rows, True, mgmt.drop_prefix_aliases(kind, rows, ops))


def run_interleaved(chk, n, strata):
    for kn in ("rbac", "dom"):
        kind = mgmt.KINDS[kn]
        for store in (False, True):
            if _hangs[0]:
                return
            label = f"interleaved-{'store-' if store else ''}{kn}"
            cases = list(interleaved_cases(kind, chk.rng, n, store))
            mgmt.run_cases(chk, kind, cases, _blocks_variant(not store), label=label, key_fn=key_fn, impl_kwargs=IMPL_KW,
                           compare_model=not store)
            strata[label.replace("-", "_")] = len(cases)


# ----------------------------------------------------------------------------- stores that repeat a grouping line
def _dup_variant():
    def sc(kind, rows, lf, ops, obs, impl):
        return spec_check_blocks(kind, rows, lf, ops, obs, impl)
    sc.case_extra = dict(layout="blocks", model_compared=True)
    return sc


def repeated_line_cases(kind, rng, n):
    """the store holds some role-assignment line twice (or three times) - the file adapter and load_policy_line take the
    lines as they are -, then SINGLE-rule management calls (remove_grouping_policy / delete_role_for_user of a stored
    assignment, most of them aimed at a repeated one; a few single adds of g and p rules), with the whole query block
    before the first and after every call: while a copy of the assignment is stored (get_grouping_policy lists it) the
    user holds the role, once the last copy is gone nobody does - in every block the API agrees with the stored
    assignments and with enforce"""
    for _ in range(n):
        gen = mgmt.Gen(rng, kind, W_HIST)
        rows = gen.rows(rng.randint(2, 8))
        if not any(pt == 1 for pt, _ in rows):
            rows.append((1, gen.uni.g_rule(rng)))
        if not any(pt == 0 for pt, _ in rows):
            rows.append((0, gen.uni.p_rule(rng)))
        gs = [r for pt, r in rows if pt == 1]
        reps = rng.sample(gs, min(len(gs), rng.choice([1, 1, 2])))
        for r in reps:
            for _ in range(rng.choice([1, 1, 1, 2])):
                rows.insert(rng.randrange(len(rows) + 1), (1, list(r)))
        stored = [list(r) for pt, r in rows if pt == 1]
        calls = []
        for _ in range(rng.randint(2, 5)):
            x = rng.random()
            if x < 0.6 and stored:
                r = list(rng.choice(reps)) if (rng.random() < 0.7 and any(q in stored for q in reps)) else list(rng.choice(stored))
                if r in stored:
                    stored.remove(r)
                calls.append((17, r[0], r[1]) if (not kind.dom and rng.random() < 0.5) else (3, 1, r))
            elif x < 0.75:
                r = list(rng.choice(gs)) if rng.random() < 0.6 else gen.uni.g_rule(rng)
                if r not in stored:
                    stored.append(r)
                if rng.random() < 0.5:
                    calls.append((19, r[0], r[1], r[2]) if kind.dom else (16, r[0], r[1]))
                else:
                    calls.append((1, 1, r))
            elif x < 0.9:
                calls.append((rng.choice([1, 3]), 0, gen.rule(0)))
            else:
                calls.append((3, 1, gen.uni.g_rule(rng)))          # an assignment that is (probably) not stored
        mentioned = list(rows) + [(1, [c[1], c[2]] + ([c[3]] if kind.dom else [])) for c in calls if c[0] in (16, 19)] + \
            [(c[1], list(c[2])) for c in calls if c[0] == 1]
        block = query_ops(kind, mentioned)
        ops = list(block) if rng.random() < 0.6 else []
        for c in calls:
            ops += [c] + block
        yield (rows, True, ops)


def run_repeated_lines(chk, n, strata):
    for kn in ("rbac", "dom"):
        if _hangs[0]:
            return
        kind = mgmt.KINDS[kn]
        cases = list(repeated_line_cases(kind, chk.rng, n))
        for k in range(0, len(cases), 100):         # in chunks: run_cases keeps every enforcer of a call alive
            if _hangs[0]:
                break
            mgmt.run_cases(chk, kind, cases[k:k + 100], _dup_variant(), label=f"repeated-g-lines-{kn}", key_fn=key_fn,
                           impl_kwargs=IMPL_KW)
        strata[f"repeated_g_lines_{kn}"] = len(cases)


# ----------------------------------------------------------------------------- enforcers in non-default configurations
def spec_check_conf(kind, rows, lf, ops, obs, impl=None):
    """T1-T6 on every maximal block of queries, each against the policy AND the role-manager configuration in force at
    that block (ops 90/91/92 of harness/c15_conf.py change the configuration; everything below 50 changes the policy)"""
    conf = cf.Conf()
    i, n = 0, min(len(ops), len(obs))
    while i < n:
        c = ops[i][0]
        if not (50 <= c < 90):
            conf = cf.step_conf(conf, ops[i])
            if obs[i][0][0] != 0 and c >= 90:
                return [(i, "a configuration call of the public API raised")]
            i += 1
            continue
        j = i
        while j < n and 50 <= ops[j][0] < 90:
            j += 1
        v = spec_check(kind, rows, lf, ops[i:j], obs[i:j], impl, conf=None if conf.default() else conf)
        if v:
            return [(i + v[0][0], v[0][1], conf)]
        i = j
    return []


def conf_key(kind, rows, ops):
    return (kind.name, "configured", repr(rows), tuple(repr(o) for o in ops if not (50 <= o[0] < 90)))


def run_conf_cases(chk, kind, cases, label, max_report=3):
    """own runner (the configurations are outside the Mgmt model: nothing is compared with it; the clauses are evaluated
    on the implementation's own answers)"""
    reported = 0
    for n, (rows, lf, ops) in enumerate(cases):
        if _hangs[0]:
            chk.notes.append(f"{label}: stopped after {n} of {len(cases)} cases (a query did not terminate)")
            break
        impl, obs = cf.run_impl(kind, rows, lf, ops, **IMPL_KW)
        chk.count(conf_key(kind, rows, ops))
        if n % max(1, len(cases) // 2) == 0:
            chk.sample(dict(kind=kind.name, stratum=label, initial_rows=[[pt, mgmt.S(r)] for pt, r in rows],
                            history=[cf.pretty_op(o) for o in ops if not (50 <= o[0] < 90)][:12], n_ops=len(ops)), cap=10)
        viol = spec_check_conf(kind, rows, lf, ops, obs)
        if not viol:
            continue
        step, msg, conf = viol[0]
        small = list(ops[:step + 1])
        ob = obs
        if reported < max_report:
            def fails(cand, _msg=msg):
                _, o2 = cf.run_impl(kind, rows, lf, cand, **IMPL_KW)
                return any(x[1] == _msg for x in spec_check_conf(kind, rows, lf, cand, o2))
            try:
                small = mgmt.shrink(small, fails, max_rounds=600)
                _, ob = cf.run_impl(kind, rows, lf, small, **IMPL_KW)
                v2 = [x for x in spec_check_conf(kind, rows, lf, small, ob) if x[1] == msg]
                step, conf = (v2[0][0], v2[0][2]) if v2 else (len(small) - 1, conf)
            except Exception:  # noqa
                small, ob, step = list(ops[:step + 1]), obs, step
        reported += 1
        chk.spec_fail(dict(layout="configured", kind=kind.name, kind_wire=kind.wire(), stratum=label, load_first=lf,
                           initial_rows=[[pt, r] for pt, r in rows], ops=[list(o) for o in small],
                           readable=dict(initial_rows=[[pt, mgmt.S(r)] for pt, r in rows],
                                         history=[cf.pretty_op(o) for o in small],
                                         configuration_at_the_failing_query=conf.describe())),
                      dict(observation_at_failing_step=ob[step][0] if step < len(ob) else None), "see 'what'", msg, None)
    chk.traces += len(cases)


def replay_conf(chk):
    import json
    import sys
    c = json.load(open(chk.replay_file)).get("case") or {}
    w = c["kind_wire"]
    kind = mgmt.Kind(c["kind"], *[bool(x) for x in w[:5]], eff=w[5], adapter=bool(w[6]), watcher=w[7])
    rows = [(pt, r) for pt, r in c["initial_rows"]]
    ops = [tuple(o) for o in c["ops"]]
    lf = c.get("load_first", True)
    impl, obs = cf.run_impl(kind, rows, lf, ops, **IMPL_KW)
    viol = spec_check_conf(kind, rows, lf, ops, obs)
    print("replay history:", [cf.pretty_op(o) for o in ops])
    print("  spec violations on the implementation:", [(v[0], v[1], v[2].describe()) for v in viol[:3]])
    if viol:
        print("  observation at the failing step:", obs[viol[0][0]][0])
        print(f"VIOLATION property={chk.prop} replay={chk.replay_file}")
        sys.exit(1)
    print("replay passes: the implementation satisfies the spec on this history (configured enforcer; no model comparison)")
    sys.exit(0)


def run_configured(chk, n, strata):
    """C15's clauses on enforcers whose role manager is not the default one (see harness/c15_conf.py)"""
    rng = chk.rng
    chain = DEEP + cf.DEEP_MORE
    for kn in ("rbac", "dom"):
        kind = mgmt.KINDS[kn]
        plan = [("configured-depth", lambda k=kind: cf.depth_cases(k, rng, n, chain)),
                ("configured-name-matcher", lambda k=kind: cf.matcher_cases(k, rng, n, "name"))]
        if kind.dom:
            plan += [("configured-domain-matcher", lambda k=kind: cf.matcher_cases(k, rng, n, "domain")),
                     ("configured-both-matchers", lambda k=kind: cf.matcher_cases(k, rng, max(4, n // 2), "both"))]
        for label, mk in plan:
            if _hangs[0]:
                return
            cases = list(mk())
            run_conf_cases(chk, kind, cases, f"{label}-{kn}")
            strata[f"{label}-{kn}".replace("-", "_")] = len(cases)


# ----------------------------------------------------------------------------- the domain column under another name
RENAMED = ("tenant", "domain", "org")


def renamed_model_text(col):
    return ("[request_definition]\nr = sub, %s, obj, act\n\n[policy_definition]\np = sub, %s, obj, act\n\n"
            "[role_definition]\ng = _, _, _\n\n[policy_effect]\ne = some(where (p.eft == allow))\n\n"
            "[matchers]\nm = g(r.sub, p.sub, r.%s) && r.%s == p.%s && r.obj == p.obj && r.act == p.act\n" % ((col,) * 5))


def renamed_check(col, prules, grules):
    """the per-domain permission queries on a domains model whose policy definition calls the domain column `col`:
    returns None or (query, answer, what).  Implementation level: the clauses are on the enforcer's own answers."""
    m = casbin.Model()
    m.load_model_from_text(renamed_model_text(col))
    e = casbin.Enforcer(m)
    e.add_policies([list(r) for r in prules])
    e.add_grouping_policies([list(r) for r in grules])
    users = sorted({r[0] for r in grules} | {r[1] for r in grules} | {r[0] for r in prules})
    doms = sorted({r[2] for r in grules} | {r[1] for r in prules})
    for d in doms:
        for u in users:
            try:
                own = e.get_permissions_for_user_in_domain(u, d)
                imp = e.get_implicit_permissions_for_user(u, d)
            except Exception as exc:  # noqa
                return (["permissions", u, d], repr(exc)[:200], "a per-domain permission query raised on a well-formed policy")
            want = [list(r) for r in prules if r[0] == u and r[1] == d]
            if sorted(map(tuple, own)) != sorted(map(tuple, want)):
                return (["get_permissions_for_user_in_domain", u, d], own,
                        "get_permissions_for_user_in_domain is not exactly the user's rules of that domain")
            for r in imp:
                if len(r) != 4 or r[1] != d or not e.enforce(u, r[1], r[2], r[3]):
                    return (["get_implicit_permissions_for_user", u, d], imp,
                            "get_implicit_permissions_for_user lists a permission that enforce refuses in that domain")
            for r in prules:
                if r[1] == d and e.enforce(u, d, r[2], r[3]) and \
                        not any(x[2] == r[2] and x[3] == r[3] for x in imp):
                    return (["get_implicit_permissions_for_user", u, d], imp,
                            "enforce allows a request that get_implicit_permissions_for_user does not account for")
    return None


def run_renamed(chk, n, strata):
    rng = chk.rng
    subs, roles, doms, objs, acts = ["alice", "bob", "carol"], ["admin", "editor"], ["t1", "t2"], ["data1", "data2"], ["read", "write"]
    cnt = 0
    for i in range(n):
        col = RENAMED[i % len(RENAMED)]
        g = {(rng.choice(subs + roles), rng.choice(roles), rng.choice(doms)) for _ in range(rng.randint(1, 5))}
        g = sorted(x for x in g if x[0] != x[1])
        pr = sorted({(rng.choice(subs + roles), rng.choice(doms), rng.choice(objs), rng.choice(acts)) for _ in range(rng.randint(1, 6))})
        if i % 4 == 0 and g:
            # a role holding rules in BOTH domains, assigned in one of them only
            role = g[0][1]
            pr = sorted(set(pr) | {(role, "t1", "data1", "read"), (role, "t2", "data2", "write")})
        cnt += 1
        chk.traces += 1
        bad = renamed_check(col, pr, g)
        if bad:
            chk.spec_fail(dict(layout="renamed-domain-column", stratum="renamed-domain-column", column=col,
                               p_rules=[list(r) for r in pr], g_rules=[list(r) for r in g]),
                          dict(query=bad[0], answer=bad[1]), "see 'what'", bad[2], None)
            break
    strata["renamed_domain_column"] = cnt


def replay_renamed(chk, c):
    import sys
    bad = renamed_check(c["column"], [tuple(r) for r in c["p_rules"]], [tuple(r) for r in c["g_rules"]])
    print("replay: domains model with the domain column named", c["column"], "; rules:", c["p_rules"], c["g_rules"])
    if bad:
        print("  violated:", bad[2], "at", bad[0], "answer", bad[1])
        print(f"VIOLATION property={chk.prop} replay={chk.replay_file}")
        sys.exit(1)
    print("replay passes: the per-domain permission queries agree with the rules and with enforce on this policy")
    sys.exit(0)


# ----------------------------------------------------------------------------- users-for-permission under deny-override
DENY_MODEL = ("[request_definition]\nr = sub, obj, act\n\n[policy_definition]\np = sub, obj, act, eft\n\n[role_definition]\ng = _, _\n\n"
              "[policy_effect]\ne = some(where (p.eft == allow)) && !some(where (p.eft == deny))\n\n"
              "[matchers]\nm = g(r.sub, p.sub) && r.obj == p.obj && r.act == p.act\n")


def deny_users_check(prules, grules):
    """get_implicit_users_for_permission on an RBAC model with deny-override: exactly the non-role subjects that enforce allows
    (implementation level: the clause is on the enforcer's own answers).  Returns None or (query, answer, what)."""
    m = casbin.Model()
    m.load_model_from_text(DENY_MODEL)
    e = casbin.Enforcer(m)
    e.add_policies([list(r) for r in prules])
    e.add_grouping_policies([list(r) for r in grules])
    roles = {r[1] for r in grules}
    subjects = []
    for x in [r[0] for r in grules] + [r[0] for r in prules]:
        if x not in subjects and x not in roles:
            subjects.append(x)
    for o, a in sorted({(r[1], r[2]) for r in prules}):
        try:
            got = e.get_implicit_users_for_permission(o, a)
        except Exception as exc:  # noqa
            return (["get_implicit_users_for_permission", o, a], repr(exc)[:200], "the query raised on a well-formed policy")
        want = [u for u in subjects if e.enforce(u, o, a)]
        if len(got) != len(set(got)) or sorted(got) != sorted(want):
            return (["get_implicit_users_for_permission", o, a], got,
                    "get_implicit_users_for_permission is not exactly the non-role subjects that enforce allows (deny-override model)")
    return None


def run_deny_users(chk, n, strata):
    rng = chk.rng
    subs, roles, objs, acts = ["alice", "bob", "carol"], ["admin", "editor"], ["data1", "data2"], ["read", "write"]
    cnt = 0
    for i in range(n):
        g = sorted({(rng.choice(subs + roles), rng.choice(roles)) for _ in range(rng.randint(0, 4))})
        g = [x for x in g if x[0] != x[1]]
        pr = sorted({(rng.choice(subs + roles), rng.choice(objs), rng.choice(acts), rng.choice(["allow", "allow", "deny"]))
                     for _ in range(rng.randint(1, 6))})
        cnt += 1
        chk.traces += 1
        bad = deny_users_check(pr, g)
        if bad:
            chk.spec_fail(dict(layout="deny-users", stratum="deny-override-users-for-permission",
                               p_rules=[list(r) for r in pr], g_rules=[list(r) for r in g]),
                          dict(query=bad[0], answer=bad[1]), "see 'what'", bad[2], None)
            break
    strata["deny_override_users_for_permission"] = cnt


def replay_deny_users(chk, c):
    import sys
    bad = deny_users_check([tuple(r) for r in c["p_rules"]], [tuple(r) for r in c["g_rules"]])
    print("replay: RBAC model with deny-override; rules:", c["p_rules"], c["g_rules"])
    if bad:
        print("  violated:", bad[2], "at", bad[0], "answer", bad[1])
        print(f"VIOLATION property={chk.prop} replay={chk.replay_file}")
        sys.exit(1)
    print("replay passes: get_implicit_users_for_permission agrees with enforce on this policy")
    sys.exit(0)


def run(chk, n_random, max_g, max_p, cap, n_deep, n_conf):
    rng = chk.rng
    strata = chk.extra.setdefault("strata", {})
    full_cover = True
    for kn in ("rbac", "dom"):
        kind = mgmt.KINDS[kn]
        cases = list(history_cases(kind, rng, max(30, n_random // 2)))
        run_stratum(chk, kind, cases, f"after-history-{kn}")
        strata[f"after_history_{kn}"] = len(cases)
    run_interleaved(chk, max(60, n_random // 2), strata)
    run_repeated_lines(chk, max(40, n_random // 3), strata)
    for kn in ("rbac", "dom"):
        if _hangs[0]:
            return False
        kind = mgmt.KINDS[kn]
        allrows = list(exhaustive_rows(kind, max_g, max_p))
        full = len(allrows)
        if cap is not None and full > cap:
            allrows = rng.sample(allrows, cap)
            full_cover = False
        cases = [(rows, True, query_ops(kind, rows)) for rows in allrows]
        full_cover = run_stratum(chk, kind, cases, f"enumerated-{kn}") and full_cover
        strata[f"enumerated_{kn}"] = dict(run=len(cases), of=full, max_links=max_g, max_rules=max_p)
        cases = [(rows, True, query_ops(kind, rows)) for rows in shape_rows(kind)]
        run_stratum(chk, kind, cases, f"shapes-{kn}")
        strata[f"shapes_{kn}"] = len(cases)
        cases = [(rows, True, query_ops(kind, rows)) for rows in deep_rows(kind, rng, n_deep)]
        run_stratum(chk, kind, cases, f"depth-bound-{kn}")
        strata[f"depth_bound_{kn}"] = len(cases)
        cases = []
        for _ in range(n_random):
            gen = mgmt.Gen(rng, kind)
            rows = gen.rows(rng.randint(2, 14))
            cases.append((rows, True, query_ops(kind, rows)))
        run_stratum(chk, kind, cases, f"random-{kn}")
        strata[f"random_{kn}"] = len(cases)
    run_configured(chk, n_conf, strata)          # last: the random streams of the strata above stay as they were
    run_renamed(chk, max(40, n_conf), strata)
    run_deny_users(chk, max(60, n_conf), strata)
    return full_cover


def main():
    chk = Check(PROP)
    nl = len(link_alphabet(mgmt.KINDS["rbac"]))
    nr = len(rule_alphabet(mgmt.KINDS["rbac"]))
    chk.rule = (f"a case = a policy (RBAC and RBAC-with-domains) + EVERY query of the RBAC API for every subject x object x "
                f"action x domain of its universe, each answer checked against an independent closure over the g rules and "
                f"against the implementation's own enforce answers; strata: (1) ALL subsets of <= G of {nl} role links over "
                f"{{alice,bob,admin,editor}} (2-cycles and chains included) x ALL non-empty subsets of <= P of {nr} permission "
                f"rules (quick: G=3, P=2, complete; thorough: G={nl}, P={nr}, complete); (2) hand-picked shapes: self-loop, "
                f"2-/3-cycle, cycle with tail, diamond, chain, fan-in, with a mirrored copy in a second domain; (3) chains of "
                f"7..12 assignments around max_hierarchy_level=10 with shortcuts / back edges; (4) random policies of <= 14 rows "
                f"over 4 subjects x 2 objects x 2 actions [x 2 domains]; non-trivial = the policy has at least one role link; "
                f"distinct by (kind, policy); (5) the query block after management histories, and INTERLEAVED with them: "
                f"the whole block after each of 2..4 segments of a history (incl. steps where the store is edited out of band "
                f"and reloaded, accepted or refused), every block checked against the policy in force at that block; "
                f"(6) stores that repeat a role-assignment line, then single-rule calls (removal of a stored assignment, "
                f"single adds) with the block after every call; (7) CONFIGURED enforcers (harness/c15_conf.py; implementation "
                f"level, clauses on the enforcer's own answers, the configuration in force tracked per block): a role manager "
                f"with another hierarchy bound L in {{2,3,5,8,12,15,20}} installed through set_role_manager + build_role_links "
                f"(before the load / after it / late) with chains of L-3..L+2 assignments; util.key_match registered as NAME "
                f"matching function of g (patterns /user/*, /user/a/*, /grp/* in the user column, concrete paths never written "
                f"in the policy among the subjects asked about, API queries before or after the enforce calls per subject); "
                f"util.key_match registered as DOMAIN matching function of g (assignments in d1, d2, '*'), before or AFTER "
                f"earlier queries have touched some domains; both; 0..2 segments of management calls afterwards")
    chk.assumptions = ["the enforce<->implicit-permission clause is only demanded where the hierarchy is within the depth bound "
                       "(everything reachable from the user is reachable in < 10 assignments; computed independently per case); "
                       "the other clauses are demanded everywhere",
                       "names are non-empty strings; allow-override effect and the standard RBAC matcher shapes (the property's premise)",
                       "configured strata: the depth premise uses the bound of the role manager IN FORCE; wildcards only in the user "
                       "column of g (with one in the role column the listings legitimately depend on which names were looked up "
                       "before); permission rules in concrete domains (r.dom == p.dom is equality); no revocation in a history where "
                       "two assignments share a link (listed findings C14-F14, C04/pattern-and-concrete-domain-share-a-link); "
                       "get_users_for_role may also list names looked up before that match a user pattern holding the role"]
    chk.trusted = ["hand-written models coq/theories/{Policy,RoleGraph,Mgmt}.v tied by the differential history correspondence",
                   "the four graph-walking queries run under a 2 s CPU-time timer (subclass of casbin.Enforcer calling the real methods)"]
    chk.rule += ("; (8) a domains model whose policy definition calls the domain column tenant / domain / org (real Enforcer, "
                 "implementation level): get_permissions_for_user_in_domain is exactly the user's rules of that domain, every "
                 "permission of get_implicit_permissions_for_user(user, domain) is allowed by enforce there, and every allowed "
                 "request is accounted for; (9) an RBAC model with deny-override (real Enforcer, implementation level): "
                 "get_implicit_users_for_permission is exactly the non-role subjects that enforce allows")
    chk.build(translators=["rbacapi", "implroles", "implusers", "implresource", "implperms"], oracle_name="Mgmt")
    if chk.replay_file:
        import json
        c = (json.load(open(chk.replay_file)).get("case") or {})
        if c.get("layout") == "configured":
            return replay_conf(chk)
        if c.get("layout") == "renamed-domain-column":
            return replay_renamed(chk, c)
        if c.get("layout") == "deny-users":
            return replay_deny_users(chk, c)
        if c.get("layout") == "blocks":
            if not c.get("model_compared"):
                chk.oracle = None            # out-of-band store edits are outside the Mgmt model
            return mgmt.replay_case(chk, spec_check_blocks, impl_kwargs=IMPL_KW)
        return mgmt.replay_case(chk, spec_check, impl_kwargs=IMPL_KW)
    if chk.tier == "thorough":
        chk.exhaustive = run(chk, 1500, nl, nr, None, 200, 600)
        vm_check(chk, 200)
    else:
        chk.exhaustive = run(chk, 120, 3, 2, None, 24, 60)
        vm_check(chk, 40)
        if (chk.broken() or chk.anchor_changed) and not chk.spec_failures:
            run(chk, 600, 4, 3, 3000, 120, 300)
    chk.finish()


if __name__ == "__main__":
    main()
