"""C15 — RBAC query API agrees with enforcement.
SPEC on the implementation, for RBAC and RBAC-with-domains models (allow-override, matcher = role membership
on the subject + equality on the rest), over all users/objects/actions/domains of a small universe:
  enforce(u,[d],o,a)  <->  some rule of get_implicit_permissions_for_user(u[,d]) has object o and action a;
  get_implicit_roles_for_user = the roles reachable from the user (independent BFS over the g rules);
  get_implicit_users_for_permission = once each, exactly the non-role subjects enforce allows;
  get_users_for_role and get_roles_for_user are inverse views; same per domain."""
import itertools

from ..core import Check
from .. import mgmt

PROP = "C15"


def reach_plus(edges, u):
    out, front = set(), {u}
    while front:
        nxt = {b for a, b in edges if a in front} - out
        out |= nxt
        front = nxt
    return out


def query_ops(kind, uni):
    ops = []
    doms = uni.doms if kind.dom else [0]
    for d in doms:
        for u in uni.subs:
            ops.append((60, u, d))
            ops.append((61, u, d))
            if kind.dom:
                ops += [(57, u, d), (58, u, d)]
            for o in uni.objs:
                for a in uni.acts:
                    ops.append((50, [u, d, o, a] if kind.dom else [u, o, a]))
        for o in uni.objs:
            for a in uni.acts:
                ops.append((62, [d, o, a] if kind.dom else [o, a]))
    if not kind.dom:
        for u in uni.subs:
            ops += [(55, u), (56, u)]
    return ops


def spec_check(kind, rows, lf, ops, obs, impl):
    res = {}
    for i, (op, o) in enumerate(zip(ops, obs)):
        res[(op[0],) + tuple(tuple(x) if isinstance(x, list) else x for x in op[1:])] = (i, o[0])
    p = obs[-1][3]
    g = obs[-1][4]
    uni = mgmt.Universe(kind)
    doms = uni.doms if kind.dom else [0]
    out = []

    def val(key):
        i, r = res[key]
        return i, (r[1] if r[0] == 0 else None)

    for d in doms:
        edges = {(r[0], r[1]) for r in g if (not kind.dom or r[2] == d)}
        for u in uni.subs:
            i, roles = val((60, u, d))
            if roles is not None and set(roles) != reach_plus(edges, u):
                return [(i, "get_implicit_roles_for_user is not the set of roles reachable from the user")]
            if roles is not None and len(roles) != len(set(roles)):
                return [(i, "get_implicit_roles_for_user reports a role twice")]
            j, perms = val((61, u, d))
            for o_ in uni.objs:
                for a in uni.acts:
                    k, allowed = val((50, (u, d, o_, a) if kind.dom else (u, o_, a)))
                    if perms is None or allowed is None:
                        continue
                    has = any(r[kind.i_obj] == o_ and r[kind.i_act] == a and (not kind.dom or r[kind.i_dom] == d) for r in perms)
                    if bool(allowed) != has:
                        return [(k, "enforce disagrees with get_implicit_permissions_for_user")]
        # users for permission
        g_roles = {r[1] for r in g}
        cand = []
        for r in g:
            if r[0] not in cand:
                cand.append(r[0])
        for r in p:
            if r[kind.i_sub] not in cand:
                cand.append(r[kind.i_sub])
        cand = [c for c in cand if c not in g_roles]
        for o_ in uni.objs:
            for a in uni.acts:
                i, users = val((62, (d, o_, a) if kind.dom else (o_, a)))
                if users is None:
                    continue
                if len(users) != len(set(users)):
                    return [(i, "get_implicit_users_for_permission reports a user twice")]
                for u in users:
                    if u in g_roles:
                        return [(i, "get_implicit_users_for_permission reports a role")]
                want = []
                for u in cand:
                    key = (50, (u, d, o_, a) if kind.dom else (u, o_, a))
                    if key in res:
                        ok = res[key][1]
                        if ok[0] == 0 and ok[1]:
                            want.append(u)
                    else:
                        want = None
                        break
                if want is not None and sorted(users) != sorted(want):
                    return [(i, "get_implicit_users_for_permission is not exactly the non-role subjects that enforce allows")]
        # inverse views
        for u in uni.subs:
            for r_ in uni.subs:
                if kind.dom:
                    i, roles = val((57, u, d))
                    j, users = val((58, r_, d))
                else:
                    i, roles = val((55, u))
                    j, users = val((56, r_))
                if roles is None or users is None:
                    continue
                if (r_ in roles) != (u in users):
                    return [(j, "get_users_for_role and get_roles_for_user are not inverse views")]
    return out


def exhaustive_rows(kind, max_g, max_p):
    A = mgmt.ATOMS.a
    subs = [A("alice"), A("bob"), A("admin"), A("editor")]
    d = [A("d1")] if kind.dom else []
    glinks = [[a, b] + d for a in subs[:3] for b in subs[1:] if a != b]
    prules = [[s] + d + [A("data1"), A("read")] for s in subs] + [[A("admin")] + d + [A("data2"), A("write")]]
    for ng in range(0, max_g + 1):
        for gs in itertools.combinations(glinks, ng):
            for np_ in range(1, max_p + 1):
                for ps in itertools.combinations(prules, np_):
                    yield [(1, r) for r in gs] + [(0, r) for r in ps]


def run(chk, n, max_g, max_p, cap):
    rng = chk.rng
    for kn in ("rbac", "dom"):
        kind = mgmt.KINDS[kn]
        uni = mgmt.Universe(kind)
        q = query_ops(kind, uni)
        allrows = list(exhaustive_rows(kind, max_g, max_p))
        full = len(allrows)
        if len(allrows) > cap:
            allrows = rng.sample(allrows, cap)
        cases = [(rows, True, q) for rows in allrows]
        mgmt.run_cases(chk, kind, cases, spec_check, label=f"enumerated-{kn}",
                       key_fn=lambda k, r, o: (k.name, repr(r)) if any(pt == 1 for pt, _ in r) else None)
        chk.extra.setdefault("strata", {})[f"enumerated_{kn}"] = dict(run=len(cases), of=full)
        cases = []
        for _ in range(n):
            g = mgmt.Gen(rng, kind)
            rows = g.rows(rng.randint(2, 12))
            cases.append((rows, True, q))
        mgmt.run_cases(chk, kind, cases, spec_check, label=f"random-{kn}",
                       key_fn=lambda k, r, o: (k.name, repr(r)) if any(pt == 1 for pt, _ in r) else None)
        chk.extra["strata"][f"random_{kn}"] = len(cases)


def main():
    chk = Check(PROP)
    chk.rule = ("policies = subsets of 9 role links over {alice,bob,admin,editor} (cycles and chains included) x subsets of 5 "
                "permission rules (enumerated; sampled down to the stated cap in the quick tier) plus random policies of up "
                "to 12 rows over 4 subjects x 2 objects x 2 actions [x 2 domains]; every query of the RBAC API for every "
                "user/object/action/domain, cross-checked against enforce; non-trivial = the policy has at least one role "
                "link; distinct by (kind, policy)")
    chk.assumptions = ["hierarchies are within the depth bound (universe of 4 names < max_hierarchy_level 10)",
                       "allow-override effect and the standard RBAC matcher shapes (the property's premise)"]
    chk.trusted = ["hand-written models coq/theories/{Policy,RoleGraph,Mgmt}.v tied by the differential history correspondence"]
    chk.build(oracle_name="Mgmt")
    if chk.replay_file:
        return mgmt.replay_case(chk, spec_check)
    if chk.tier == "thorough":
        run(chk, 1500, 4, 3, 6000)
    else:
        run(chk, 150, 3, 2, 350)
        if chk.broken() and not chk.spec_failures:
            run(chk, 600, 3, 3, 1500)
    chk.finish()


if __name__ == "__main__":
    main()
