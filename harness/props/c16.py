"""C16 — the readers-writer lock is writer-exclusive, deadlock-free, writer-preferring.

Proof: coq/theories/Props/C16.v (program regenerated from casbin/util/rwlock.py by translators/rwlock.py,
tie theorem `mon_step rwlock_gen = rw_step`, invariant + exclusion / no lost wake-up / deadlock freedom /
termination / writer preference for any number of threads and rounds).
Correspondence: harness/sched.py drives the REAL RWLockWrite (through gen_rlock()/gen_wlock(), as
SyncedEnforcer does) through the interleavings of its mutex / wait / notify steps; after every step the
lock's (_active_readers, _waiting_writers, _writer_active, wait queue, phase of every thread, enabled set)
is compared with the extracted model on the same schedule, and the SPEC predicates (exclusion, lost
wake-up, deadlock, writer preference) are evaluated on the implementation's own states and event traces.
Search: when the translator rejects the file / the tie theorem breaks / the correspondence breaks, the
extracted interpreter is explored breadth-first on the regenerated program for all mixes of <= 4 threads
and the violating schedule found is replayed on the real lock (replay = mix + schedule + events)."""
import itertools
import json
import subprocess
import sys
import time

from .. import sched
from ..core import Check, enc, dec, vm_crosscheck

PROP = "C16"
K = {"r": 0, "w": 1}
PROGRAMS = ["r", "w", "rr", "rw", "wr", "ww"]          # one or two acquire/release rounds
WHAT = {0: "blocked", 1: "entered", 2: "exited"}


def mixes(nthreads, programs=PROGRAMS):
    """all multisets of `nthreads` thread programs (threads are symmetric), as sorted tuples"""
    return [tuple(c) for c in itertools.combinations_with_replacement(programs, nthreads)]


def z(v):
    v = int(v)
    return [1 if v < 0 else 0, abs(v)]


def enc_progs(progs):
    return [[K[k] for k in p] for p in progs]


# ------------------------------------------------------------------ running the real lock
class LockRun:
    """one run of the real RWLockWrite under the controlled scheduler"""

    def __init__(self, progs, step_timeout=30.0, names=None):
        import casbin.util.rwlock as rwmod
        self.progs = progs
        with sched.patched(rwmod):
            self.lock = rwmod.RWLockWrite()
        self.ctl = sched.Controller(step_timeout=step_timeout)
        self.ctl.thread_names = names
        self.pos = [[0, "acq"] for _ in progs]
        self.last = None
        self.monitor = Monitor()

    def body(self, ops):
        lock, pos = self.lock, self.pos

        def run(tid):
            for r, k in enumerate(ops):
                pos[tid] = [r, "acq"]
                with (lock.gen_rlock() if k == "r" else lock.gen_wlock()):
                    pos[tid] = [r, "in"]          # acquire returned: inside the section
                pos[tid] = [r + 1, "acq"]         # release returned
        return run

    def conf(self, ctl):
        """the implementation's configuration in the model's wire format (RWLock.v vconf) + enabled set"""
        lock = self.lock
        try:
            ths = []
            for i, ops in enumerate(self.progs):
                r, stage = self.pos[i]
                st, why = ctl.state(i), ctl.why(i)
                if st == "done":
                    ths.append([[0, 0], []])
                    continue
                k = K[ops[r]]
                rest = [K[x] for x in ops[r + 1:]]
                if stage == "in":
                    ths.append([[3, k], rest])
                elif st == "sleep":
                    ths.append([[1, k], rest])
                elif st == "want" and why == "wake":
                    ths.append([[2, k], rest])
                elif st == "want" and why == "lock":
                    ths.append([[0, 0], [k] + rest])
                else:
                    ths.append([[9, 9], rest])
            return [[z(lock._active_readers), z(lock._waiting_writers), 1 if lock._writer_active else 0,
                     list(lock._cond.waiter_tids()), ths], ctl.enabled()]
        except Exception as e:  # noqa: BLE001 - a field vanished: report, never crash the check
            return [["unobservable", repr(e)], ctl.enabled()]

    def observe(self, ctl):
        o = self.conf(ctl)
        if self.last is not None and ctl.schedule:
            e = event_between(self.last[0], o[0], ctl.schedule[-1])
            if e is not None:
                self.monitor.feed(e)
        self.last = o
        return o

    def key(self):
        """complete description of the state of the run in flight: configuration + enabled set + the history
        the worded writer preference depends on"""
        return json.dumps([self.last, self.monitor.ghost()], separators=(",", ":"))

    def run(self, choose):
        res = self.ctl.run([self.body(p) for p in self.progs], choose, observe=self.observe)
        res.progs = self.progs
        res.names = self.ctl.thread_names
        res.events = events_of(res)
        return res


def events_of(res):
    """one event per step, from the observed phases: [tid, kind, 0 blocked | 1 entered | 2 exited]"""
    ev = []
    for j, tid in enumerate(res.schedule):
        if j + 1 >= len(res.obs):
            break
        e = event_between(res.obs[j][0], res.obs[j + 1][0], tid)
        if e is None:
            break
        ev.append(e)
    return ev


# ------------------------------------------------------------------ SPEC predicates on implementation observations
def state_violation(obs):
    """state predicates on ONE observed configuration of the implementation (who is inside comes from the
    harness' own bookkeeping of acquire/release returns, not from the lock's flags).
    'exclusion' is the property itself.  'sleeper-condition-false' (a thread sleeps in wait() although its wait
    condition is false) is only a DIAGNOSTIC: it is an invariant of the model (C16_no_lost_wakeup), but an
    implementation may violate it transiently and still let every acquire return (e.g. notify() instead of
    notify_all() in release_read); a wake-up that is really lost ends as a deadlock, which IS reported."""
    c = obs[0]
    if c[0] == "unobservable":
        return None
    ar, ww, wa = (-c[0][1] if c[0][0] else c[0][1]), (-c[1][1] if c[1][0] else c[1][1]), c[2]
    phases = [t[0] for t in c[4]]
    nw, nr = phases.count([3, 1]), phases.count([3, 0])
    if nw >= 1 and nw + nr > 1:
        return "exclusion", f"{nw} writer(s) and {nr} reader(s) inside together"
    for i, p in enumerate(phases):
        if p == [1, 0] and not (ww > 0 or wa):
            return "sleeper-condition-false", f"reader {i} sleeps in wait() although no writer is active or waiting"
        if p == [1, 1] and not (ar > 0 or wa):
            return "sleeper-condition-false", f"writer {i} sleeps in wait() although nobody is inside"
    return None


class Monitor:
    """Python mirror of RWLock.v mon_event/spec_trace (cross-checked against the extracted one on every run):
    who is inside, which writers are registered, and for every blocked reader the writers that registered
    before it arrived and have not entered since"""

    def __init__(self):
        self.in_r, self.in_w, self.wait_w, self.wait_r = [], [], [], {}
        self.first = [None, None, None, None]   # exclusion, strong preference, preference as worded, readers share
        self.n = 0

    def feed(self, ev):
        t, k, w = ev
        bad = [False, False, False, False]
        if (k, w) == (0, 0):
            bad[3] = not (self.in_w or self.wait_w)     # a reader blocks only because of a writer
            self.wait_r.setdefault(t, list(self.wait_w))
        elif (k, w) == (1, 0):
            if t not in self.wait_w:
                self.wait_w.append(t)
        elif (k, w) == (0, 1):
            earlier = self.wait_r.pop(t) if t in self.wait_r else list(self.wait_w)
            bad = [bool(self.in_w), bool(self.wait_w), bool(earlier), False]
            self.in_r.insert(0, t)
        elif (k, w) == (1, 1):
            bad[0] = bool(self.in_w or self.in_r)
            self.in_w.insert(0, t)
            self.wait_w = [x for x in self.wait_w if x != t]
            self.wait_r = {r: [x for x in ws if x != t] for r, ws in self.wait_r.items()}
        elif (k, w) == (0, 2):
            self.in_r = [x for x in self.in_r if x != t]
        elif (k, w) == (1, 2):
            self.in_w = [x for x in self.in_w if x != t]
        for i in range(4):
            if bad[i] and self.first[i] is None:
                self.first[i] = self.n
        self.n += 1
        return bad

    def ghost(self):
        """the history the worded preference depends on (part of the state key of the enumeration)"""
        return tuple(sorted((r, tuple(sorted(ws))) for r, ws in self.wait_r.items()))


def py_spec_trace(events):
    m = Monitor()
    for e in events:
        m.feed(e)
    return [[] if f is None else [f] for f in m.first]


def event_between(before, after, tid):
    """event of the step of thread tid between two observed configurations (RWLock.v event_of)"""
    try:
        b, a = before[4][tid][0], after[4][tid][0]
    except (IndexError, TypeError):
        return None
    if a[0] == 1:
        return [tid, a[1], 0]
    if a[0] == 3:
        return [tid, a[1], 1]
    if a[0] == 0 and b[0] == 3:
        return [tid, b[1], 2]
    return [tid, 9, 9]


def describe_events(events):
    return [f"t{t} {'reader' if k == 0 else 'writer' if k == 1 else '?'} {WHAT.get(w, '?')}" for t, k, w in events]


# ------------------------------------------------------------------ oracle access (raw lines: no decoding of bulk replies)
def raw_query(path, reqs):
    if not reqs:
        return []
    data = "\n".join(f"{t} {enc(v)}" for t, v in reqs) + "\n"
    p = subprocess.run(f"ulimit -s unlimited 2>/dev/null; exec {path}", shell=True, input=data,
                       stdout=subprocess.PIPE, stderr=subprocess.PIPE, text=True, timeout=3000)
    lines = p.stdout.splitlines()
    if len(lines) != len(reqs):
        raise RuntimeError(f"oracle returned {len(lines)} lines for {len(reqs)} requests; stderr={p.stderr[-300:]}")
    return lines


class Judge:
    """collects runs, evaluates the spec on them and compares them with the model in batches"""

    def __init__(self, chk):
        self.chk = chk
        self.pending = []
        self.best_fail = {}          # what -> (size key, record)
        self.diag = {}
        self.n_runs = 0
        self.n_blocked = 0
        self.vm_reqs, self.vm_reps = [], []
        self.first_disagreement = None
        self.abstract_diffs = 0
        self.n_disagree = 0
        self.abort = False
        self.n_sampled = 0

    def add(self, res, skip=0, abstract=False):
        """res: RunResult of LockRun.run; skip: number of leading steps already compared in a parent run"""
        chk = self.chk
        self.n_runs += 1
        progs, schedule = list(res.progs), list(res.schedule)
        blocked = any(e[2] == 0 for e in res.events)
        self.n_blocked += blocked
        chk.count((tuple(progs), tuple(schedule)) if (blocked and len(progs) > 1) else None)
        case = dict(progs=progs, schedule=schedule, events=describe_events(res.events), status=res.status)
        if getattr(res, "names", None) is not None:
            case["thread_names"] = list(res.names)
        if res.status == "hang":
            self.abort = True      # a worker may still be spinning: stop driving the real lock altogether
        if res.status in ("error", "hang", "bad-choice"):
            self.fail("acquire/release raised or did not return" if res.status != "bad-choice" else "harness: bad choice",
                      case, dict(status=res.status, errors=res.errors), "every acquire/release returns normally")
        if res.status == "deadlock":
            self.fail("deadlock", case, dict(final=res.obs[-1] if res.obs else None),
                      "while some thread is unfinished some thread can take a step")
        for j in range(min(skip, len(res.obs) - 1), len(res.obs)):
            v = state_violation(res.obs[j])
            if v:
                c2 = dict(case, schedule=schedule[:j], events=describe_events(res.events[:j]))
                self.fail(v[0], c2, dict(state_after_schedule=res.obs[j], detail=v[1]),
                          "a writer inside is alone" if v[0] == "exclusion" else "a sleeper's wait condition holds")
                if v[0] == "exclusion":
                    break
        if blocked and len(progs) >= 3 and (self.n_sampled < 2 or (len(progs) >= 4 and self.n_sampled < 4)) \
                and res.status == "ok":
            self.n_sampled += 1
            chk.sample(dict(case=case, final_state=res.obs[-1] if res.obs else None))
        self.pending.append((res, skip, abstract, case))
        if len(self.pending) >= 4000:
            self.flush()

    DIAGNOSTIC = ("sleeper-condition-false", "strong writer preference")

    def fail(self, what, case, impl, expected):
        """keep the smallest failing case per kind; kinds in DIAGNOSTIC are model invariants that the property
        as worded does not demand: they are recorded in the evidence but are not spec failures"""
        size = (len(case["progs"]), sum(len(p) for p in case["progs"]), len(case["schedule"]))
        book = self.diag if what in self.DIAGNOSTIC else self.best_fail
        cur = book.get(what)
        if cur is None or size < cur[0]:
            book[what] = (size, dict(case=case, impl=impl, expected=expected, what=what))

    def flush(self):
        chk, pend = self.chk, self.pending
        self.pending = []
        if not pend:
            return
        if chk.oracle is None:
            for res, skip, abstract, case in pend:
                self.judge_trace(py_spec_trace(res.events), res, case)
            return
        reqs = []
        for res, skip, abstract, case in pend:
            reqs.append((1, [0, enc_progs(res.progs), res.schedule, skip]))
            reqs.append((3, [res.events]))
            if abstract:
                reqs.append((1, [1, enc_progs(res.progs), res.schedule, skip]))
        lines = raw_query(chk.oracle.path, reqs)
        chk.oracle.calls += len(reqs)
        i = 0
        for res, skip, abstract, case in pend:
            mine = enc(res.obs[skip:]) if skip < len(res.obs) else enc([])
            if lines[i] != mine and self.first_disagreement is None:
                model = dec(lines[i])
                j = next((n for n, (a, b) in enumerate(zip(res.obs[skip:], model)) if a != b),
                         min(len(model), len(res.obs) - skip))
                self.first_disagreement = True
                chk.disagree(dict(case, schedule=res.schedule[:skip + j]),
                             res.obs[skip + j] if skip + j < len(res.obs) else "run ended",
                             model[j] if j < len(model) else "thread not enabled in the model",
                             where=f"state after step {skip + j} of the schedule (interpreter on the regenerated program)")
            elif lines[i] != mine:
                self.n_disagree += 1
                if len(chk.disagreements) < 25:
                    chk.disagreements.append(dict(case=dict(progs=case["progs"], schedule=case["schedule"]),
                                                  where="(further disagreement)"))
            if len(self.vm_reqs) < 400 and (self.n_runs + i) % 37 == 0:
                self.vm_reqs += [reqs[i], reqs[i + 1]]
                self.vm_reps += [dec(lines[i]), dec(lines[i + 1])]
            spec = dec(lines[i + 1])
            if spec == [998]:
                spec = py_spec_trace(res.events)
                if len(chk.disagreements) < 25:
                    chk.disagree(dict(case), res.events, "unclassifiable event", where="event trace of the implementation")
            elif spec != py_spec_trace(res.events):
                chk.disagree(dict(case), py_spec_trace(res.events), spec, where="extracted spec_trace vs its Python mirror")
            self.judge_trace(spec, res, case)
            i += 2
            if abstract:
                if lines[i] != mine:
                    self.abstract_diffs += 1
                    if chk.proof is not None and chk.proof.ok and self.abstract_diffs == 1:
                        chk.disagree(dict(case), "implementation", dec(lines[i])[:3],
                                     where="abstract system rw_step differs from the implementation although the tie theorem holds")
                i += 1
        chk.traces += len(pend)

    def judge_trace(self, spec, res, case):
        names = ("exclusion (event trace)", "strong writer preference",
                 "writer preference (a reader that arrived after a writer registered as waiting entered before it)",
                 "readers do not share (a reader blocked although no writer is inside or registered)")
        for k, name in enumerate(names):
            if spec[k]:
                n = spec[k][0]
                # the event index is the step index (one event per step)
                c2 = dict(case, schedule=res.schedule[:n + 1], events=describe_events(res.events[:n + 1]))
                self.fail(name, c2, dict(offending_event=describe_events(res.events[n:n + 1]),
                                         state_before=res.obs[n] if n < len(res.obs) else None),
                          "spec_trace (RWLock.v) accepts the event trace")

    def finish(self):
        self.flush()
        order = ["exclusion", "exclusion (event trace)", "deadlock"]
        for what in sorted(self.best_fail, key=lambda w: (order.index(w) if w in order else 9, w)):
            rec = self.best_fail[what][1]
            self.chk.spec_fail(rec["case"], rec["impl"], rec["expected"], rec["what"])
        self.best_fail = {}
        for what, (_, rec) in self.diag.items():
            d = self.chk.extra.setdefault("diagnostics_model_invariants_violated_by_impl", {})
            d.setdefault(what, rec)
        self.diag = {}


# ------------------------------------------------------------------ exploration of the real lock
def explore_impl(chk, judge, mix_list, pruned, deadline, stats, label, abstract=False):
    """enumerate schedules of every mix in mix_list on the real lock; pruned = cut at already seen states"""
    t_start = time.time()
    for progs in mix_list:
        if judge.abort:
            stats.setdefault("skipped_" + label, []).append("|".join(progs))
            continue
        if time.time() > deadline:
            stats.setdefault("skipped_" + label, []).append("|".join(progs))
            continue
        # the state key is taken from the observation list of the run in flight
        holder = {}

        def run_once_k(choose, progs=progs, holder=holder):
            lr = LockRun(progs)
            holder["lr"] = lr
            return lr.run(choose)

        def key_k(ctl, holder=holder):
            return holder["lr"].key()

        def on_run(res):
            # steps shared with the parent run were compared there: the new part starts at the last forced choice
            skip = res.forced - 1 if getattr(res, "forced", 0) > 0 else 0
            judge.add(res, skip=skip, abstract=abstract)
            return not judge.abort

        st = sched.explore(run_once_k, key=key_k if pruned else None, deadline=deadline, on_run=on_run)
        d = stats.setdefault(label, dict(mixes=0, runs=0, steps=0, states=0, complete=True, by_status={}))
        d["mixes"] += 1
        d["runs"] += st.runs
        d["steps"] += st.steps
        d["states"] += st.states
        d["complete"] = d["complete"] and st.complete
        for k, v in st.by_status.items():
            d["by_status"][k] = d["by_status"].get(k, 0) + v
        if not st.complete:
            stats.setdefault("incomplete_" + label, []).append("|".join(progs))
    judge.flush()
    if label in stats:
        stats[label]["wall_s"] = round(time.time() - t_start, 1)


def odd_thread_names_stratum(chk, judge, deadline, stats):
    """who the threads ARE is no input of the lock: every interleaving of all mixes of two threads (and three threads x one
    round) again with threads whose names are the empty string, and with threads that all carry the same name"""
    runs = 0
    for names in ([""], ["worker"]):
        for progs in mixes(2) + [m for m in mixes(3) if all(len(p) == 1 for p in m)]:
            if judge.abort or time.time() > deadline:
                stats.setdefault("skipped_odd_thread_names", []).append("|".join(progs))
                continue

            def run_once(choose, progs=progs, names=names):
                return LockRun(progs, names=names).run(choose)

            def on_run(res):
                judge.add(res, skip=res.forced - 1 if getattr(res, "forced", 0) > 0 else 0)
                return not judge.abort

            st = sched.explore(run_once, deadline=deadline, on_run=on_run)
            runs += st.runs
    judge.flush()
    stats["odd_thread_names"] = dict(name_sets=2, runs=runs)


def readers_share_probe(chk, judge, stats):
    """'any number of readers may be inside together' (C16_readers_share / C16_reader_admitted) on the real lock:
    n readers run their acquire one after the other, nobody releases: all n must be inside"""
    sizes = (2, 3, 4, 8, 16)
    for n in sizes:
        if judge.abort:
            break
        progs = ("r",) * n
        res = LockRun(progs).run(sched.follow(list(range(n)), then=lambda ctl, en: None))
        judge.add(res)
    stats["readers_share_probe"] = dict(sizes=list(sizes))


def random_runs(chk, judge, nthreads, n, deadline, stats, label):
    """random schedules of random mixes (seeded): reaches 4-thread mixes in the quick tier"""
    rng = chk.rng
    done = 0
    for _ in range(n):
        if time.time() > deadline or judge.abort:
            break
        progs = tuple(sorted(rng.choice(PROGRAMS) for _ in range(nthreads)))
        res = LockRun(progs).run(lambda ctl, en: en[rng.randrange(len(en))])
        judge.add(res)
        done += 1
    stats[label] = dict(runs=done, threads=nthreads)
    judge.flush()


# ------------------------------------------------------------------ two independent lock objects
class TwoLockRun:
    """Two RWLockWrite objects A and B in one process (SyncedEnforcer creates one per enforcer).  Thread 0 takes B INSIDE its
    section of A; the other threads take A or B alone.  Each lock's guarantees are its own: exclusion is judged per lock on
    the marks the threads set right after an acquire returned and clear right before the release starts (so a mark window is
    inside the real holding window: no false alarm), and every schedule must run to the end."""

    def __init__(self, nest, others, step_timeout=30.0):
        import casbin.util.rwlock as rwmod
        self.nest, self.others = tuple(nest), tuple(tuple(o) for o in others)
        with sched.patched(rwmod):
            self.locks = {"A": rwmod.RWLockWrite(), "B": rwmod.RWLockWrite()}
        self.ctl = sched.Controller(step_timeout=step_timeout)
        self.marks = {}
        self.stage = [0] * (1 + len(self.others))
        self.bad = None

    def gen(self, name, k):
        lock = self.locks[name]
        return lock.gen_rlock() if k == "r" else lock.gen_wlock()

    def mark(self, tid, name, k):
        for (t2, n2), k2 in self.marks.items():
            if n2 == name and t2 != tid and (k == "w" or k2 == "w") and self.bad is None:
                self.bad = dict(lock=name, entered=[tid, k], inside=[t2, k2], after_steps=len(self.ctl.schedule))
        self.marks[(tid, name)] = k
        self.stage[tid] += 1

    def unmark(self, tid, name):
        self.marks.pop((tid, name), None)
        self.stage[tid] += 1

    def bodies(self):
        kA, kB = self.nest

        def nested(tid):
            with self.gen("A", kA):
                self.mark(tid, "A", kA)
                with self.gen("B", kB):
                    self.mark(tid, "B", kB)
                    sched.yield_point()          # the thread stays inside while the others run
                    self.unmark(tid, "B")
                self.unmark(tid, "A")

        def alone(name, k):
            def run(tid):
                with self.gen(name, k):
                    self.mark(tid, name, k)
                    sched.yield_point()
                    self.unmark(tid, name)
            return run
        return [nested] + [alone(n, k) for n, k in self.others]

    def key(self, ctl):
        f = lambda l: [l._active_readers, l._waiting_writers, bool(l._writer_active), list(l._cond.waiter_tids())]
        try:
            fields = [f(self.locks["A"]), f(self.locks["B"])]
        except Exception as e:  # noqa: BLE001
            fields = repr(e)
        return json.dumps([fields, self.stage, sorted([t, n, k] for (t, n), k in self.marks.items()),
                           [[ctl.state(i), ctl.why(i)] for i in range(len(self.stage))], ctl.enabled()])

    def run(self, choose):
        res = self.ctl.run(self.bodies(), choose)
        res.bad = self.bad
        return res


def two_locks_cases():
    for nest in itertools.product("rw", repeat=2):
        for k1 in "rw":
            yield nest, (("B", k1),)
            yield nest, (("B", k1), ("A", "w"))
        yield nest, (("B", "w"), ("B", "r"))


def two_locks_verdict(res):
    if res.bad is not None:
        return ("exclusion (two lock objects)", dict(violation=res.bad), "a writer inside a lock is alone in THAT lock, whatever "
                "other lock objects the threads hold")
    if res.status != "ok" and res.status != "stopped":
        return ("acquire/release did not return (two lock objects)", dict(status=res.status, errors=res.errors),
                "with a consistent lock order every acquire returns")
    return None


def two_locks_stratum(chk, deadline, stats):
    runs = states = 0
    complete = True
    for nest, others in two_locks_cases():
        if time.time() > deadline or chk.spec_failures:
            complete = False
            break
        holder = {}

        def run_once(choose, nest=nest, others=others, holder=holder):
            holder["r"] = TwoLockRun(nest, others)
            return holder["r"].run(choose)

        def on_run(res, nest=nest, others=others):
            v = two_locks_verdict(res)
            if v and not any(f["case"].get("stratum") == "two-locks" for f in chk.spec_failures):
                chk.spec_fail(dict(stratum="two-locks", nest=list(nest), others=[list(o) for o in others], schedule=list(res.schedule)),
                              v[1], v[2], v[0])
                return False
            return True

        st = sched.explore(run_once, key=lambda ctl, holder=holder: holder["r"].key(ctl), deadline=deadline, on_run=on_run)
        runs += st.runs
        states += st.states
        complete = complete and st.complete
        chk.count(("two-locks", nest, others))
    stats["two_lock_objects"] = dict(cases=len(list(two_locks_cases())), runs=runs, states=states, complete=complete)


# ------------------------------------------------------------------ search on the model (extracted interpreter)
def ghost_step(c, tid, c2, ghost):
    """history the worded preference depends on, along one model transition: ghost = ((reader, (writers that
    registered before it arrived and have not entered since)), ...); returns (ghost', worded preference violated)"""
    e = event_between(c, c2, tid)
    if e is None or e[1] == 9:
        return ghost, False
    waiting = tuple(i for i, t in enumerate(c[4]) if t[0] in ([1, 1], [2, 1]))
    g = dict(ghost)
    bad = False
    if (e[1], e[2]) == (0, 0):
        g.setdefault(tid, waiting)
    elif (e[1], e[2]) == (0, 1):
        earlier = g.pop(tid) if tid in g else waiting
        bad = bool(earlier)
    elif (e[1], e[2]) == (1, 1):
        g = {r: tuple(x for x in ws if x != tid) for r, ws in g.items()}
    return tuple(sorted(g.items())), bad


def model_bfs(chk, mix_list, deadline, which=0, max_states=3_000_000):
    """level-synchronous BFS over all mixes at once on the extracted step function (tag 2); a node is a model
    configuration + the arrival history the worded writer preference depends on.
    returns (stats, violations) with violations = [(what, progs, schedule)] (shortest per kind per mix)"""
    path = chk.oracle.path
    inits = [dec(l) for l in raw_query(path, [(5, [enc_progs(p)]) for p in mix_list])]
    parent = {}
    frontier = []
    for m, c in enumerate(inits):
        k = (m, enc(c), ())
        parent[k] = None
        frontier.append((k, c))
    viol, seen_kinds = [], set()
    states = transitions = levels = 0
    complete = True
    while frontier:
        if time.time() > deadline or states > max_states:
            complete = False
            break
        levels += 1
        states += len(frontier)
        lines = raw_query(path, [(2, [which, c]) for _, c in frontier])
        nxt = []
        for (k, c), line in zip(frontier, lines):
            m, _, ghost = k
            for tid, c2, pref, excl_ok, dead, lost in dec(line):
                transitions += 1
                g2, worded = ghost_step(c, tid, c2, ghost)
                k2 = (m, enc(c2), g2)
                new = k2 not in parent
                if new:
                    parent[k2] = (k, tid)
                for bad, what in ((worded, "writer preference"), (pref, "strong writer preference"),
                                  (not excl_ok, "exclusion"), (dead, "deadlock"), (lost, "sleeper-condition-false")):
                    if bad and (m, what) not in seen_kinds:
                        seen_kinds.add((m, what))
                        sch, kk = [tid], k
                        while parent[kk] is not None:
                            kk, t = parent[kk]
                            sch.append(t)
                        viol.append((what, mix_list[m], sch[::-1]))
                if new:
                    nxt.append((k2, c2))
        frontier = nxt
    chk.oracle.calls += states
    return dict(mixes=len(mix_list), states=states, transitions=transitions, levels=levels, complete=complete), viol


def replay_on_impl(progs, schedule, names=None):
    res = LockRun(tuple(progs), names=names).run(sched.follow(list(schedule), then=lambda ctl, en: None))
    return res


def search_and_replay(chk, judge, mix_list, deadline, stats, label):
    """BFS on the model for a violation; replay what it finds on the real lock (the judge evaluates the spec
    on the implementation's own trace, so only a violation the implementation really shows is reported)"""
    if chk.oracle is None:
        return
    t_start = time.time()
    st, viol = model_bfs(chk, mix_list, deadline)
    st["wall_s"] = round(time.time() - t_start, 1)
    stats[label] = st
    st["model_violations"] = len(viol)
    prio = {"exclusion": 0, "deadlock": 0, "writer preference": 0}
    viol.sort(key=lambda v: (prio.get(v[0], 1), len(v[1]), sum(len(p) for p in v[1]), len(v[2])))
    for what, progs, schedule in viol[:40]:
        if judge.abort:
            break
        res = replay_on_impl(progs, schedule)
        judge.add(res)
    judge.flush()
    if viol:
        chk.notes.append(f"model search ({label}): {len(viol)} violating schedule(s) of the regenerated program, "
                         f"first: {viol[0][0]} on {'|'.join(viol[0][1])} schedule {viol[0][2]}; replayed on the real lock")


# ------------------------------------------------------------------ main
def replay(chk):
    rec = json.load(open(chk.replay_file))
    c = rec.get("case") or {}
    if c.get("stratum") == "two-locks":
        res = TwoLockRun(c["nest"], c["others"]).run(sched.follow(list(c["schedule"]), then=lambda ctl, en: None))
        v = two_locks_verdict(res)
        print(f"replay: two lock objects, thread 0 takes B({c['nest'][1]}) inside A({c['nest'][0]}), others {c['others']}; "
              f"schedule={res.schedule} status={res.status}")
        if v:
            print(f"   violated: {v[0]}: {json.dumps(v[1])[:300]}")
            print(f"VIOLATION property={chk.prop} replay={chk.replay_file}")
            sys.exit(1)
        print("replay passes: the implementation satisfies the spec on this schedule")
        sys.exit(0)
    if "schedule" not in c or "progs" not in c:
        print("replay file names a broken theorem/correspondence, not an input:", json.dumps(rec.get("broken"))[:800])
        sys.exit(1)
    judge = Judge(chk)
    res = replay_on_impl(c["progs"], c["schedule"], names=c.get("thread_names"))
    print(f"replay: mix={'|'.join(c['progs'])} schedule={res.schedule} status={res.status}")
    for line in describe_events(res.events):
        print("   ", line)
    print(f"   final state: {res.obs[-1] if res.obs else None}")
    if res.schedule != list(c["schedule"])[:len(res.schedule)] or len(res.schedule) < len(c["schedule"]):
        print(f"   (the recorded schedule could only be followed for {len(res.schedule)} of {len(c['schedule'])} steps)")
    judge.add(res)
    judge.finish()
    if chk.spec_failures:
        print(f"   violated: {chk.spec_failures[0]['what']}")
        print(f"VIOLATION property={chk.prop} replay={chk.replay_file}")
        sys.exit(1)
    if chk.disagreements:
        print(f"   implementation and model differ: {chk.disagreements[0].get('where')}")
    print("replay passes: the implementation satisfies the spec on this schedule")
    sys.exit(0)


def run(chk, tier, t_budget, escalate=False):
    stats = chk.extra.setdefault("coverage_detail", {})
    judge = Judge(chk)
    t0 = time.time()
    deadline = t0 + t_budget
    m1, m2, m3, m4 = mixes(1), mixes(2), mixes(3), mixes(4)
    rounds = lambda m: sum(len(p) for p in m)
    one_round = lambda ms: [m for m in ms if all(len(p) == 1 for p in m)]
    if escalate:
        # the proof / translator / correspondence is broken and the quick strata found no failing input:
        # search the model first (complete for <= 4 threads in about a minute), replay what it finds ...
        if chk.oracle is not None:
            search_and_replay(chk, judge, m1 + m2 + m3 + m4, t0 + t_budget * 0.6, stats, "escalated_model_bfs_le4threads")
        judge.finish()
        if not chk.spec_failures:
            # ... then cover as many 4-thread states of the real lock as the remaining time allows
            with sched.pinned_cpu():
                explore_impl(chk, judge, m4, True, deadline, stats, "escalated_statecover_4threads")
    else:
        with sched.pinned_cpu():
            two_locks_stratum(chk, t0 + t_budget * 0.15, stats)
            odd_thread_names_stratum(chk, judge, t0 + t_budget * 0.3, stats)
            readers_share_probe(chk, judge, stats)
            # A: EVERY interleaving of the small mixes
            explore_impl(chk, judge, m1 + m2 + one_round(m3), False, deadline, stats, "full_le2threads_and_3x1")
            # B: every reachable state and transition of all mixes of 3 threads x <= 2 rounds
            explore_impl(chk, judge, m3, True, deadline, stats, "statecover_3threads", abstract=True)
            if tier == "thorough":
                explore_impl(chk, judge, one_round(m4), False, t0 + t_budget * 0.35, stats, "full_4x1")
                explore_impl(chk, judge, m4, True, t0 + t_budget * 0.75, stats, "statecover_4threads", abstract=True)
                explore_impl(chk, judge, [m for m in m3 if rounds(m) > 3], False, deadline, stats,
                             "full_3threads_2rounds")
            else:
                explore_impl(chk, judge, one_round(m4), True, deadline, stats, "statecover_4x1", abstract=True)
                explore_impl(chk, judge, [m for m in m3 if rounds(m) == 4], False, t0 + t_budget * 0.8, stats,
                             "full_3threads_4rounds")
                random_runs(chk, judge, 4, 1500, deadline, stats, "random_4threads")
        # C: the model itself, searched breadth-first (always: it is the evidence that the search works)
        if chk.oracle is not None:
            if tier == "thorough":
                search_and_replay(chk, judge, m1 + m2 + m3 + m4, time.time() + 300, stats, "model_bfs_le4threads")
            else:
                search_and_replay(chk, judge, m1 + m2 + m3 + one_round(m4), time.time() + 40, stats,
                                  "model_bfs_le3threads_and_4x1")
    judge.finish()
    chk.extra["runs_on_real_lock"] = chk.extra.get("runs_on_real_lock", 0) + judge.n_runs
    chk.extra["runs_with_contention"] = chk.extra.get("runs_with_contention", 0) + judge.n_blocked
    chk.extra["abstract_system_differs_on_runs"] = judge.abstract_diffs
    chk.extra["further_disagreeing_runs"] = chk.extra.get("further_disagreeing_runs", 0) + judge.n_disagree
    chk.exhaustive = all(v.get("complete", True) for v in stats.values() if isinstance(v, dict)) \
        and not any(k.startswith(("skipped_", "incomplete_")) for k in stats)
    if judge.vm_reqs and not escalate:
        k = 120 if tier == "quick" else 400
        ok, n, log = vm_crosscheck(chk.prop, "From PyCasbin Require Import Base RWLock.", "oracle_C16",
                                   judge.vm_reqs[:k], judge.vm_reps[:k], chunk=200)
        chk.vm_checked += n
        if not ok:
            chk.disagree(dict(kind="extraction-vs-vm_compute"), "extracted oracle", log, where="vm_compute cross-check")


def main():
    chk = Check(PROP)
    chk.rule = ("a case = (mix, schedule): a multiset of <= 4 threads, each doing one or two acquire/release rounds "
                "(programs r, w, rr, rw, wr, ww through gen_rlock()/gen_wlock()), and a schedule = the thread chosen "
                "at each mutex hand-over of the REAL RWLockWrite under harness/sched.py. Strata: every interleaving "
                "of all mixes of <= 2 threads, of 3 threads x 1 round and of 3 threads with 4 rounds in total (thorough: "
                "4 threads x 1 round, and 3 threads x 2 rounds as far as the time budget goes); state-covering "
                "enumeration (every reachable state and transition, runs cut at already-seen states, the state including "
                "the arrival history that the worded writer preference depends on) of all mixes of 3 threads (quick) / "
                "4 threads (thorough); seeded random schedules of 4-thread mixes; n readers entering together for "
                "n up to 16; breadth-first search of the extracted model (<= 3 threads quick, <= 4 thorough). "
                "A case is non-trivial when >= 2 threads run and at least one acquire blocked in wait(); distinct by "
                "(mix, schedule)")
    chk.assumptions = [
        "threading.RLock/Condition are modelled as a Mesa monitor (RWLock.v M1-M5: atomic release-and-wait, "
        "notify_all wakes all sleepers who then contend for the mutex, notify is FIFO, no spurious wake-ups, "
        "non-reentrant use); on the implementation side the same semantics is what harness/sched.py's doubles provide",
        "one step = one monitor segment; sound because the translator checks that every access to the three fields "
        "is inside `with self._lock`",
        "sections are invisible to the lock and holders release (a thread inside is always enabled)",
        "translator translators/rwlock.py renders the accepted Python subset faithfully (fail-closed otherwise)",
    ]
    chk.trusted = ["translator: translators/rwlock.py (Python ast -> coq/gen/RWLockGen.v, regenerated on this run)",
                   "harness/sched.py cooperative doubles of RLock/Condition (correspondence only)"]
    chk.build(translators=["rwlock"])
    if chk.replay_file:
        return replay(chk)
    if chk.tier == "thorough":
        run(chk, "thorough", 900)
    else:
        run(chk, "quick", 75)
        if (chk.broken() or chk.anchor_changed) and not chk.spec_failures:
            chk.notes.append("escalated: model search <= 4 threads + 4-thread state cover on the real lock")
            run(chk, "quick", 110, escalate=True)
    if chk.notes:
        chk.extra["notes"] = chk.notes
    chk.finish()


if __name__ == "__main__":
    main()
