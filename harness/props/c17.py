"""C17 — SyncedEnforcer calls are atomic and equivalent to the plain enforcer.

Proof: coq/theories/Props/C17.v — (A) for the abstract concurrent machine of Synced.v (Invoke / Enter guarded by the
readers-writer specification C16 proves / Micro / Exit), any number of threads and any call lists: a writer runs
alone, no dirty read, linearizability with linearisation point Enter; (B) kernel-checked facts about the wrapper
table regenerated from casbin/synced_enforcer.py by translators/synced.py on this run (lock mode, same-named target,
argument forwarding, return forwarding, signature, coverage of the plain API by the hand classification).

Tie to the running code (this module):
  (i)   the table is regenerated and the cone of Props/C17.v rebuilt (Check.build);
  (ii)  the hand classification `mutating` is validated dynamically: every public Enforcer method classified
        reading / stateless is run on generated enforcer states of four model kinds and deep snapshots of policy,
        role links, model and configuration are compared before/after;
  (iii) every wrapper is called on a real SyncedEnforcer and on a plain Enforcer with the same generated arguments:
        results and resulting states must be equal; the wrapped enforcer is replaced by a recording proxy and the
        lock's transitions are bracketed by snapshots, so that the lock state at every touch of the wrapped enforcer
        and the lock held while the state changes are observed (SPEC: a mutating method runs under the write lock,
        a reading one under the read or write lock, state changes only inside write sections);
  (iv)  2-3 real threads x 1-3 calls run under the controlled scheduler (harness/sched.py) through all lock-step
        interleavings; the observed event sequence is fed to the extracted monitor (oracle tag 3: the machine with
        the lock modes REQUIRED by the hand classification) and the outcome (return values, final policy / role
        links / model / configuration, decisions on a request grid) must be the outcome of a one-at-a-time order
        of the same calls on a fresh plain Enforcer that respects real-time precedence (admissible orders: oracle
        tag 4); the order the linearizability theorem constructs (order of Enter) is tried first.
        The auto-load thread is covered by running the body of _auto_load_policy from a controlled thread.
  (v)   lock-discipline probes: for every wrapper, a schedule in which another thread is parked INSIDE a read
        section / a write section while the wrapper is called (catches calls that take a too weak lock or none)."""
import inspect
import itertools
import json
import sys
import threading
import time

from .. import sched
from ..core import Check, REPO, wstr, vm_crosscheck

PROP = "C17"

FAULT_TEXT = {
    1: "target is not a classified public Enforcer method", 2: "wrapper and target have different names",
    3: "mutating target under the READ lock", 4: "state-touching target under NO lock",
    5: "arguments not forwarded exactly once, in order", 6: "the target's return value is dropped",
    7: "signature incompatible with the target's", 8: "inline body touches the wrapped enforcer with no lock",
    9: "inline body touches the wrapped enforcer under the read lock",
    10: "calls another wrapper while holding the (non re-entrant) lock",
    11: "uses internal state obtained from a wrapper after the lock was released"}

# ----------------------------------------------------------------------------- models and states
HEAD = "[request_definition]\nr = {r}\n\n[policy_definition]\np = {p}\n\n"
TAIL = "[policy_effect]\ne = some(where (p.eft == allow))\n\n[matchers]\nm = {m}\n"
MODELS = {
    "acl": HEAD.format(r="sub, obj, act", p="sub, obj, act") + TAIL.format(
        m="r.sub == p.sub && r.obj == p.obj && r.act == p.act"),
    "rbac": HEAD.format(r="sub, obj, act", p="sub, obj, act") + "[role_definition]\ng = _, _\n\n" + TAIL.format(
        m="g(r.sub, p.sub) && r.obj == p.obj && r.act == p.act"),
    "dom": HEAD.format(r="sub, dom, obj, act", p="sub, dom, obj, act") + "[role_definition]\ng = _, _, _\n\n" + TAIL.format(
        m="g(r.sub, p.sub, r.dom) && r.dom == p.dom && r.obj == p.obj && r.act == p.act"),
    "cond": HEAD.format(r="sub, obj, act", p="sub, obj, act") + "[role_definition]\ng = _, _, (_, _)\n\n" + TAIL.format(
        m="g(r.sub, p.sub) && r.obj == p.obj && r.act == p.act"),
}
ROWS = {
    "acl": [["p", "alice", "data1", "read"], ["p", "bob", "data2", "write"]],
    "rbac": [["p", "alice", "data1", "read"], ["p", "admin", "data2", "write"], ["p", "editor", "data1", "write"],
             ["g", "alice", "admin"], ["g", "bob", "editor"]],
    "dom": [["p", "admin", "d1", "data1", "read"], ["p", "admin", "d2", "data2", "write"], ["p", "bob", "d1", "data2", "read"],
            ["g", "alice", "admin", "d1"], ["g", "bob", "admin", "d2"]],
    "cond": [["p", "alice", "data1", "read"], ["p", "admin", "data2", "write"],
             ["g", "alice", "admin", "_", "_"], ["g", "bob", "admin", "true", "false"]],
}
# two more kinds, used by the preemption stratum only: role / domain PATTERNS (matching functions installed at build)
MODELS["pat"] = MODELS["rbac"]
MODELS["dompat"] = MODELS["dom"]
ROWS["pat"] = [["p", "book_group", "data1", "read"], ["p", "readers", "data2", "read"], ["p", "/book/1", "data2", "write"],
               ["g", "/book/:id", "book_group"], ["g", "book_group", "readers"], ["g", "/book/*", "pen_group"]]
ROWS["dompat"] = [["p", "admin", "d1", "data1", "read"], ["p", "root", "d1", "data2", "read"], ["p", "bob", "d1", "data2", "read"],
                  ["g", "alice", "admin", "*"], ["g", "admin", "root", "d1"], ["g", "bob", "admin", "d2"]]
KINDS = ["acl", "rbac", "dom", "cond"]


def is_dom(kind):
    return kind in ("dom", "dompat")
USERS, ROLES, OBJS, ACTS, DOMS = ["alice", "bob", "carol"], ["admin", "editor"], ["data1", "data2"], ["read", "write"], ["d1", "d2"]


def has_g(kind):
    return kind != "acl"


def match_any(*args):          # a named matching / link-condition function (compared by name)
    return True


def cond_true(*args):
    return len(args) == 0 or args[0] in ("_", "true")


FUNCS = {"match_any": match_any, "cond_true": cond_true}


import casbin                     # noqa: E402  (VERIF_REPO / /repo is first on PYTHONPATH)
from casbin import persist        # noqa: E402


def _casbin():
    return casbin


class MemAdapter(persist.Adapter):
    """in-memory adapter (load / save / incremental / filtered), one private row list per enforcer"""

    def __init__(self, rows):
        self.rows = [list(r) for r in rows]
        self._filtered = False

    def load_policy(self, model):
        for r in self.rows:
            persist.load_policy_line(", ".join(r), model)
        self._filtered = False

    def load_filtered_policy(self, model, filter):
        for r in self.rows:
            want = getattr(filter, r[0][0], [])
            if all(i >= len(want) or want[i] == "" or want[i] == r[1 + i] for i in range(len(r) - 1)):
                persist.load_policy_line(", ".join(r), model)
        self._filtered = True

    def is_filtered(self):
        return self._filtered

    def save_policy(self, model):
        rows = []
        for sec in ("p", "g"):
            for ptype, ast in model.model.get(sec, {}).items():
                rows += [[ptype] + list(r) for r in ast.policy]
        self.rows = rows
        return True

    def add_policy(self, sec, ptype, rule):
        self.rows.append([ptype] + list(rule))

    def remove_policy(self, sec, ptype, rule):
        row = [ptype] + list(rule)
        if row in self.rows:
            self.rows.remove(row)

    def remove_filtered_policy(self, sec, ptype, field_index, *field_values):
        def hit(r):
            return r[0] == ptype and all(v == "" or (1 + field_index + i < len(r) and r[1 + field_index + i] == v)
                                         for i, v in enumerate(field_values))
        self.rows = [r for r in self.rows if not hit(r)]


class Filter:
    def __init__(self, p, g):
        self.p, self.g = p, g


class NullWatcher:
    def set_update_callback(self, cb):
        pass

    def update(self):
        pass


def new_model(kind):
    m = _casbin().Model()
    m.load_model_from_text(MODELS[kind])
    return m


def build(kind, synced=False, rows=None):
    c = _casbin()
    ad = MemAdapter(ROWS[kind] if rows is None else rows)
    e = (c.SyncedEnforcer if synced else c.Enforcer)(new_model(kind), ad)
    if kind in ("pat", "dompat"):
        from casbin.util import key_match2_func, key_match_func
        inner = e._e if synced else e
        if kind == "pat":
            inner.add_named_matching_func("g", key_match2_func)
        else:
            inner.add_named_domain_matching_func("g", key_match_func)
    return e


# ----------------------------------------------------------------------------- argument specs (JSON-able) and calls
def mat(spec, kind):
    """materialise an argument spec into a fresh python value"""
    if isinstance(spec, dict):
        k = spec["$"]
        if k == "adapter":
            return MemAdapter(ROWS[kind])
        if k == "model":
            return new_model(spec.get("kind", kind))
        if k == "rm":
            from casbin.rbac import default_role_manager
            return default_role_manager.RoleManager(10)
        if k == "fn":
            return FUNCS[spec["name"]]
        if k == "filter":
            return Filter(spec["p"], spec["g"])
        if k == "eft":
            from casbin.effect import get_effector
            return get_effector("some(where (p_eft == allow))")
        if k == "watcher":
            return NullWatcher()
        if k == "op_add":
            from casbin.model.policy_op import PolicyOp
            return PolicyOp.Policy_add
        if k == "op_remove":
            from casbin.model.policy_op import PolicyOp
            return PolicyOp.Policy_remove
        raise ValueError(spec)
    if isinstance(spec, list):
        return [mat(x, kind) for x in spec]
    return spec


def p_rule(rng, kind, fresh=None):
    fresh = rng.random() < 0.5 if fresh is None else fresh
    ex = [r[1:] for r in ROWS[kind] if r[0] == "p"]
    if not fresh:
        return list(rng.choice(ex))
    sub = rng.choice(USERS + ROLES)
    return [sub] + ([rng.choice(DOMS)] if kind == "dom" else []) + [rng.choice(OBJS), rng.choice(ACTS)]


def g_rule(rng, kind, fresh=None):
    fresh = rng.random() < 0.5 if fresh is None else fresh
    ex = [r[1:] for r in ROWS[kind] if r[0] == "g"]
    if ex and not fresh:
        return list(rng.choice(ex))
    base = [rng.choice(USERS), rng.choice(ROLES)]
    if kind == "dom":
        base.append(rng.choice(DOMS))
    if kind == "cond":
        base += ["_", "_"]
    return base


def request(rng, kind):
    return [rng.choice(USERS)] + ([rng.choice(DOMS)] if kind == "dom" else []) + [rng.choice(OBJS), rng.choice(ACTS)]


def perm(rng, kind):
    return ([rng.choice(DOMS)] if kind == "dom" else []) + [rng.choice(OBJS), rng.choice(ACTS)]


def degenerate_filter(rng, a, k):
    """w.p. 0.12 the filter carries no field value at all, or blanks only (a[:k] = the arguments before the values)"""
    u = rng.random()
    if u < 0.06:
        return a[:k]
    if u < 0.12:
        return a[:k] + [""] * rng.randint(1, 2)
    return a


def gen_call(rng, kind, name, sig_names, variant=0):
    """a call spec {m, a, k} for method `name`; sig_names = the plain method's parameter names (informative).
    variant 0: all optional arguments given; 1: minimal positional; 2: optional ones as keywords"""
    n = name
    grouping = "grouping" in n
    user = rng.choice(USERS)
    role = rng.choice(ROLES)
    dom = rng.choice(DOMS)
    a, k = [], {}
    rule = (lambda fresh=None: g_rule(rng, kind, fresh)) if grouping else (lambda fresh=None: p_rule(rng, kind, fresh))
    pt = "g" if grouping else "p"
    if n in ("add_policy", "add_grouping_policy", "has_policy", "has_grouping_policy", "remove_policy", "remove_grouping_policy"):
        a = rule(True if n.startswith("add") and rng.random() < 0.7 else None)
    elif n in ("add_named_policy", "add_named_grouping_policy", "has_named_policy", "has_named_grouping_policy",
               "remove_named_policy", "remove_named_grouping_policy"):
        a = [pt] + rule(True if n.startswith("add") and rng.random() < 0.7 else None)
    elif n in ("add_policies", "add_grouping_policies", "remove_policies", "remove_grouping_policies"):
        a = [[rule() for _ in range(rng.randint(1, 2))]]
    elif n in ("add_named_policies", "add_named_grouping_policies", "remove_named_policies", "remove_named_grouping_policies"):
        a = [pt, [rule() for _ in range(rng.randint(1, 2))]]
    elif n in ("update_policy", "update_named_policy"):
        a = ([pt] if "named" in n else []) + [rule(False), rule(True)]
    elif n in ("update_policies", "update_named_policies"):
        a = ([pt] if "named" in n else []) + [[rule(False)], [rule(True)]]
    elif n in ("update_filtered_policies", "update_filtered_named_policies"):
        a = ([pt] if "named" in n else []) + [[rule(True)], 0, rng.choice(USERS + ROLES)]
    elif n in ("get_filtered_policy", "get_filtered_grouping_policy", "remove_filtered_policy", "remove_filtered_grouping_policy"):
        a = [0, rng.choice(USERS + ROLES)] if rng.random() < 0.6 else [1, rng.choice(ROLES if grouping else (DOMS if kind == "dom" else OBJS))]
        a = degenerate_filter(rng, a, 1)
    elif n in ("get_filtered_named_policy", "get_filtered_named_grouping_policy", "remove_filtered_named_policy",
               "remove_filtered_named_grouping_policy"):
        a = [pt, 0, rng.choice(USERS + ROLES)] if rng.random() < 0.6 else \
            [pt, 1, rng.choice(ROLES if grouping else (DOMS if kind == "dom" else OBJS))]
        a = degenerate_filter(rng, a, 2)
    elif n in ("get_named_policy", "get_all_named_subjects", "get_all_named_objects", "get_all_named_actions"):
        a = ["p"]
    elif n in ("get_named_grouping_policy", "get_all_named_roles", "get_named_role_manager"):
        a = ["g"]
    elif n in ("enforce", "enforce_ex"):
        a = request(rng, kind)
    elif n == "batch_enforce":
        a = [[request(rng, kind) for _ in range(2)]]
    elif n in ("get_roles_for_user", "get_users_for_role", "delete_user", "delete_role", "delete_roles_for_user",
               "delete_permissions_for_user", "get_permissions_for_user"):
        a = [rng.choice(ROLES) if n in ("get_users_for_role", "delete_role") else user]
        if kind == "dom" and n in ("get_roles_for_user", "get_users_for_role") and variant != 1 and "domain" in sig_names:
            a.append(dom)
    elif n in ("has_role_for_user", "add_role_for_user", "delete_role_for_user"):
        a = [user, role]
    elif n in ("add_role_for_user_in_domain", "delete_roles_for_user_in_domain"):
        a = [user, role, dom]
    elif n in ("get_roles_for_user_in_domain", "get_permissions_for_user_in_domain"):
        a = [user, dom]
    elif n == "get_users_for_role_in_domain":
        a = [role, dom]
    elif n == "get_named_permissions_for_user_in_domain":
        a = ["p", user, dom]
    elif n in ("add_permission_for_user", "delete_permission_for_user", "has_permission_for_user"):
        a = [rng.choice(USERS + ROLES)] + perm(rng, kind)
    elif n in ("delete_permission", "get_implicit_users_for_permission"):
        a = perm(rng, kind)
    elif n in ("get_implicit_roles_for_user", "get_implicit_permissions_for_user", "get_named_implicit_permissions_for_user"):
        a = (["p"] if "named" in n else []) + [user]
        if variant == 0:
            a.append(dom if kind == "dom" else "")
            if "permissions" in n:
                k["filter_policy_dom"] = rng.random() < 0.5
        elif variant == 2 and kind == "dom":
            k["domain"] = dom
    elif n == "get_all_roles_by_domain":
        a = [dom]
    elif n == "get_implicit_users_for_resource":
        a = [rng.choice(OBJS)]
    elif n == "get_implicit_users_for_resource_by_domain":
        a = [rng.choice(OBJS), dom]
    elif n == "get_allowed_object_conditions":
        a = [user, rng.choice(ACTS), "r.obj."]
    elif n in ("get_field_index", "set_field_index"):
        a = ["p", rng.choice(["sub", "obj", "act"])] + ([rng.randint(0, 2)] if n.startswith("set") else [])
    elif n in ("add_named_matching_func", "add_named_domain_matching_func"):
        a = ["g" if rng.random() < 0.8 else "g9", {"$": "fn", "name": "match_any"}]
    elif n == "add_named_link_condition_func":
        a = ["g", "bob", "admin", {"$": "fn", "name": "cond_true"}]
    elif n == "add_named_domain_link_condition_func":
        a = ["g", "bob", "admin", dom, {"$": "fn", "name": "cond_true"}]
    elif n == "set_named_link_condition_func_params":
        a = ["g", "bob", "admin", "true", "x"]
    elif n == "set_named_domain_link_condition_func_params":
        a = ["g", "bob", "admin", dom, "true"]
    elif n == "add_function":
        a = ["my_fn", {"$": "fn", "name": "match_any"}]
    elif n in ("enable_enforce", "enable_auto_save", "enable_auto_build_role_links", "enable_auto_notify_watcher"):
        if not (n == "enable_enforce" and variant == 1):
            a = [rng.random() < 0.5]
    elif n == "new_enforce_context":
        a = [rng.choice(["", "2"])]
    elif n == "load_filtered_policy" or n == "load_increment_filtered_policy":
        a = [{"$": "filter", "p": [rng.choice(USERS + ROLES)], "g": []}]
    elif n == "set_adapter":
        a = [{"$": "adapter"}]
    elif n == "set_model":
        a = [{"$": "model"}]
    elif n == "set_watcher":
        a = [{"$": "watcher"}]
    elif n == "set_effector":
        a = [{"$": "eft"}]
    elif n == "set_role_manager":
        a = [{"$": "rm"}]
    elif n == "set_named_role_manager":
        a = ["g", {"$": "rm"}]
    elif n == "build_incremental_role_links":
        a = [{"$": "op_add"}, "g", [g_rule(rng, kind, True)]]
    elif n == "_auto_load_policy":
        a = []
    return dict(m=n, a=a, k=k)


class Raised:
    def __init__(self, e):
        self.e = e


def do_call(target, spec, kind, plain):
    """perform one call spec on a SyncedEnforcer (plain=False) or on a plain Enforcer (plain=True)"""
    m, a, k = spec["m"], mat(spec["a"], kind), {x: mat(v, kind) for x, v in spec.get("k", {}).items()}
    try:
        if m == "_auto_load_policy":
            if plain:
                # one iteration of the auto-load loop on the plain enforcer: load_policy, errors only logged
                try:
                    target.load_policy()
                except Exception:  # noqa: BLE001
                    pass
                return None
            return run_auto_load_body(target)
        if m == "build_incremental_role_links" and plain:
            # what the wrapper is documented to do, on the plain enforcer
            return target.get_model().build_incremental_role_links(target.get_role_manager(), a[0], "g", a[1], a[2])
        return getattr(target, m)(*a, **k)
    except sched.Abort:
        raise
    except Exception as e:  # noqa: BLE001 - exceptions are observations
        return Raised(e)


class _TimeStub:
    """stand-in for the `time` module inside casbin.synced_enforcer (installed once, for the whole check): while a
    thread runs the auto-load body for enforcer `se`, its first sleep() ends the loop after the current iteration,
    so the loop body runs exactly once; every other use is forwarded to the real module"""
    cur = threading.local()

    def sleep(self, interval):
        se = getattr(_TimeStub.cur, "se", None)
        if se is None:
            return time.sleep(interval)
        se._auto_loading.value = False

    def __getattr__(self, n):
        return getattr(time, n)


def run_auto_load_body(se):
    import casbin.synced_enforcer as mod
    if not isinstance(mod.time, _TimeStub):
        mod.time = _TimeStub()
    se._auto_loading.value = True
    _TimeStub.cur.se = se
    try:
        return se._auto_load_policy(0)
    finally:
        _TimeStub.cur.se = None


# ----------------------------------------------------------------------------- canonical values, snapshots
def canon(v, depth=0):
    if isinstance(v, Raised):
        # TypeError texts carry the qualified name of the function called (Enforcer.x / SyncedEnforcer.x)
        return ["raised", type(v.e).__name__, "" if isinstance(v.e, TypeError) else str(v.e)[:120]]
    if v is None or isinstance(v, (bool, int, str)):
        return v
    if isinstance(v, float):
        return round(v, 6)
    if isinstance(v, (list, tuple)):
        l = [canon(x, depth + 1) for x in v]
        if depth == 0 and l and all(isinstance(x, str) for x in l):
            return sorted(l)          # a RESULT that is a flat list of names comes from a set in places; rules (nested) keep their order
        return l
    if isinstance(v, (set, frozenset)):
        return sorted(json.dumps(canon(x, depth + 1), sort_keys=True, default=str) for x in v)
    if isinstance(v, dict):
        return sorted([str(a), canon(b, depth + 1)] for a, b in v.items())
    if callable(v) and hasattr(v, "__name__"):
        return "<fn %s>" % v.__name__
    tn = type(v).__name__
    if tn == "EnforceContext":
        return ["EnforceContext", getattr(v, "rtype", None), getattr(v, "ptype", None), getattr(v, "etype", None),
                getattr(v, "mtype", None)]
    if tn == "Model":
        return ["<Model>", snap_model(v)]
    return "<%s>" % tn


def order_free(name):
    """methods whose result lists follow the iteration order of sets of Role objects (hashed by address): the order
    differs between two enforcers with the same history, so the result is compared as a multiset"""
    return "implicit" in name or "roles_for_user" in name or "users_for_role" in name or name == "get_all_roles_by_domain"


def canon_call(spec, r):
    c = canon(r)
    if order_free(spec["m"]) and isinstance(c, list):
        return sorted(c, key=jd)
    return c


def eff_index(a, ptype):
    fields = set(getattr(a, "field_index_map", {}))
    for t in a.tokens:
        if t.startswith(ptype + "_"):
            fields.add(t[len(ptype) + 1:])
    out = []
    for f in sorted(fields):
        if f in a.field_index_map:
            out.append([f, a.field_index_map[f]])
        else:
            pat = ptype + "_" + f
            out.append([f, a.tokens.index(pat) if pat in a.tokens else -1])
    return out


def snap_model(m):
    out = []
    for sec in sorted(m.model.keys()):
        for key in sorted(m.model[sec].keys()):
            a = m.model[sec][key]
            out.append([sec, key, a.value, list(a.tokens), [list(r) for r in a.policy],
                        eff_index(a, key) if sec == "p" else [], getattr(a, "priority_index", -1)])
    return out


def snap_plain_rm(rm):
    roles = []
    for name, r in sorted(getattr(rm, "all_roles", {}).items()):
        links = sorted(x.name for x in r.roles)
        fm = sorted("%s|%s" % k if isinstance(k, tuple) else str(k) for k in getattr(r, "link_condition_func_map", {}))
        pm = sorted([str(k), canon(list(v))] for k, v in getattr(r, "link_condition_func_params_map", {}).items())
        if links or fm or pm:
            roles.append([name, links, fm, pm])
    return roles


def fn_name(f):
    return None if f is None else getattr(f, "__name__", type(f).__name__)


def snap_rm(rm):
    if rm is None:
        return None
    d = [type(rm).__name__, fn_name(getattr(rm, "matching_func", None)), fn_name(getattr(rm, "domain_matching_func", None))]
    al = getattr(rm, "all_links", None)
    if isinstance(al, dict):            # domain managers: all_links is the truth, rm_map a memoising cache
        d.append(sorted([str(dom), sorted([l[0], l[1]] for l in ls)] for dom, ls in al.items() if ls))
    else:
        d.append(snap_plain_rm(rm))
    return d


def snapshot(e):
    """policy, role links, model and configuration of a plain Enforcer (memoising caches normalised away)"""
    fm = getattr(e.fm, "fm", {})
    g_keys = set(e.model.model.get("g", {}).keys())
    return dict(
        model=snap_model(e.model),
        links=sorted([k, snap_rm(v)] for k, v in e.rm_map.items()),
        cond_links=sorted([k, snap_rm(v)] for k, v in getattr(e, "cond_rm_map", {}).items()),
        config=[e.enabled, e.auto_save, e.auto_build_role_links, e.auto_notify_watcher, type(e.adapter).__name__,
                type(e.watcher).__name__, type(e.eft).__name__, getattr(e, "model_path", ""),
                sorted(k for k, v in fm.items() if k not in g_keys and not isinstance(v, type))],
        filtered=bool(e.is_filtered()) if hasattr(e.adapter, "is_filtered") else None,
    )


def grid(kind):
    reqs = []
    for u in USERS:
        for o in OBJS:
            for a in ACTS:
                if is_dom(kind):
                    reqs += [[u, d, o, a] for d in DOMS]
                else:
                    reqs.append([u, o, a])
    return reqs


def observe_final(e, kind):
    """final observation of a plain enforcer: snapshot + decisions on the request grid + role queries"""
    dec = []
    for r in grid(kind):
        try:
            dec.append(bool(e.enforce(*r)))
        except Exception as ex:  # noqa: BLE001
            dec.append("raised " + type(ex).__name__)
    roles = []
    if has_g(kind):
        for u in USERS:
            for d in (DOMS if is_dom(kind) else [None]):
                try:
                    roles.append(sorted(e.get_roles_for_user(u) if d is None else e.get_roles_for_user_in_domain(u, d)))
                except Exception as ex:  # noqa: BLE001
                    roles.append("raised " + type(ex).__name__)
    return dict(state=snapshot(e), decisions=dec, roles=roles)


def jd(x):
    return json.dumps(x, sort_keys=True, default=str)


# ----------------------------------------------------------------------------- instrumentation of a SyncedEnforcer
class Recorder:
    """Replaces se._e by a proxy that records every touch of the wrapped enforcer together with the lock's
    (_writer_active, _active_readers), and wraps the lock's public transition methods so that the enforcer state
    can be bracketed (single-thread use) and the lock steps counted."""

    BENIGN = ("logger",)

    def __init__(self, se, bracket=False):
        self.se = se
        self.real = se._e
        self.lock = se._rwlock
        self.touches = []           # (call key, attr, writer_active, active_readers)
        self.events = []            # [kind, t, i]  0 invoke / 1 first touch / 9 lock released / 2 returned
        self.cur = threading.local()
        self.entered = set()
        self.bracket = bracket
        self.segments = []          # (label, snapshot json) at every lock transition (bracket mode)
        rec = self

        class Proxy:
            def __getattr__(self, name):
                rec.touch(name)
                return getattr(rec.real, name)

            def __setattr__(self, name, value):
                rec.touch(name + "=")
                setattr(rec.real, name, value)

        se._e = Proxy()
        self.acq = {}               # call key -> names of the lock's acquire methods that returned during the call
        for name in dir(self.lock):
            f = getattr(self.lock, name)
            if name.startswith("_") or name.startswith("gen_") or not callable(f):
                continue
            setattr(self.lock, name, self._wrap_lock(name, f))

    def lock_state(self):
        return bool(getattr(self.lock, "_writer_active", None)), int(getattr(self.lock, "_active_readers", -1))

    def _wrap_lock(self, name, f):
        rec = self

        def g(*a, **k):
            if rec.bracket and "release" in name:
                rec.segments.append(("before " + name, rec.lock_state(), jd(snapshot(rec.real))))
            r = f(*a, **k)
            if "release" in name:
                if rec.key() is not None:
                    rec.events.append([9, rec.key()[0], rec.key()[1]])      # the call's lock is released HERE
            else:
                rec.acq.setdefault(rec.key(), []).append(name)
                if rec.bracket:
                    rec.segments.append(("after " + name, rec.lock_state(), jd(snapshot(rec.real))))
            return r
        return g

    def holds_enough(self, key, cls):
        """did the call `key` acquire a lock strong enough for a method of class cls?"""
        names = self.acq.get(key, [])
        if cls == "write":
            return any("write" in n for n in names)
        if cls == "read":
            return bool(names)
        return True

    def key(self):
        return getattr(self.cur, "key", None)

    def touch(self, attr):
        k = self.key()
        wa, ar = self.lock_state()
        self.touches.append((k, attr, wa, ar))
        if k is not None and attr.rstrip("=") not in self.BENIGN and k not in self.entered:
            self.entered.add(k)
            self.events.append([1, k[0], k[1]])

    def invoke(self, t, i):
        self.cur.key = (t, i)
        self.events.append([0, t, i])

    def returned(self, t, i):
        if (t, i) not in self.entered:           # a call that never touched the wrapped enforcer
            self.entered.add((t, i))
            self.events.append([1, t, i])
        self.events.append([2, t, i])
        self.cur.key = None


# ----------------------------------------------------------------------------- table / classification from the oracle
class Tables:
    def __init__(self, chk):
        r1, r2 = chk.oracle.query([(1, []), (2, [])])
        self.table_ok = bool(r1[0])
        self.wrappers = {}
        self.order = []
        for w in r1[1]:
            name = wstr(w[0])
            rec = dict(name=name, line=w[1], mode=["R", "W", "none"][w[2]], target=wstr(w[3][0]) if w[3] else None,
                       returns=bool(w[4]), faults=list(w[5]), cls=["read", "write", "pure", "unknown"][w[6]],
                       target_returns=bool(w[7]), inner=[wstr(x) for x in w[8]], self_locked=[wstr(x) for x in w[9]],
                       escaped=[wstr(x) for x in w[10]], npos=w[11], var=bool(w[12]), kwonly=[wstr(x) for x in w[13]])
            self.wrappers[name] = rec
            self.order.append(name)
        self.api_ok = dict(classified=bool(r2[0]), exact=bool(r2[1]), returns_agree=bool(r2[2]),
                           unwrapped_listed=bool(r2[5]) if len(r2) > 5 else None)
        self.api = {}
        for a in r2[3]:
            name = wstr(a[0])
            self.api[name] = dict(name=name, cls_name=wstr(a[1]), cls=["read", "write", "pure", "unknown"][a[2]],
                                  returns=bool(a[3]), src_returns=bool(a[4]), wrapped=bool(a[5]), static=bool(a[6]))
        self.unwrapped = [wstr(x) for x in r2[4]]
        self.raw = [((1, []), r1), ((2, []), r2)]

    def cls(self, name):
        """class of a wrapper name for the REQUIRED lock mode: unknown names are treated as mutating (fail-safe)"""
        if name in self.api:
            return self.api[name]["cls"]
        return "write"

    def faulty(self):
        return {n: w["faults"] for n, w in self.wrappers.items() if w["faults"]}


# ----------------------------------------------------------------------------- (ii) dynamic validation of `mutating`
SKIP_DYNAMIC = {"configure_logging": "changes the process-wide logging configuration only",
                "new_model": "static constructor, no enforcer involved"}


def sig_names_of(name):
    try:
        return list(inspect.signature(getattr(_casbin().Enforcer, name)).parameters)
    except (TypeError, ValueError, AttributeError):
        return []


def pre_ops(rng, kind, n):
    ops = []
    for _ in range(n):
        m = rng.choice(["add_policy", "remove_policy", "add_grouping_policy", "remove_grouping_policy", "add_policies",
                        "enable_auto_build_role_links", "set_field_index"] if has_g(kind) else
                       ["add_policy", "remove_policy", "add_policies", "set_field_index"])
        ops.append(gen_call(rng, kind, m, []))
    return ops


def validate_classification(chk, tabs, n_states, stats):
    """every method classified reading / stateless leaves policy, role links, model and configuration unchanged"""
    rng = chk.rng
    done = bad = 0
    for name, a in sorted(tabs.api.items()):
        if a["cls"] not in ("read", "pure") or name in SKIP_DYNAMIC:
            continue
        for kind in KINDS:
            for s in range(n_states):
                pre = pre_ops(rng, kind, rng.randint(0, 2))
                for variant in (0, 1, 2):
                    spec = gen_call(rng, kind, name, sig_names_of(name), variant)
                    e = build(kind)
                    for op in pre:
                        do_call(e, op, kind, True)
                    before = jd(snapshot(e))
                    r = do_call(e, spec, kind, True)
                    after = jd(snapshot(e))
                    done += 1
                    chk.count(("classification", name, kind, jd(spec)) if not isinstance(r, Raised) else None)
                    if before != after:
                        bad += 1
                        w = tabs.wrappers.get(name)
                        case = dict(check="classification", kind=kind, pre=pre, call=spec)
                        diff = first_diff(json.loads(before), json.loads(after))
                        if w is not None and w["mode"] != "W":
                            chk.spec_fail(case, dict(state_changed=diff, wrapper_lock=w["mode"]),
                                          "a call that changes policy, role links, model or configuration holds the write lock",
                                          f"{name} changes the enforcer state but its wrapper takes the {w['mode']} lock")
                        else:
                            chk.disagree(case, dict(state_changed=diff), "classified non-mutating in Synced.api_table",
                                         where=f"hand classification of {name} (wrapper takes the write lock anyway or is not wrapped)")
    stats["classification"] = dict(calls=done, state_changing=bad, skipped=SKIP_DYNAMIC)


def first_diff(a, b, path=""):
    if type(a) != type(b):
        return dict(path=path, before=a, after=b)
    if isinstance(a, dict):
        for k in sorted(set(a) | set(b)):
            if a.get(k) != b.get(k):
                return first_diff(a.get(k), b.get(k), path + "/" + str(k))
    if isinstance(a, list):
        if len(a) != len(b):
            return dict(path=path, before=a if len(jd(a)) < 300 else "len %d" % len(a), after=b if len(jd(b)) < 300 else "len %d" % len(b))
        for i, (x, y) in enumerate(zip(a, b)):
            if x != y:
                return first_diff(x, y, path + "/" + str(i))
    return dict(path=path, before=a, after=b)


# ----------------------------------------------------------------------------- (iii) differential calls with lock bracketing
NOT_DIFFERENTIAL = {"is_auto_loading_running": "reads the wrapper's own AtomicBool",
                    "start_auto_load_policy": "spawns an uncontrolled timer thread; its body is run as `_auto_load_policy`",
                    "stop_auto_load_policy": "writes the wrapper's own AtomicBool"}


def judge_single(tabs, spec, rec, r_plain, r_sync, s_plain, s_sync, s_before):
    """SPEC on one single-threaded wrapper call; returns list of (what, impl, expected)"""
    out = []
    name = spec["m"]
    if jd(canon_call(spec, r_plain)) != jd(canon_call(spec, r_sync)):
        out.append((f"{name} returns something else than the plain enforcer's method for the same arguments",
                    dict(synced=canon_call(spec, r_sync), plain=canon_call(spec, r_plain)), "equal return values"))
    if s_plain != s_sync:
        out.append((f"{name} leaves the wrapped enforcer in another state than the plain enforcer's method",
                    first_diff(json.loads(s_plain), json.loads(s_sync)), "equal resulting states"))
    # lock state at every touch of the wrapped enforcer
    for (k, attr, wa, ar) in rec.touches:
        base = attr.rstrip("=")
        if base in Recorder.BENIGN:
            continue
        cls = tabs.api[base]["cls"] if base in tabs.api else ("write" if attr.endswith("=") else "read")
        if cls == "write" and not wa:
            out.append((f"{name}: mutating Enforcer.{base} runs while the write lock is not held "
                        f"(_writer_active={wa}, _active_readers={ar})",
                        dict(touch=attr, writer_active=wa, active_readers=ar), "_writer_active is True"))
            break
        if cls == "read" and not wa and ar <= 0:
            out.append((f"{name}: the wrapped enforcer ({base}) is read while no lock is held "
                        f"(_writer_active={wa}, _active_readers={ar})",
                        dict(touch=attr, writer_active=wa, active_readers=ar), "read or write lock held"))
            break
    # state changes only inside write sections
    marks = [("call start", (False, 0), s_before)] + rec.segments + [("call end", rec.lock_state(), s_sync)]
    for (l0, st0, sn0), (l1, st1, sn1) in zip(marks, marks[1:]):
        if sn0 != sn1:
            held = "W" if st0[0] and l0.startswith("after") else ("R" if st0[1] > 0 and l0.startswith("after") else "none")
            if held != "W":
                out.append((f"{name}: the enforcer state changes while "
                            f"{'only the read lock' if held == 'R' else 'no lock'} is held (between '{l0}' and '{l1}')",
                            first_diff(json.loads(sn0), json.loads(sn1)), "state changes only inside write sections"))
                break
    return out


def differential(chk, tabs, samples, stats, only=None):
    rng = chk.rng
    done = 0
    fails = {}
    for name in tabs.order:
        if name in NOT_DIFFERENTIAL or (only is not None and name not in only):
            continue
        for kind in KINDS:
            for s in range(samples):
                variant = s % 3
                spec = gen_call(rng, kind, name, sig_names_of(name), variant)
                pre = pre_ops(rng, kind, rng.randint(0, 2)) if s else []
                res = run_single(tabs, kind, pre, spec)
                done += 1
                chk.count(("call", name, kind, jd(spec)) if not isinstance(res["r_plain"], Raised) else None)
                if done % 97 == 0:
                    chk.sample(dict(check="differential", kind=kind, call=spec, plain=canon(res["r_plain"]),
                                    synced=canon(res["r_sync"]), lock_at_touches=res["touches"][:3]))
                for what, impl, exp in res["verdicts"]:
                    key = (name, what.split(":")[0][:40])
                    size = len(jd(pre)) + len(jd(spec))
                    if key not in fails or size < fails[key][0]:
                        fails[key] = (size, dict(check="differential", kind=kind, pre=pre, call=spec), impl, exp, what)
    for key in sorted(fails):
        _, case, impl, exp, what = fails[key]
        chk.spec_fail(case, impl, exp, what)
    stats["differential"] = dict(calls=done, failing_wrappers=sorted({k[0] for k in fails}),
                                 not_called=NOT_DIFFERENTIAL)


def run_single(tabs, kind, pre, spec):
    e, se = build(kind), build(kind, synced=True)
    for op in pre:
        do_call(e, op, kind, True)
        do_call(se._e, op, kind, True)
    rec = Recorder(se, bracket=True)
    s_before = jd(snapshot(rec.real))
    r_plain = do_call(e, spec, kind, True)
    rec.invoke(0, 0)
    r_sync = do_call(se, spec, kind, False)
    rec.returned(0, 0)
    s_plain, s_sync = jd(snapshot(e)), jd(snapshot(rec.real))
    verdicts = judge_single(tabs, spec, rec, r_plain, r_sync, s_plain, s_sync, s_before)
    return dict(r_plain=r_plain, r_sync=r_sync, verdicts=verdicts,
                touches=[[a, wa, ar] for (_, a, wa, ar) in rec.touches])


# ----------------------------------------------------------------------------- (iv) controlled concurrent runs
class patched_rw:
    """module.RLock / module.Condition replaced by the cooperative doubles of harness/sched.py while a
    SyncedEnforcer (and its RWLockWrite) is constructed; restored on exit (same as sched.patched)"""

    def __init__(self, module):
        self.module, self.saved = module, {}

    def __enter__(self):
        for n, v in (("RLock", sched.CoopRLock), ("Condition", sched.CoopCondition)):
            if hasattr(self.module, n):
                self.saved[n] = getattr(self.module, n)
                setattr(self.module, n, v)
        return self.module

    def __exit__(self, *a):
        for n, v in self.saved.items():
            setattr(self.module, n, v)
        return False


class SyncedRun:
    """one run of thread programs on a real SyncedEnforcer under the controlled scheduler"""

    def __init__(self, kind, progs, yields=True, step_timeout=30.0, preempt=None):
        import casbin.util.rwlock as rwmod
        self.kind, self.progs, self.yields = kind, progs, yields
        self.preempt = preempt          # None | "call" | "line": scheduling points inside casbin/ (sys.settrace)
        with patched_rw(rwmod):
            self.se = build(kind, synced=True)
            self.ylocks = [sched.CoopRLock() for _ in progs]
        self.rec = Recorder(self.se)
        self.ctl = sched.Controller(step_timeout=step_timeout)
        self.rets = {}

    def body(self, calls):
        def run(tid):
            for i, spec in enumerate(calls):
                if self.yields:
                    with self.ylocks[tid]:
                        pass
                self.rec.invoke(tid, i)
                if self.preempt:
                    with sched.preemptible(in_casbin, lines=self.preempt == "line"):
                        r = do_call(self.se, spec, self.kind, False)
                else:
                    r = do_call(self.se, spec, self.kind, False)
                self.rec.returned(tid, i)
                self.rets[(tid, i)] = canon_call(spec, r)
        return run

    def key(self, ctl):
        lk = self.se._rwlock
        return jd([[ctl.state(i), ctl.why(i)] for i in range(len(self.progs))] +
                  [lk._active_readers, lk._waiting_writers, lk._writer_active, list(lk._cond.waiter_tids())] +
                  [self.rec.events, sorted([list(k), v] for k, v in self.rets.items()), snapshot(self.rec.real)])

    def run(self, choose):
        res = self.ctl.run([self.body(p) for p in self.progs], choose)
        res.raw_events = [list(e) for e in self.rec.events]
        res.events = monitor_events(res.raw_events)
        res.yields, res.preempt = self.yields, self.preempt
        res.rets = dict(self.rets)
        res.touches = list(self.rec.touches)
        res.acq = {k: list(v) for k, v in self.rec.acq.items()}
        res.final = observe_final(self.rec.real, self.kind) if res.status == "ok" else None
        res.lock = [self.se._rwlock._active_readers, self.se._rwlock._waiting_writers, self.se._rwlock._writer_active]
        return res


def in_casbin(filename):
    return "/casbin/" in filename


def monitor_events(events):
    """the events as the machine sees them: a call leaves its section when it releases its lock for the LAST time
    (kind 9), not when the wrapper's return is observed (kind 2) - the two differ only when the thread is preempted
    between release and return; a call that never released a lock leaves at its return"""
    last_rel = {}
    for n, (k, t, i) in enumerate(events):
        if k == 9:
            last_rel[(t, i)] = n
    out = []
    for n, (k, t, i) in enumerate(events):
        if k == 9:
            if last_rel[(t, i)] == n:
                out.append([2, t, i])
        elif k == 2:
            if (t, i) not in last_rel:
                out.append([2, t, i])
        else:
            out.append([k, t, i])
    return out


def realtime_events(events):
    return [e for e in events if e[0] != 9]


def names_of(progs):
    return [[c["m"] for c in p] for p in progs]


def precedence(events):
    """pairs (a, b): a returned before b was invoked"""
    done, prec = [], []
    for k, t, i in events:
        if k == 0:
            prec += [[list(a), [t, i]] for a in done]
        elif k == 2:
            done.append((t, i))
    return prec


class SeqOutcomes:
    """outcomes of one-at-a-time orders of the calls of `progs` on fresh plain Enforcers (memoised per order)"""

    def __init__(self, kind, progs):
        self.kind, self.progs, self.memo = kind, progs, {}

    def run(self, order):
        k = tuple(tuple(x) for x in order)
        if k not in self.memo:
            e = build(self.kind)
            rets = {}
            for t, i in order:
                rets[(t, i)] = canon_call(self.progs[t][i], do_call(e, self.progs[t][i], self.kind, True))
            self.memo[k] = (rets, observe_final(e, self.kind))
        return self.memo[k]


READERS_RACE = "C17/readers-race-on-memoising-caches"


class ConcJudge:
    def __init__(self, chk, tabs):
        self.chk, self.tabs = chk, tabs
        self.pending = []
        self.fails = {}
        self.n_runs = self.n_contended = self.n_witness_ok = self.n_other_order = 0
        self.vm = []

    def add(self, kind, progs, res, seq, label):
        self.n_runs += 1
        self.pending.append((kind, progs, res, seq, label))
        if len(self.pending) >= 1500:
            self.flush()

    def finding_for(self, what, progs, res):
        """fingerprint of the listed finding: a run preempted BELOW the lock level in which every call is a reading /
        stateless one (so all of them legitimately share the read lock) and yet the outcome is not sequential"""
        if getattr(res, "preempt", None) and (what.startswith("outcome") or what.startswith("run ended")) \
                and all(self.tabs.cls(c["m"]) in ("read", "pure") for p in progs for c in p):
            return READERS_RACE
        return None

    def fail(self, what, kind, progs, res, impl, expected):
        size = (sum(len(p) for p in progs), len(progs), len(res.schedule))
        fid = self.finding_for(what, progs, res)
        if fid is not None:
            what = "known " + fid + ": " + what
        key = what.split(" takes a too weak lock")[0][:80] if what.startswith("lock discipline") else what.split(":")[0][:60]
        if fid is not None:
            key = "known " + fid
        if key not in self.fails or size < self.fails[key][0]:
            case = dict(check="schedule", kind=kind, progs=progs, schedule=list(res.schedule), events=describe(progs, res.events),
                        yields=getattr(res, "yields", True), preempt=getattr(res, "preempt", None))
            self.fails[key] = (size, case, impl, expected, what)

    def flush(self):
        chk, pend = self.chk, self.pending
        self.pending = []
        if not pend:
            return
        reqs = []
        for kind, progs, res, seq, label in pend:
            reqs.append((3, [names_of(progs), res.events]))
            reqs.append((4, [[len(p) for p in progs], precedence(realtime_events(res.raw_events))]))
        reps = chk.oracle.query(reqs)
        for n, (kind, progs, res, seq, label) in enumerate(pend):
            mon, orders = reps[2 * n], reps[2 * n + 1]
            if len(self.vm) < 60 and (self.n_runs + n) % 53 == 0 and len(jd(reqs[2 * n])) < 4000:
                self.vm.append((reqs[2 * n], mon))
                self.vm.append((reqs[2 * n + 1], orders))
            ncalls = sum(len(p) for p in progs)
            contended = any(self.tabs.cls(m) == "write" for p in names_of(progs) for m in p) and len(progs) > 1
            self.n_contended += contended
            chk.count((kind, jd(progs), tuple(res.schedule)) if contended else None)
            if res.status != "ok":
                self.fail(f"run ended with status {res.status}: a call raised outside the enforcer, hung or deadlocked",
                          kind, progs, res, dict(status=res.status, errors=res.errors, lock=res.lock),
                          "every call returns")
                continue
            if mon == [998]:
                chk.disagree(dict(kind=kind, progs=progs, schedule=res.schedule), res.events, "unreadable event sequence",
                             where="monitor input")
                continue
            bad = mon[0]
            if bad:
                j = bad[0]
                ev = res.events[j] if j < len(res.events) else None
                self.fail("lock discipline: " + explain_refusal(self.tabs, progs, res.events, j, res.touches, res.acq), kind, progs, res,
                          dict(refused_event_index=j, refused_event=describe(progs, [ev])[0] if ev else None,
                               lock_at_touches=[[list(k) if k else None, a, wa, ar] for (k, a, wa, ar) in res.touches][:12]),
                          "the readers-writer machine with the REQUIRED lock modes accepts the observed events "
                          "(a mutating call is inside alone, a reading call with no writer inside)")
            # outcome must be explained by an admissible one-at-a-time order
            mine = (res.rets, res.final)
            witness = [(e[1], e[2]) for e in res.events if e[0] == 1]
            explained = None
            if len(witness) == ncalls and [list(x) for x in witness] in orders:
                if same_outcome(seq.run(witness), mine):
                    explained = witness
                    self.n_witness_ok += 1
            if explained is None:
                for o in orders:
                    if same_outcome(seq.run([tuple(x) for x in o]), mine):
                        explained = o
                        self.n_other_order += 1
                        break
            if explained is None:
                best = seq.run(witness) if len(witness) == ncalls else (seq.run([tuple(x) for x in orders[0]]) if orders else ({}, None))
                self.fail("outcome: no one-at-a-time order of the calls on a plain Enforcer that respects real-time "
                          "precedence produces the observed return values and final state", kind, progs, res,
                          dict(returns=ret_list(res.rets), first_difference_to_enter_order=outcome_diff(best, mine),
                               admissible_orders=len(orders)),
                          dict(enter_order=[list(x) for x in witness], its_returns=ret_list(best[0])))
        chk.traces += len(pend)

    def finish(self):
        self.flush()
        for key in sorted(self.fails, key=lambda k: (0 if k.startswith("outcome") else 1, k)):
            _, case, impl, exp, what = self.fails[key]
            self.chk.spec_fail(case, impl, exp, what, finding=READERS_RACE if key == "known " + READERS_RACE else None)
        self.fails = {}


def ret_list(rets):
    return sorted([list(k), v] for k, v in rets.items())


def same_outcome(a, b):
    return jd(ret_list(a[0])) == jd(ret_list(b[0])) and jd(a[1]) == jd(b[1])


def outcome_diff(seq_out, mine):
    if jd(ret_list(seq_out[0])) != jd(ret_list(mine[0])):
        for (k, v), (k2, v2) in zip(ret_list(seq_out[0]), ret_list(mine[0])):
            if v != v2:
                return dict(call=k, sequential=v, concurrent=v2)
    if seq_out[1] is None or mine[1] is None:
        return None
    return first_diff(seq_out[1], mine[1], "final")


def describe(progs, events):
    out = []
    for e in events:
        if e is None:
            continue
        k, t, i = e
        m = progs[t][i]["m"] if t < len(progs) and i < len(progs[t]) else "?"
        out.append(f"t{t} {['invokes', 'enters', 'leaves'][k]} {m}#{i}")
    return out


def explain_refusal(tabs, progs, events, j, touches=(), acq=None):
    """text for a refused Enter; starts with the call that took a too weak lock (the refused call itself if it did not
    acquire a lock strong enough for its class, else the call that is inside)"""
    if j >= len(events):
        return "event refused"
    k, t, i = events[j]
    m = progs[t][i]["m"]
    ent = {}
    for (k2, t2, i2) in events[:j]:
        if k2 == 1:
            ent[(t2, i2)] = True
        elif k2 == 2:
            ent.pop((t2, i2), None)
    inside = [f"{progs[t2][i2]['m']} ({tabs.cls(progs[t2][i2]['m'])}, thread {t2})" for (t2, i2) in ent]
    st = next(((wa, ar) for (key, attr, wa, ar) in touches if key == (t, i) and attr.rstrip("=") not in Recorder.BENIGN), None)
    names = (acq or {}).get((t, i), [])
    need = tabs.cls(m)
    enough = any("write" in n for n in names) if need == "write" else (bool(names) if need == "read" else True)
    culprit = m
    if enough and ent:
        weak = [progs[t2][i2]["m"] for (t2, i2) in ent
                if not (any("write" in n for n in (acq or {}).get((t2, i2), [])) if tabs.cls(progs[t2][i2]["m"]) == "write"
                        else bool((acq or {}).get((t2, i2), [])) or tabs.cls(progs[t2][i2]["m"]) == "pure")]
        culprit = weak[0] if weak else m
    return (f"{culprit} takes a too weak lock: {m} ({need}, acquired {names or 'no lock'}) touches the wrapped enforcer"
            f"{'' if st is None else ' (_writer_active=%s, _active_readers=%s)' % st} while "
            f"{', '.join(inside) or 'nobody'} is still inside its section")


def explore_program(chk, judge, kind, progs, yields, deadline, max_runs, stats, label, pruned=False):
    seq = SeqOutcomes(kind, progs)
    holder = {}

    def run_once(choose):
        r = SyncedRun(kind, progs, yields=yields)
        holder["r"] = r
        return r.run(choose)

    def on_run(res):
        if res.status == "stopped" and pruned:
            return True          # cut at a state seen before: nothing new to judge
        judge.add(kind, progs, res, seq, label)
        return res.status != "hang"

    st = sched.explore(run_once, key=(lambda ctl: holder["r"].key(ctl)) if pruned else None, deadline=deadline,
                       max_runs=max_runs, on_run=on_run)
    d = stats.setdefault(label, dict(programs=0, runs=0, steps=0, complete=0, incomplete=0, by_status={}))
    d["programs"] += 1
    d["runs"] += st.runs
    d["steps"] += st.steps
    d["complete" if st.complete else "incomplete"] += 1
    for k, v in st.by_status.items():
        d["by_status"][k] = d["by_status"].get(k, 0) + v
    return st


READERS = ["enforce", "get_policy", "has_policy", "get_roles_for_user", "get_implicit_permissions_for_user",
           "get_all_subjects", "has_role_for_user", "get_users_for_role", "get_field_index", "batch_enforce",
           "get_filtered_policy", "get_permissions_for_user", "get_implicit_roles_for_user", "get_grouping_policy",
           "is_filtered", "get_all_roles", "new_enforce_context", "save_policy"]
WRITERS = ["add_policy", "remove_policy", "add_policies", "remove_policies", "add_grouping_policy", "remove_grouping_policy",
           "add_role_for_user", "delete_role_for_user", "delete_user", "delete_role", "load_policy", "clear_policy",
           "build_role_links", "enable_enforce", "set_field_index", "remove_filtered_policy", "add_permission_for_user",
           "delete_permission_for_user", "build_incremental_role_links", "_auto_load_policy", "load_filtered_policy",
           "enable_auto_build_role_links"]


def usable(tabs, kind, m):
    if m not in tabs.wrappers:
        return False
    if not has_g(kind) and ("grouping" in m or "role" in m or m in ("delete_user", "get_implicit_permissions_for_user",
                                                                   "get_implicit_roles_for_user")):
        return False
    return True


def random_program(rng, tabs, kind, shape):
    progs = []
    for n in shape:
        p = []
        for _ in range(n):
            pool = WRITERS if rng.random() < 0.55 else READERS
            m = rng.choice([x for x in pool if usable(tabs, kind, x)])
            p.append(gen_call(rng, kind, m, sig_names_of(m), 0))
        progs.append(p)
    return progs


def fixed_programs(rng, tabs):
    """scenarios that are always run: conflicting writers, writer vs readers, auto-load vs writer"""
    out = []
    g = lambda kind, m: gen_call(rng, kind, m, sig_names_of(m), 0)
    out.append(("rbac", [[dict(m="add_policy", a=["carol", "data1", "read"], k={})],
                         [dict(m="remove_policy", a=["carol", "data1", "read"], k={})],
                         [dict(m="enforce", a=["carol", "data1", "read"], k={})]]))
    out.append(("rbac", [[dict(m="add_role_for_user", a=["carol", "admin"], k={}), dict(m="get_roles_for_user", a=["carol"], k={})],
                         [dict(m="delete_role", a=["admin"], k={}), dict(m="enforce", a=["carol", "data2", "write"], k={})]]))
    out.append(("dom", [[dict(m="add_role_for_user_in_domain", a=["carol", "admin", "d1"], k={})],
                        [dict(m="enforce", a=["carol", "d1", "data1", "read"], k={})],
                        [dict(m="delete_roles_for_user_in_domain", a=["alice", "admin", "d1"], k={})]]))
    out.append(("rbac", [[dict(m="_auto_load_policy", a=[], k={})],
                         [dict(m="add_policy", a=["carol", "data2", "read"], k={}), dict(m="get_policy", a=[], k={})]]))
    out.append(("acl", [[dict(m="clear_policy", a=[], k={}), dict(m="add_policy", a=["bob", "data1", "read"], k={})],
                        [dict(m="get_policy", a=[], k={}), dict(m="has_policy", a=["bob", "data1", "read"], k={})]]))
    out.append(("rbac", [[dict(m="build_role_links", a=[], k={})], [dict(m="add_grouping_policy", a=["carol", "editor"], k={})],
                         [dict(m="has_role_for_user", a=["carol", "editor"], k={})]]))
    # a WRITING call that raises (a grouping rule shorter than the role definition / a request of the wrong size
    # inside a write section's neighbour) while other writers queue: the exception must reach the caller in every
    # interleaving, exactly as on the plain enforcer
    out.append(("rbac", [[dict(m="add_grouping_policy", a=["carol"], k={})],
                         [dict(m="add_policy", a=["carol", "data1", "read"], k={})],
                         [dict(m="remove_policy", a=["alice", "data1", "read"], k={})]]))
    out.append(("rbac", [[dict(m="update_policy", a=[["nobody", "x", "y"], ["alice"]], k={}), dict(m="add_grouping_policy", a=["dave"], k={})],
                         [dict(m="add_policy", a=["dave", "data2", "write"], k={}), dict(m="enforce", a=["dave", "data2"], k={})]]))
    return [(k, p) for k, p in out if all(usable(tabs, k, c["m"]) for th in p for c in th)]


# ----------------------------------------------------------------------------- (v) lock-discipline probes
def probe_schedule(holder_steps):
    """thread 0 = the holder: runs until it is parked inside its section (before its release step); then thread 1
    runs as far as it can; then everybody finishes (lowest tid first)"""
    def choose(ctl, en):
        j = len(ctl.schedule)
        if j < holder_steps and 0 in en:
            return 0
        if 1 in en:
            return 1
        return en[0]
    return choose


def probes(chk, judge, tabs, stats, only=None):
    """for every wrapper W: [holder] || [W] where the holder (a reader, then a writer) is parked inside its section
    while W is called; the monitor must accept the observed events"""
    rng = chk.rng
    n = 0
    for name in tabs.order:
        if name in NOT_DIFFERENTIAL or (only is not None and name not in only):
            continue
        for kind in (["rbac", "dom"] if only is None else KINDS):
            if not usable(tabs, kind, name):
                continue
            for holder in ("get_policy", "add_policy"):
                hold = dict(m=holder, a=(["zed"] + (["d1"] if kind == "dom" else []) + ["data9", "read"]) if holder == "add_policy" else [], k={})
                progs = [[hold], [gen_call(rng, kind, name, sig_names_of(name), 0)]]
                seq = SeqOutcomes(kind, progs)
                # holder: yield, acquire -> now inside, parked at the mutex of its release: 2 steps
                res = SyncedRun(kind, progs, yields=True).run(probe_schedule(2))
                judge.add(kind, progs, res, seq, "probe")
                n += 1
    stats["probes"] = dict(runs=n)


# ----------------------------------------------------------------------------- (vi) preemption below the lock level
def C(m, *a, **k):
    return dict(m=m, a=list(a), k=k)


PREEMPT_PAIRS = [
    # two READERS inside the same read section, first queries about never-seen names (memoising caches race)
    ("pat", [[C("enforce", "/book/77", "data2", "read")], [C("has_role_for_user", "/book/77", "book_group")]]),
    ("pat", [[C("get_implicit_roles_for_user", "/book/5")], [C("enforce", "/book/5", "data1", "read")]]),
    ("pat", [[C("get_roles_for_user", "/book/1")], [C("get_users_for_role", "book_group")]]),
    ("dompat", [[C("enforce", "alice", "d1", "data2", "read")], [C("get_roles_for_user_in_domain", "alice", "d7")]]),
    ("dompat", [[C("get_implicit_permissions_for_user", "alice", "d1")], [C("enforce", "bob", "d2", "data1", "read")]]),
    ("rbac", [[C("enforce", "carol", "data1", "read")], [C("get_implicit_permissions_for_user", "carol")]]),
    ("rbac", [[C("get_all_subjects")], [C("get_field_index", "p", "obj")]]),
    # two enforce calls with DIFFERENT requests and different answers (whatever evaluates the matcher must not be shared
    # scratch state between the readers): preempted inside g() / the matcher evaluation
    ("rbac", [[C("enforce", "alice", "data2", "read")], [C("enforce", "bob", "data1", "read")]]),
    ("rbac", [[C("enforce", "alice", "data1", "read")], [C("enforce", "alice", "data9", "read")]]),
    ("pat", [[C("enforce", "/book/77", "data1", "read")], [C("enforce", "/pen/1", "data2", "write")]]),
    ("rbac", [[C("batch_enforce", [["alice", "data1", "read"], ["bob", "data2", "write"]])], [C("enforce_ex", "bob", "data1", "read")]]),
    # a query that walks the stored rules of a role, against readers of exactly those rules (a reading call must not
    # even temporarily rewrite what is stored)
    ("rbac", [[C("get_implicit_users_for_resource", "data2")], [C("has_policy", "admin", "data2", "write")]]),
    ("rbac", [[C("get_implicit_users_for_resource", "data1")], [C("enforce", "bob", "data1", "write")]]),
    ("rbac", [[C("get_implicit_users_for_resource", "data2")], [C("get_policy")]]),
    ("dom", [[C("get_implicit_users_for_resource_by_domain", "data1", "d1")], [C("enforce", "alice", "d1", "data1", "read")]]),
    # a reader and a writer: the writer must wait for the reader's section, whatever the preemption point
    ("pat", [[C("enforce", "/book/77", "data1", "read")], [C("add_grouping_policy", "/pen/:id", "book_group")]]),
    ("dompat", [[C("get_users_for_role_in_domain", "admin", "d1")], [C("delete_roles_for_user_in_domain", "alice", "admin", "*")]]),
    ("rbac", [[C("delete_role", "admin")], [C("enforce", "alice", "data2", "write")]]),
]


LISTED_PAIR = PREEMPT_PAIRS[2]


def preemption_stratum(chk, judge, tabs, lines, deadline, stats, max_k):
    """every schedule with ONE preemption at function-call (thorough: source-line) granularity inside casbin/:
    thread a runs k scheduling points, the other thread runs to completion (or until it blocks), a finishes.
    Judged like every other run: monitor on the events, outcome = an admissible one-at-a-time order."""
    d = stats.setdefault("one_preemption_inside_casbin", dict(granularity="line" if lines else "call", pairs=0, runs=0,
                                                              steps=0, cut_by_budget=0))
    for kind, progs in PREEMPT_PAIRS:
        if not all(usable(tabs, "rbac", c["m"]) for p in progs for c in p):
            continue
        seq = SeqOutcomes(kind, progs)
        d["pairs"] += 1

        def run_once(choose, kind=kind, progs=progs):
            return SyncedRun(kind, progs, yields=False, preempt="line" if lines else "call").run(choose)

        for a, k, res in sched.one_preemption_schedules(run_once, n_threads=len(progs), max_k=max_k):
            judge.add(kind, progs, res, seq, "preempt")
            d["runs"] += 1
            d["steps"] += len(res.schedule)
            if res.status == "hang" or time.time() > deadline:
                d["cut_by_budget"] += 1
                break
    if not lines:
        # some races need source-line granularity (no casbin function is called between the two conflicting accesses):
        # these pairs are run at that granularity on every run
        n = 0
        for kind, progs in [LISTED_PAIR] + [pp for pp in PREEMPT_PAIRS if pp[1][0][0]["m"].startswith("get_implicit_users_for_resource")]:
            if not all(usable(tabs, "rbac", c["m"]) for p in progs for c in p):
                continue
            seq = SeqOutcomes(kind, progs)
            t_pair = time.time() + 12
            for a, k, res in sched.one_preemption_schedules(
                    lambda ch, kind=kind, progs=progs: SyncedRun(kind, progs, yields=False, preempt="line").run(ch), n_threads=2, max_k=1500):
                judge.add(kind, progs, res, seq, "preempt")
                n += 1
                if res.status == "hang" or time.time() > t_pair:
                    break
        d["line_granularity_runs_in_quick"] = n


# ----------------------------------------------------------------------------- replay
def replay(chk):
    rec = json.load(open(chk.replay_file))
    c = rec.get("case") or {}
    tabs = Tables(chk)
    if c.get("check") in ("differential", "classification"):
        kind, pre, spec = c["kind"], c.get("pre", []), c["call"]
        if c["check"] == "classification":
            e = build(kind)
            for op in pre:
                do_call(e, op, kind, True)
            before = jd(snapshot(e))
            do_call(e, spec, kind, True)
            after = jd(snapshot(e))
            print(f"replay: plain Enforcer.{spec['m']}{tuple(spec['a'])} on model kind {kind}: state "
                  f"{'CHANGED' if before != after else 'unchanged'}")
            w = tabs.wrappers.get(spec["m"])
            if before != after and w is not None and w["mode"] != "W":
                print(f"   its wrapper takes the {w['mode']} lock")
                print(f"VIOLATION property={PROP} replay={chk.replay_file}")
                sys.exit(1)
            print("replay passes")
            sys.exit(0)
        res = run_single(tabs, kind, pre, spec)
        print(f"replay: SyncedEnforcer.{spec['m']} args={spec['a']} kwargs={spec.get('k')} on model kind {kind} after {len(pre)} pre-op(s)")
        print(f"   plain  returns {canon(res['r_plain'])}")
        print(f"   synced returns {canon(res['r_sync'])}")
        print(f"   lock (_writer_active, _active_readers) at touches of the wrapped enforcer: {res['touches'][:6]}")
        if res["verdicts"]:
            for what, impl, exp in res["verdicts"]:
                print(f"   violated: {what}")
            print(f"VIOLATION property={PROP} replay={chk.replay_file}")
            sys.exit(1)
        print("replay passes: same result, same state, lock discipline respected")
        sys.exit(0)
    if c.get("check") == "schedule":
        kind, progs, schedule = c["kind"], c["progs"], c["schedule"]
        judge = ConcJudge(chk, tabs)
        with sched.pinned_cpu():
            res = SyncedRun(kind, progs, yields=c.get("yields", True), preempt=c.get("preempt")).run(sched.follow(list(schedule)))
        print(f"replay: kind={kind} programs={names_of(progs)} schedule={res.schedule} status={res.status}")
        for line in describe(progs, res.events):
            print("   ", line)
        print(f"   returns: {ret_list(res.rets)}")
        judge.add(kind, progs, res, SeqOutcomes(kind, progs), "replay")
        judge.finish()
        if chk.spec_failures:
            print(f"   violated: {chk.spec_failures[0]['what']}")
            print(f"VIOLATION property={PROP} replay={chk.replay_file}")
            sys.exit(1)
        print("replay passes: the monitor accepts the events and a one-at-a-time order explains the outcome")
        sys.exit(0)
    print("replay file names a broken theorem/correspondence, not an input:", json.dumps(rec.get("broken"))[:800])
    sys.exit(1)


# ----------------------------------------------------------------------------- main
def run(chk, tabs, tier, budget, escalate=False):
    stats = chk.extra.setdefault("coverage_detail", {})
    t0 = time.time()
    deadline = t0 + budget
    rng = chk.rng
    faulty = tabs.faulty()
    if escalate:
        # the proof / correspondence is broken and nothing failed yet: concentrate on the records the table
        # theorem rejects (if any), else on everything with more samples
        only = set(faulty) or None
        differential(chk, tabs, 12 if only else 6, stats, only=only)
        judge = ConcJudge(chk, tabs)
        with sched.pinned_cpu():
            probes(chk, judge, tabs, stats, only=only)
            if not only:
                for _ in range(40):
                    if time.time() > deadline:
                        break
                    kind = rng.choice(["rbac", "dom", "acl"])
                    progs = random_program(rng, tabs, kind, rng.choice([(1, 1), (2, 1), (1, 1, 1), (2, 2)]))
                    explore_program(chk, judge, kind, progs, True, deadline, 3000, stats, "escalated_random")
        judge.finish()
        return
    validate_classification(chk, tabs, 1 if tier == "quick" else 3, stats)
    differential(chk, tabs, 3 if tier == "quick" else 9, stats)
    judge = ConcJudge(chk, tabs)
    with sched.pinned_cpu():
        probes(chk, judge, tabs, stats)
        t_fixed = t0 + budget * 0.55
        for kind, progs in fixed_programs(rng, tabs):
            explore_program(chk, judge, kind, progs, True, t_fixed, 6000 if tier == "quick" else 60000, stats, "fixed_scenarios")
        shapes_full = [(1, 1), (2, 1), (1, 1, 1), (2, 2)] if tier == "quick" else [(1, 1), (2, 1), (1, 1, 1), (2, 2), (3, 1), (2, 1, 1), (3, 2)]
        n_rand = 0
        while time.time() < deadline - 3:
            kind = rng.choice(["rbac", "rbac", "dom", "acl"])
            shape = rng.choice(shapes_full)
            progs = random_program(rng, tabs, kind, shape)
            yields = sum(shape) <= 3
            explore_program(chk, judge, kind, progs, yields, deadline, 2500 if tier == "quick" else 20000, stats,
                            "random_programs_all_interleavings")
            n_rand += 1
            if tier == "quick" and n_rand >= 60:
                break
        preemption_stratum(chk, judge, tabs, tier == "thorough", time.time() + (20 if tier == "quick" else 240), stats,
                           400 if tier == "quick" else 3000)
        if tier == "thorough":
            t_end = time.time() + 120
            while time.time() < t_end:
                kind = rng.choice(["rbac", "dom"])
                progs = random_program(rng, tabs, kind, rng.choice([(3, 3), (2, 2, 2), (3, 2, 1)]))
                explore_program(chk, judge, kind, progs, False, t_end, 4000, stats, "random_programs_statecover", pruned=True)
    judge.finish()
    chk.extra["concurrent_runs"] = judge.n_runs
    chk.extra["runs_with_a_writer_and_two_threads"] = judge.n_contended
    chk.extra["outcome_explained_by_enter_order"] = judge.n_witness_ok
    chk.extra["outcome_explained_by_another_admissible_order"] = judge.n_other_order
    vm = tabs.raw[:0] + judge.vm      # the table dumps themselves are too big for a vm_compute cross-check file
    vm += [((5, [["add_policy", "enforce", "new_enforce_context", "no_such_method", "build_role_links"]]), None)]
    reqs = [r for r, _ in vm]
    reps = [x if x is not None else chk.oracle.query([r])[0] for r, x in vm]
    ok, n, log = vm_crosscheck(PROP, "From PyCasbin Require Import Base Synced.", "oracle_C17", reqs, reps, chunk=80)
    chk.vm_checked += n
    if not ok:
        chk.disagree(dict(kind="extraction-vs-vm_compute"), "extracted oracle", log, where="vm_compute cross-check")


def main():
    chk = Check(PROP)
    chk.rule = ("three kinds of cases. (a) call = (wrapper, model kind in acl/rbac/dom/cond, up to 2 generated pre-ops, "
                "generated arguments in three variants: all optional arguments / minimal / optional ones as keywords) run "
                "on a SyncedEnforcer and a plain Enforcer; non-trivial when the plain call does not raise; distinct by "
                "(method, kind, arguments). (b) the same for every plain method classified reading/stateless, comparing "
                "deep snapshots before/after. (c) schedule = (model kind, 2-3 thread programs of 1-3 calls, the thread "
                "chosen at each mutex hand-over of the real RWLockWrite under harness/sched.py); six fixed scenarios + "
                "seeded random programs (55% writers) explored through ALL interleavings (with a yield point before "
                "every call when the program has <= 3 calls) and one probe schedule per wrapper and holder kind; "
                "non-trivial when >= 2 threads run and some call is a writer; distinct by (programs, schedule). "
                "(d) ten fixed two-thread pairs (seven reader/reader pairs asking first questions about never-seen names on "
                "pattern-role / pattern-domain models, three reader/writer pairs) under every ONE-preemption schedule at "
                "function-call (thorough: source-line) granularity inside casbin/ (sys.settrace), judged like (c)")
    chk.assumptions = [
        "threading.RLock/Condition are modelled as a Mesa monitor (C16); the Enter guard of the machine is the "
        "readers-writer specification C16 proves of casbin/util/rwlock.py, not re-proved here",
        "a call is abstracted as a section of micro steps on one shared state between Enter (lock obtained) and Exit "
        "(lock released); what a method reads/writes is given by the hand classification Synced.api_table, validated "
        "dynamically (deep snapshots) but not proved from the method bodies",
        "memoising reads inside read sections are ASSUMED to commute in the proved part (the one-preemption stratum shows "
        "they do not always: listed finding C17/readers-race-on-memoising-caches): RoleManager._get_role entries (all_roles), "
        "DomainManager.rm_map / all_links[domain] = [] entries, Assertion.field_index_map entries written by "
        "Model.get_field_index, the `g` closures and the python container types (dict/list/set/tuple, added by "
        "SimpleEval) that enforce() stores in the shared function map; snapshots normalise them away",
        "interleavings are enumerated exhaustively at lock-step granularity (threads switch only at mutex acquisition "
        "and inside wait()); below the lock level only ONE preemption per run is explored, on ten fixed pairs",
        "start_auto_load_policy's timer thread is covered by running the body of _auto_load_policy (one loop "
        "iteration) from a controlled thread; time.sleep is stubbed",
    ]
    chk.trusted = ["translator: translators/synced.py (Python ast -> coq/gen/SyncedGen.v, regenerated on this run)",
                   "translator: translators/rwlock.py (casbin/util/rwlock.py -> coq/gen/RWLockGen.v; the lock the wrappers take is the "
                   "verified one: Part C of Props/C17.v re-states C16's exclusion / no-lost-wake-up / deadlock-freedom of it)",
                   "harness/sched.py cooperative doubles of RLock/Condition (correspondence only)"]
    chk.build(translators=["synced", "rwlock"])
    if chk.oracle is None:
        chk.notes.append("oracle unavailable: nothing could be run")
        chk.extra["notes"] = chk.notes
        chk.finish()
    if chk.replay_file:
        return replay(chk)
    tabs = Tables(chk)
    faulty = tabs.faulty()
    chk.extra["table"] = dict(wrappers=len(tabs.wrappers), api_methods=len(tabs.api), unwrapped=tabs.unwrapped,
                              discipline_ok=tabs.table_ok, coverage=tabs.api_ok,
                              faulty_records={n: [FAULT_TEXT.get(f, str(f)) for f in fs] for n, fs in faulty.items()})
    if not (tabs.api_ok["classified"] and tabs.api_ok["exact"] and tabs.api_ok["returns_agree"] and tabs.api_ok["unwrapped_listed"]):
        chk.disagree(dict(check="api coverage"), tabs.api_ok,
                     "hand classification covers exactly the regenerated API; unwrapped methods are listed",
                     where="Synced.api_table / deliberately_unwrapped vs the plain enforcer classes: " +
                           ", ".join(sorted(n for n, a in tabs.api.items() if a["cls"] == "unknown" or a["returns"] != a["src_returns"]) +
                                     sorted(n for n in tabs.unwrapped)))
    if chk.tier == "thorough":
        run(chk, tabs, "thorough", 600)
    else:
        run(chk, tabs, "quick", 70)
        if (chk.broken() or chk.anchor_changed) and not chk.spec_failures:
            chk.notes.append("escalated: more samples / probes on the records the table theorem rejects")
            run(chk, tabs, "quick", 90, escalate=True)
    if chk.notes:
        chk.extra["notes"] = chk.notes
    report_all(chk)
    chk.finish()


def defect_class(rec):
    w = rec.get("what", "")
    for n, pat in enumerate(("returns something else", "another state", "runs while the write lock is not held",
                             "state changes while", "is read while no lock", "lock discipline", "outcome", "")):
        if pat in w:
            return n
    return 99


def report_all(chk):
    """core.finish() reports the first spec failure; print one VIOLATION line with its own replay file for every
    further failing case (one per wrapper and kind of failure), most telling class first"""
    chk.spec_failures.sort(key=lambda r: (defect_class(r), r.get("case", {}).get("call", {}).get("m", "")))
    if len(chk.spec_failures) <= 1:
        return
    base = dict(property=chk.prop, seed=chk.seed, tier=chk.tier, **chk.repo_state())
    for rec in chk.spec_failures[1:25]:
        path = chk.write_replay(dict(base, kind="failing-input", **rec))
        print(f"  failing input: {rec['what']}")
        print(f"VIOLATION property={chk.prop} replay={path}")


if __name__ == "__main__":
    main()
