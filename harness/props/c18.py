"""C18 — AsyncEnforcer behaves exactly like Enforcer.

Translation validation: translators/asyncdiff.py regenerates both ASTs of every method the sync and
async class chains resolve differently (coq/gen/AsyncGen.v); Props/C18.v has the kernel decide that
their canonical forms (async erasure + rewrites R1-R3, AsyncEq.v) are equal for all but the two
constructor helpers, that the await discipline holds, and proves the semantics-parametric erasure
theorems.  This module (1) asks the EXTRACTED canon/tree_eqb which twins differ (localisation, bias,
cross-check against the kernel), (2) runs differential call histories Enforcer vs AsyncEnforcer
(every call awaited) with equivalent recording adapters and watchers — the tie between "await of a
completed coroutine is the identity" and the running code, and the search for a failing input."""
import hashlib
import importlib.util
import json
import sys

from ..core import Check, REPO, ROOT, vm_crosscheck

U = None       # harness.async_util, imported in main(): it imports casbin, which may be broken

PROP = "C18"
CONSTRUCTOR_EXCEPTIONS = ["init_with_file", "init_with_model_and_adapter"]
SYNC_ONLY_PINNED = ["get_allowed_object_conditions"]


def load_translator():
    spec = importlib.util.spec_from_file_location("asyncdiff", str(ROOT / "translators" / "asyncdiff.py"))
    mod = importlib.util.module_from_spec(spec)
    spec.loader.exec_module(mod)
    return mod


def follow(t, path):
    for i in path:
        if t[0] != "N" or i >= len(t[2]):
            return t
        t = t[2][i]
    return t


def render(t, rev, depth=3):
    if t[0] != "N":
        return f"{t[0]}:{rev.get(t[1], t[1])}"
    if depth == 0:
        return f"<{t[1]}…>"
    return f"({rev['tags'].get(t[1], t[1])} " + " ".join(render(k, rev, depth - 1) for k in t[2]) + ")"


def structural(chk):
    """per-pair verdicts from the extracted oracle; returns (table, suspects)"""
    tr = load_translator()
    try:
        table = tr.collect(REPO)
    except Exception as e:                      # translator failure is already recorded by build()
        chk.notes.append(f"translator: {e}")
        return None, set()
    if chk.oracle is None:
        chk.notes.append("oracle unavailable; structural localisation not run")
        return table, set()
    tags = table["tags"]
    rev = {k: text for (ns, text), k in table["interner"].table.items()}
    rev["tags"] = {v: k for k, v in tags.items()}
    shared = table["shared"]
    reqs = []
    for m in shared:
        a, s = tr.to_wire(m["async_"]), tr.to_wire(m["sync"])
        reqs += [(1, [a, s]), (5, [a, s]), (2, [a, s])]
    rep = chk.oracle.query(reqs)
    differing, erase_only = [], []
    details = {}
    for i, m in enumerate(shared):
        eq, eq_erase, path = rep[3 * i], rep[3 * i + 1], rep[3 * i + 2]
        is_async = m["async_"][1] == tags["AsyncFunctionDef"]
        chk.count(("twin", m["name"]) if (is_async or m["async_"] != m["sync"]) else None)
        if eq != 1:
            differing.append(m["name"])
            details[m["name"]] = dict(first_difference_path=path[0] if path else None,
                                      sync=f"{tr.MODULES[m['sync_mod']]}:{m['sync_line']}",
                                      **{"async": f"{tr.MODULES[m['async_mod']]}:{m['async_line']}"})
        if eq_erase != 1:
            erase_only.append(m["name"])
    # the await discipline, per tree, by the extracted awaits_ok
    afd = tags["AsyncFunctionDef"]
    asyncs = [m["async_"] for m in shared] + [t for _, t in table["async_only"]]
    selfs = [t[2][0][1] for t in asyncs if t[1] == afd]
    adapters = [t[2][0][1] for _, t in table["iface"] if t[1] == afd]
    named = [(m["name"], m["async_"]) for m in shared] + table["async_only"] + table["core_inherited"]
    rep4 = chk.oracle.query([(4, [tr.to_wire(t), selfs, adapters]) for _, t in named])
    undisciplined = [n for (n, _), r in zip(named, rep4) if r != 1]
    rep6 = chk.oracle.query([(6, tr.to_wire(m[k])) for m in shared for k in ("async_", "sync")])
    unscoped = [m["name"] for i, m in enumerate(shared) if rep6[2 * i] != 1 or rep6[2 * i + 1] != 1]
    chk.extra["temporaries_not_scoped"] = unscoped
    for n, _ in named:
        chk.count(("discipline", n))
    sync_only = [n for n, _ in table["sync_only"]]
    async_only = [n for n, _ in table["async_only"]]
    chk.extra["programs"] = len(shared)
    chk.extra["twin_pairs_compared"] = len(shared)
    chk.extra["twin_tree_nodes"] = sum(tr.size(m["sync"]) + tr.size(m["async_"]) for m in shared)
    chk.extra["twins_differing_after_canon"] = differing
    chk.extra["twins_differing_after_erase_only"] = erase_only
    chk.extra["twin_difference_details"] = details
    chk.extra["await_discipline_failures"] = undisciplined
    chk.extra["sync_only_methods"] = sync_only
    chk.extra["async_only_methods"] = async_only
    chk.extra["discipline_trees_checked"] = len(named)
    for m in shared[:2] + [x for x in shared if x["name"] in ("_add_policy", "save_policy")][:2]:
        chk.sample(dict(kind="twin-pair", method=m["name"], sync_nodes=tr.size(m["sync"]),
                        async_nodes=tr.size(m["async_"]), canon_equal=m["name"] not in differing,
                        equal_after_erase_only=m["name"] not in erase_only))
    # kernel vs extraction: the two facts both decide
    oracle_ok = differing == CONSTRUCTOR_EXCEPTIONS and not undisciplined and not unscoped
    if chk.proof is not None and chk.proof.ok and not oracle_ok:
        chk.disagree(dict(kind="kernel-vs-extraction"),
                     dict(differing=differing, undisciplined=undisciplined, unscoped=unscoped),
                     "Props/C18.v checked", where="extracted canon/awaits_ok disagree with the kernel-checked table facts")
    # vm_compute cross-check of the extracted oracle on a sample of pairs
    k = 10 if chk.tier == "quick" else 40
    idx = sorted(chk.rng.sample(range(len(shared)), min(k, len(shared))))
    creqs = [reqs[3 * i] for i in idx] + [reqs[3 * i + 1] for i in idx]
    creps = [rep[3 * i] for i in idx] + [rep[3 * i + 1] for i in idx]
    ok, n, log = vm_crosscheck(PROP, "From PyCasbin Require Import Base AsyncEq.", "oracle_C18", creqs, creps, chunk=10)
    chk.vm_checked = n
    if not ok:
        chk.disagree(dict(kind="extraction-vs-vm_compute"), "extracted oracle", log, where="vm_compute cross-check")
    suspects = (set(differing) - set(CONSTRUCTOR_EXCEPTIONS)) | set(undisciplined) | set(unscoped)
    return table, suspects


def case_key(case):
    return hashlib.sha1(json.dumps(case, sort_keys=True).encode()).hexdigest()[:16]


MUTATORS = ("add_", "remove_", "update_", "delete_", "load_", "save_", "clear_")


def nontrivial(case, sync_obs):
    """a history is non-trivial when at least one call changed the policy, reached the adapter or the watcher"""
    if not sync_obs.get("steps"):
        return False
    for op, st in zip(case["ops"], sync_obs["steps"]):
        if st["adapter_calls"] or st["watcher_events"]:
            return True
        if op[0].startswith(MUTATORS) and st["result"][0] == "ok" and st["result"][1]:
            return True
    return False


def differential(chk, n_cases, boost, maxops):
    buckets = chk.extra.setdefault("_buckets", {})
    strata = chk.extra.setdefault("history_strata", {})
    opcount = chk.extra.setdefault("op_kinds_exercised", {})
    for i in range(n_cases):
        case = U.gen_case(chk.rng, boost, maxops)
        diff, s, a = U.run_case(case)
        chk.count(case_key(case) if nontrivial(case, s) else None)
        chk.traces += 1
        k = f"{case['model']}/{case['adapter']}/{case['watcher']}{'+coro' if case.get('coro') else ''}"
        strata[k] = strata.get(k, 0) + 1
        for op in case["ops"]:
            opcount[op[0]] = opcount.get(op[0], 0) + 1
        if i % max(1, n_cases // 3) == 0 and s.get("steps"):
            chk.sample(dict(kind="history", case=case, results=[st["result"] for st in s["steps"]][:14], equal=diff is None))
        if diff is not None:
            # control: results that depend on the iteration order of sets of objects hashed by address differ
            # between two runs of the SAME class; such a difference says nothing about the async twin
            ctl = U.compare(s, U.run_sync(case))
            again = [U.run_case(case)[0] for _ in range(2)]
            if ctl is not None or not all(again):
                flaky = chk.extra.setdefault("nondeterministic_cases_ignored", dict(count=0))
                flaky["count"] += 1
                flaky.setdefault("example", dict(case=case, sync_vs_sync=ctl, first=diff["what"]))
                continue
            b = diff["first_bad_step"]
            opname = case["ops"][b][0] if 0 <= b < len(case["ops"]) else ("construct" if b < 0 else "final")
            key = f"{diff['what']} @ {opname}" + (" [conditional-links model]" if case["model"] == "cond" else "")
            if key not in buckets:
                buckets[key] = dict(count=0, case=case)
            buckets[key]["count"] += 1


def report_failures(chk, max_shrunk=6):
    buckets = chk.extra.pop("_buckets", {})
    summary = {}
    # shrink the most frequent / most specific buckets first; step-level differences before construction
    order = sorted(buckets.items(), key=lambda kv: (" @ construct" in kv[0], " @ final" in kv[0], -kv[1]["count"]))
    seen_shrunk = set()
    for key, b in order[:max_shrunk]:
        small = U.shrink(b["case"], budget=300)
        diff, s, a = U.run_case(small)
        if diff is None:                      # flaky?  keep the unshrunk one
            small = b["case"]
            diff, s, a = U.run_case(small)
            if diff is None:
                chk.notes.append(f"failure bucket not reproducible: {key}")
                continue
        ck = case_key(small)
        summary[key] = dict(count=b["count"], shrunk_ops=len(small["ops"]))
        if ck in seen_shrunk:
            continue
        seen_shrunk.add(ck)
        chk.spec_fail(small, {"async": diff["async"]}, {"sync": diff["sync"]},
                      f"AsyncEnforcer and Enforcer diverge: {diff['what']} (first differing step {diff['first_bad_step']})")
    for key, b in order[max_shrunk:]:
        summary[key] = dict(count=b["count"])
    if summary:
        chk.extra["failure_buckets"] = summary


# ------------------------------------------------------------------------------ the BUNDLED file adapters as the equivalent pair
FA_MODEL = """[request_definition]
r = sub, obj, act
[policy_definition]
p = sub, obj, act
p2 = sub, act
[role_definition]
g = _, _
g2 = _, _
[policy_effect]
e = some(where (p.eft == allow))
[matchers]
m = g(r.sub, p.sub) && g2(r.obj, p.obj) && r.act == p.act
"""
FA_SUBS, FA_ROLES, FA_OBJS, FA_GROUPS, FA_ACTS = ["alice", "bob"], ["admin", "staff"], ["data1", "data2"], ["grp1", "grp2"], ["read", "write"]
FA_TYPES = ["p", "p2", "g", "g2"]


def fa_rule(rng, pt):
    if pt == "p":
        return [rng.choice(FA_SUBS + FA_ROLES), rng.choice(FA_OBJS + FA_GROUPS), rng.choice(FA_ACTS)]
    if pt == "p2":
        return [rng.choice(FA_SUBS + FA_ROLES), rng.choice(FA_ACTS)]
    if pt == "g":
        return [rng.choice(FA_SUBS), rng.choice(FA_ROLES)]
    return [rng.choice(FA_OBJS), rng.choice(FA_GROUPS)]


def fa_gen(rng, maxops):
    lines, present = [], {pt: [] for pt in FA_TYPES}
    for _ in range(rng.randint(0, 6)):
        pt = rng.choice(FA_TYPES)
        r = fa_rule(rng, pt)
        if r not in present[pt]:
            present[pt].append(r)
            lines.append(", ".join([pt] + r))
    ops = []
    for _ in range(rng.randint(2, maxops)):
        x = rng.random()
        pt = rng.choice(FA_TYPES)
        if x < 0.35:
            r = fa_rule(rng, pt)
            ops.append(["add_named_grouping_policy" if pt[0] == "g" else "add_named_policy", pt] + r)
            present[pt].append(r)
        elif x < 0.5:
            r = rng.choice(present[pt]) if present[pt] and rng.random() < 0.8 else fa_rule(rng, pt)
            ops.append(["remove_named_grouping_policy" if pt[0] == "g" else "remove_named_policy", pt] + r)
        elif x < 0.68:
            ops.append(["save_policy"])
        elif x < 0.82:
            ops.append(["load_policy"])
        elif x < 0.9:
            ops.append(["get_named_grouping_policy" if pt[0] == "g" else "get_named_policy", pt])
        else:
            ops.append(["enforce", rng.choice(FA_SUBS + FA_ROLES), rng.choice(FA_OBJS + FA_GROUPS), rng.choice(FA_ACTS)])
    ops += [["save_policy"], ["load_policy"]]
    # the store as a hand-edited file may look: comment and blank lines, CRLF / bare CR / no line ends at all, padded fields,
    # a tab after the comma, a form feed - both adapters must read the same rules from the same bytes
    if lines and rng.random() < 0.5:
        for _ in range(rng.randint(1, 3)):
            k = rng.randrange(len(lines) + 1)
            lines.insert(k, rng.choice(["# comment", "", "  ", "#p, zed, data9, read", "# note\r", "\x0c"]))
        sep = rng.choice(["\n", "\n", "\r\n", "\r", "\n\n"])
        lines = [l.replace(", ", rng.choice([", ", ",", ",\t", " , "])) if rng.random() < 0.3 and not l.startswith("#") else l for l in lines]
        text = sep.join(lines) + rng.choice(["", sep])
    else:
        text = "\n".join(lines) + ("\n" if lines else "")
    return dict(kind="file-adapter-history", stratum="bundled-file-adapters", initial_text=text, ops=ops)


def fa_run(case, is_async, path):
    """the history on Enforcer + FileAdapter (is_async False) or AsyncEnforcer + AsyncFileAdapter (every call awaited);
    after every step: result or exception type, the bytes of the store, the four policies"""
    import asyncio
    import casbin
    from casbin.model import Model
    from casbin.persist.adapters import FileAdapter
    from casbin.persist.adapters.asyncio import AsyncFileAdapter

    def wait(x):
        return U.loop().run_until_complete(x) if asyncio.iscoroutine(x) else x
    with open(path, "wb") as f:
        f.write(case["initial_text"].encode("utf-8"))
    m = Model()
    m.load_model_from_text(FA_MODEL)
    if is_async:
        e = casbin.AsyncEnforcer(m, AsyncFileAdapter(path))
        wait(e.load_policy())                   # the constructors differ by design: the dropped statement, awaited
    else:
        e = casbin.Enforcer(m, FileAdapter(path))

    def state():
        return dict(store=open(path, "rb").read().decode("utf-8", "replace"),
                    policy={pt: [list(r) for r in (e.get_named_grouping_policy(pt) if pt[0] == "g" else e.get_named_policy(pt))]
                            for pt in FA_TYPES})
    steps = [dict(result="construct", **state())]
    for op in case["ops"]:
        try:
            r = wait(getattr(e, op[0])(*op[1:]))
            res = ["ok", U.canon_value(r)]
        except Exception as exc:  # noqa
            res = ["raise", type(exc).__name__]
        steps.append(dict(result=res, **state()))
    decisions = []
    for s_ in FA_SUBS + FA_ROLES:
        for o in FA_OBJS + FA_GROUPS:
            for a in FA_ACTS:
                try:
                    decisions.append(bool(e.enforce(s_, o, a)))
                except Exception as exc:  # noqa
                    decisions.append(type(exc).__name__)
    return steps, decisions


def fa_diff(case, tmp):
    import os
    s_steps, s_dec = fa_run(case, False, os.path.join(tmp, "sync.csv"))
    a_steps, a_dec = fa_run(case, True, os.path.join(tmp, "async.csv"))
    for i, (a, b) in enumerate(zip(s_steps, a_steps)):
        if a != b:
            what = [k for k in ("result", "store", "policy") if a[k] != b[k]]
            return dict(first_bad_step=i - 1, what="step differs in " + ", ".join(what), sync=a, **{"async": b})
    if s_dec != a_dec:
        return dict(first_bad_step=len(case["ops"]), what="final decisions differ", sync=s_dec, **{"async": a_dec})
    return None


def file_adapter_histories(chk, n, maxops):
    """'with equivalent adapters attached they issue the same adapter writes': the library's own FileAdapter /
    AsyncFileAdapter on a model with named policy types (p2, g2) - the bytes written by every save_policy, the policies
    after every load_policy, step results and final decisions are equal"""
    import tempfile
    import time
    done, t0 = 0, time.time()
    with tempfile.TemporaryDirectory(prefix="c18_fa_") as tmp:
        for _ in range(n):
            case = fa_gen(chk.rng, maxops)
            d = fa_diff(case, tmp)
            done += 1
            chk.traces += 1
            chk.count(case_key(case) if any(op[0] == "save_policy" for op in case["ops"][:-2]) or case["initial_text"] else None)
            if d is not None:
                if fa_diff(case, tmp) is None:
                    chk.notes.append("bundled-file-adapter difference not reproducible")
                    continue
                ops = list(case["ops"])
                i = len(ops) - 1
                while i >= 0:
                    cand = dict(case, ops=ops[:i] + ops[i + 1:])
                    if fa_diff(cand, tmp) is not None:
                        ops = cand["ops"]
                    i -= 1
                small = dict(case, ops=ops)
                d = fa_diff(small, tmp) or d
                chk.spec_fail(small, {"async": d["async"]}, {"sync": d["sync"]},
                              f"AsyncEnforcer + AsyncFileAdapter and Enforcer + FileAdapter diverge: {d['what']} "
                              f"(first differing step {d['first_bad_step']})")
                break
    chk.extra.setdefault("history_strata", {})["bundled-file-adapters (p, p2, g, g2)"] = done
    chk.extra.setdefault("strata", {}).update(bundled_file_adapter_histories=done, bundled_file_adapter_wall_s=round(time.time() - t0, 1))


def replay(chk):
    rec = json.load(open(chk.replay_file))
    case = rec.get("case") or {}
    if case.get("kind") == "file-adapter-history":
        import tempfile
        with tempfile.TemporaryDirectory(prefix="c18_fa_") as tmp:
            d = fa_diff(case, tmp)
        U.close_loop()
        if d is not None:
            print(f"replay: first differing step {d['first_bad_step']}: {d['what']}")
            print(f"  sync : {json.dumps(d['sync'])[:500]}")
            print(f"  async: {json.dumps(d['async'])[:500]}")
            print(f"VIOLATION property={PROP} replay={chk.replay_file}")
            sys.exit(1)
        print(f"replay passes: Enforcer + FileAdapter and AsyncEnforcer + AsyncFileAdapter agree on all {len(case['ops'])} steps")
        sys.exit(0)
    if "ops" not in case:
        print("replay file names a broken theorem/correspondence, not an input:", json.dumps(rec.get("broken"))[:800])
        if chk.proof is not None and chk.proof.ok and not chk.oracle_log:
            print("the Props/C18.v cone checks on the current tree")
            sys.exit(0)
        print(f"VIOLATION property={PROP} replay={chk.replay_file} no-failing-input-found")
        sys.exit(1)
    diff, s, a = U.run_case(case)
    U.close_loop()
    if diff is not None:
        print(f"replay: first differing step {diff['first_bad_step']}: {diff['what']}")
        print(f"  sync : {json.dumps(diff['sync'])[:500]}")
        print(f"  async: {json.dumps(diff['async'])[:500]}")
        print(f"VIOLATION property={PROP} replay={chk.replay_file}")
        sys.exit(1)
    print(f"replay passes: Enforcer and AsyncEnforcer agree on all {len(case['ops'])} steps, final policy, "
          f"decisions, adapter and watcher logs")
    sys.exit(0)


def main():
    chk = Check(PROP, level="translation_validation")
    chk.rule = ("(1) every method name that the sync chain Enforcer>ManagementEnforcer>InternalEnforcer>CoreEnforcer and the "
                "async chain resolve to different definitions is one twin pair (a pair counts as non-trivial when the async "
                "twin is an `async def` or the raw trees differ); each is compared by the extracted canon/tree_eqb and the "
                "await discipline is evaluated on every tree the async chain executes; (2) random call histories (1-14 calls "
                "over the shared public API: management single/batch/filtered/update for p and g, RBAC API incl. get_all_*, "
                "get_implicit_*, domain variants, enforce/enforce_ex/batch_enforce, load/save/filtered loads, enable_* flags, "
                "one-shot adapter rejections/failures) on ACL / RBAC / RBAC-with-domains (+ a small conditional-links "
                "stratum) x adapter none|basic|batch+update|filtered x watcher none|plain|WatcherEx|partial WatcherEx with "
                "plain or coroutine callbacks; arguments biased to present rules (55 %), neighbours (25 %), fresh (20 %); "
                "ops reaching a method whose twins differ are boosted; compared step by step: result or exception type, "
                "adapter calls, watcher events; finally stored policy, decisions over the whole request universe, adapter "
                "store and logs, un-awaited coroutines; (3) histories on a model with named policy types (p, p2, g, g2) with the "
                "library's own FileAdapter / AsyncFileAdapter as the equivalent adapter pair (add/remove, save_policy, load_policy, "
                "queries): step results, the bytes of the store and the four policies after every step, final decisions.  "
                "A history is non-trivial when at least one call changed the "
                "policy or reached the adapter or watcher; distinct by the JSON of the whole case.")
    chk.assumptions = [
        "translator translators/asyncdiff.py dumps Python ast nodes 1:1 (injective encoding; fail-closed outside the tagged node classes)",
        "the semantic theorems are parametric in a compositional semantics in which Await is the identity and the rewrites R1-R3 "
        "(single-use temporary; getattr-bound callback; `if iscoroutinefunction(v): S else: S`) are valid; that the running "
        "interpreter is such a semantics for these methods is what the differential histories test, it is not proved",
        "asyncio runs an awaited coroutine to completion; one task, no concurrent mutation between awaits",
        "watcher.update() is a plain function as in casbin.persist.Watcher; only the update_for_* callbacks may be coroutine "
        "functions (the only ones the async code dispatches on)",
        "the two constructor helpers differ by design (no auto-load in the async constructor); the harness performs the dropped "
        "statement, awaited, right after construction",
        "methods on one side only (get_allowed_object_conditions) are outside the shared API",
    ]
    chk.trusted = ["translator: translators/asyncdiff.py (Python ast -> coq/gen/AsyncGen.v, regenerated on this run)",
                   "harness/async_util.py recording adapters/watchers are equivalent pairs (same storage code; the async one "
                   "wraps it in coroutines exactly where the async interfaces of the tree under test declare `async def`)"]
    chk.extra["repo_under_test"] = str(REPO)
    chk.build(translators=["asyncdiff"])
    global U
    try:
        from .. import async_util
        U = async_util
    except Exception as e:                      # noqa  (casbin itself does not import)
        chk.disagree(dict(kind="import"), f"{type(e).__name__}: {e}", "casbin imports", where="import casbin failed")
        chk.extra["programs"] = 0
        chk.finish()
    if chk.replay_file:
        return replay(chk)
    table, suspects = structural(chk)
    boost = {}
    if table is not None and suspects:
        reach = U.reaching_ops(table, suspects)
        boost = {n: 6.0 for n in reach}
        chk.extra["boosted_ops"] = sorted(reach)[:60]
    n_cases, maxops = (40000, 16) if chk.tier == "thorough" else (1500, 14)
    differential(chk, n_cases, boost, maxops)
    file_adapter_histories(chk, 3000 if chk.tier == "thorough" else 250, 12)
    if chk.tier == "quick" and (chk.broken() or chk.anchor_changed) and not chk.extra.get("_buckets") and not chk.spec_failures:
        chk.notes.append("escalated the history search after a broken proof/correspondence")
        differential(chk, 6000, boost, 16)
    report_failures(chk)
    U.close_loop()
    chk.extra["notes"] = chk.notes
    chk.finish()


if __name__ == "__main__":
    main()
