"""C19 — FastEnforcer decides exactly like Enforcer.
SPEC on the implementation: the same management history is run on a FastEnforcer (every admissible 2-field
cache-key order) and on a plain Enforcer; every decision, every management result and the sorted policy
must be equal after every call.  The plain side is additionally compared with the Mgmt model."""
import itertools

import casbin
from casbin.model.model_fast import FastModel

from ..core import Check
from .. import mgmt

PROP = "C19"
W = dict(p_add=8, p_add_many=5, p_remove=5, p_remove_many=3, p_remove_filtered=3, p_update=3, p_update_many=2,
         p_update_filtered=0, g_add=3, g_add_many=1, g_remove=2, g_remove_many=1, g_remove_filtered=1, rbac=3,
         clear=0.7, load=0.7, save=0.5, build=0, flags=0, query=8, probe=1)
KNOWN_EMPTY_KEY = "C19/empty-key-request"
# ops whose result is (or contains) the p rule list in storage order: compared as sorted lists
P_ORDERED = {52, 53, 61, 65, 66, 67, 69, 70, 62, 63, 64}


def canon(op, obs):
    res = obs[0]
    if op[0] in P_ORDERED and res[0] == 0 and isinstance(res[1], list):
        res = [0, sorted(res[1], key=repr)]
    if res[0] == 999:
        res = [999]                     # both raise: the exception class is not part of the property
    if op[0] == 51 and res[0] == 0:
        res = [0, [res[1][0]]]          # the explanation depends on iteration order: decision only
    return [res, sorted(obs[3], key=repr), obs[4], obs[5]]


def key_orders(kind):
    """admissible orders: two distinct policy fields the matcher compares by equality with the SAME request position
    (FastEnforcer indexes the request with the policy field positions)"""
    if kind.g:
        fields = [1, 2]                 # obj, act (sub goes through g())
    else:
        fields = [0, 1, 2]
    return [list(t) for t in itertools.permutations(fields, 2)]


def fast_impl_kwargs(order):
    return dict(enforcer_cls=casbin.FastEnforcer, enforcer_kwargs=dict(cache_key_order=order),
                model_factory=lambda: FastModel(order), sort_p=True)


def make_spec(order):
    def spec_check(kind, rows, lf, ops, obs, impl):
        fimpl, fobs = mgmt.run_impl(kind, rows, lf, ops, **fast_impl_kwargs(order))
        for i, (op, a, b) in enumerate(zip(ops, obs, fobs)):
            if canon(op, a) != canon(op, b):
                tag = None
                if op[0] in (50, 51) and all(op[1][x] == 0 for x in order if x < len(op[1])):
                    tag = KNOWN_EMPTY_KEY
                what = "decision" if op[0] in (50, 51) else ("management result / policy" if op[0] < 50 else "query result")
                return [(i, f"FastEnforcer and Enforcer differ ({what})", tag)]
        return []
    spec_check.case_extra = dict(cache_key_order=list(order))
    return spec_check


def known_probe(chk):
    A = mgmt.ATOMS.a
    kind = mgmt.KINDS["acl"]
    ops = [(1, 0, [A("alice"), A("data1"), A("read")]), (50, [0, 0, 0])]
    mgmt.run_cases(chk, kind, [([], True, ops, make_spec([2, 1]))], None, label="known-finding-probe")


def run(chk, n):
    rng = chk.rng
    known_probe(chk)
    for kn in ("acl", "acl_deny", "rbac", "rbac_deny"):
        kind = mgmt.KINDS[kn]
        orders = key_orders(kind)
        cases = []
        for i in range(n):
            order = orders[i % len(orders)]
            g = mgmt.Gen(rng, kind, W)
            rows = g.rows(rng.randint(0, 8))
            ops = [o for o in g.history(rng.randint(3, 16)) if not (o[0] in (50, 51) and all(v == 0 for v in o[1]))]
            cases.append((rows, True, ops, make_spec(order)))
        mgmt.run_cases(chk, kind, cases, None, label=f"random-{kn}")
        chk.extra.setdefault("strata", {})[f"random_{kn}"] = dict(histories=len(cases), key_orders=orders)


def replay(chk):
    import json
    rec = json.load(open(chk.replay_file))
    order = (rec.get("case") or {}).get("cache_key_order") or [2, 1]
    return mgmt.replay_case(chk, make_spec(order))


def main():
    chk = Check(PROP)
    chk.rule = ("management histories (single/batch/filtered/update, RBAC wrappers, clear, reload) with decisions over the "
                "request universe, run side by side on FastEnforcer and Enforcer for every admissible 2-field cache-key "
                "order (6 on ACL models, 2 on RBAC models), allow- and deny-type effects; non-trivial = at least one "
                "mutating call; distinct by (kind, mutating calls)")
    chk.assumptions = ["admissible cache-key order = two distinct policy fields compared by equality with the request field "
                       "at the same position (FastPolicy hard-codes two index levels; other lengths are unsupported)",
                       "priority effects are inadmissible for FastEnforcer (its buckets are unordered sets)",
                       "only the first p / g definition is loaded by FastModel (add_def returns None): models with g2/p2 "
                       "are outside 'ACL and RBAC models'"]
    chk.trusted = ["hand-written models coq/theories/{Policy,RoleGraph,Mgmt,Fast}.v tied by the differential history correspondence"]
    chk.build(oracle_name="Mgmt")
    if chk.replay_file:
        return replay(chk)
    if chk.tier == "thorough":
        run(chk, 1200)
    else:
        run(chk, 120)
        if chk.broken() and not chk.spec_failures:
            run(chk, 600)
    chk.finish()


if __name__ == "__main__":
    main()
