"""C19 — FastEnforcer decides exactly like Enforcer.
Proof: Props/C19.v (Fast.v / FastProofs.v: the two-level index refines the abstract duplicate-free rule set,
bucket_exact, never_hides / never_resurrects over arbitrary histories, decide_equal with the explicit
empty_rule_quirk guard).
Correspondence / search for a failing input, four strata:
  A  container   the REAL FastPolicy (obtained from a real FastModel) driven by op sequences
                 (append/remove/contains/iter/len/index/item assignment/apply_filter/clear_filter/
                 fast_policy_filter around a raising body/FastModel.clear_policy), every cache-key order over
                 positions 0..3, rules of length 0..4 with repeated and empty fields  vs  the extracted model
                 (oracle_C19 tag 1); the SET SPEC (the statements of the refinement theorems) is evaluated on the
                 implementation's own observations;
  B  enforcer    a REAL FastEnforcer (ACL kinds, no adapter) driven by management calls + decisions
                 vs  the extracted model of policy.py-on-the-container + FastEnforcer.enforce (tag 2);
  C  differential (the SPEC of the property on the implementation) the same management history on a real
                 FastEnforcer (every admissible 2-field cache-key order) and on a real Enforcer: every decision,
                 every management result and the sorted policy equal after every call; the plain side is also
                 compared with the Mgmt model;
  D  decide_equal evaluated by the model (tag 3) on random policies/requests: fast = plain unless empty_rule_quirk.
  C' further configurations, same spec as C: key orders of one / three / four fields, values containing "," or ", ",
     models with a second policy definition p2;   A' the container at index depths other than two (set spec only).
"""
import itertools
import json
import sys

import casbin
from casbin.model.model_fast import FastModel
from casbin.model.policy_fast import FastPolicy, fast_policy_filter

from .. import core
from ..core import Check, classify_exception
from .. import mgmt

PROP = "C19"
W = dict(p_add=8, p_add_many=5, p_remove=5, p_remove_many=3, p_remove_filtered=3, p_update=3, p_update_many=2,
         p_update_filtered=0, g_add=3, g_add_many=1, g_remove=2, g_remove_many=1, g_remove_filtered=1, rbac=3,
         clear=0.7, load=0.7, save=0.5, build=0, flags=0, query=8, probe=1)
KNOWN_EMPTY_KEY = "C19/empty-key-request"
# ops whose result is (or contains) the p rule list in storage order: compared as sorted lists
P_ORDERED = {52, 53, 61, 65, 66, 67, 69, 70, 62, 63, 64}
A = mgmt.ATOMS.a
S = mgmt.S
ORACLE = None          # oracle_C19 (container / enforcer model); chk.oracle is the Mgmt model


# ============================================================================ C: Fast vs plain differential
def canon(op, obs):
    res = obs[0]
    if op[0] in P_ORDERED and res[0] == 0 and isinstance(res[1], list):
        res = [0, sorted(res[1], key=repr)]
    if res[0] == 999:
        res = [999]                     # both raise: the exception class is not part of the property
    if op[0] == 51 and res[0] == 0:
        res = [0, [res[1][0]]]          # the explanation depends on iteration order: decision only
    return [res, sorted(obs[3], key=repr), obs[4], obs[5]]


def key_orders(kind):
    """admissible orders: two distinct policy fields the matcher compares by equality with the SAME request position
    (FastEnforcer indexes the request with the policy field positions)"""
    if kind.g:
        fields = [1, 2]                 # obj, act (sub goes through g())
    else:
        fields = [0, 1, 2]
    return [list(t) for t in itertools.permutations(fields, 2)]


def fast_impl_kwargs(order, model_text=None):
    kw = dict(enforcer_cls=casbin.FastEnforcer, enforcer_kwargs=dict(cache_key_order=order),
              model_factory=lambda: FastModel(order), sort_p=True)
    if model_text:
        kw["model_text"] = model_text
    return kw


class FastImplNoIter(mgmt.Impl):
    """the FastEnforcer side for key orders of another length than two: FastPolicy's UNFILTERED iteration hard-codes two
    index levels (policy_fast.py:91-94), so the p rules are not read back after every call (g rules are plain lists)"""

    def policy(self, pt):
        return [] if pt == 0 else super().policy(pt)


def run_fast(kind, rows, lf, ops, order, model_text=None):
    kw = fast_impl_kwargs(order, model_text)
    if len(order) == 2:
        return mgmt.run_impl(kind, rows, lf, ops, **kw)
    impl = FastImplNoIter(kind, rows, lf, **kw)
    return impl, [impl.step(op) for op in ops]


def make_spec(order, model_text=None):
    """Fast = plain call by call.  For key orders of another length than two only the results are compared (see
    FastImplNoIter; the histories of those strata contain only calls the unchanged FastPolicy supports there)."""
    two = len(order) == 2

    def spec_check(kind, rows, lf, ops, obs, impl):
        try:
            fimpl, fobs = run_fast(kind, rows, lf, ops, order, model_text)
        except Exception as exc:  # noqa   (construction / the initial load: Enforcer got through it, see run_cases)
            return [(0, "FastEnforcer raised while being built / loading the policy that Enforcer loads "
                        f"({type(exc).__name__})", None)]
        for i, (op, a, b) in enumerate(zip(ops, obs, fobs)):
            ca, cb = canon(op, a), canon(op, b)
            if not two:
                ca[1] = cb[1] = []
            if ca != cb:
                tag = None
                if op[0] in (50, 51) and len(op[1]) > max(order) and all(op[1][x] == 0 for x in order):
                    tag = KNOWN_EMPTY_KEY
                what = "decision" if op[0] in (50, 51) else ("management result / policy" if op[0] < 50 else
                                                              "batch_enforce" if op[0] == 71 else "query result")
                return [(i, f"FastEnforcer and Enforcer differ ({what})", tag)]
        if any(op[0] == 71 for op in ops):
            # batch_enforce = enforce position by position, on either enforcer
            for who, ob in (("FastEnforcer", fobs), ("Enforcer", obs)):
                v = mgmt.batch_spec(ops, ob)
                if v:
                    return [(v[0][0], f"{who}: {v[0][1]}", None)]
        return []
    spec_check.case_extra = dict(cache_key_order=list(order))
    if model_text:
        spec_check.case_extra["model_text"] = model_text
    return spec_check


def known_probe(chk):
    kind = mgmt.KINDS["acl"]
    ops = [(1, 0, [A("alice"), A("data1"), A("read")]), (50, [0, 0, 0])]
    mgmt.run_cases(chk, kind, [([], True, ops, make_spec([2, 1]))], None, label="known-finding-probe")
    # repaired defect C19/short-request-indexed-first: a request that does not reach a key position, enforcement off / on
    ops2 = [(1, 0, [A("alice"), A("data1"), A("read")]), (38, False), (50, [A("alice")]), (38, True), (50, [A("alice")])]
    mgmt.run_cases(chk, kind, [([], True, ops2, make_spec([2, 1]))], None, label="short-request-probe")


def run_differential(chk, n):
    rng = chk.rng
    known_probe(chk)
    for kn in ("acl", "acl_deny", "rbac", "rbac_deny"):
        kind = mgmt.KINDS[kn]
        orders = key_orders(kind)
        cases = []
        for i in range(n):
            order = orders[i % len(orders)]
            g = mgmt.Gen(rng, kind, W)
            rows = g.rows(rng.randint(0, 8))
            ops = [o for o in g.history(rng.randint(3, 16)) if not (o[0] in (50, 51) and all(v == 0 for v in o[1]))]
            prows = [r for pt, r in rows if pt == 0]
            if len(prows) >= 2 and rng.random() < 0.35:
                # a batch update of rules that ARE present (right after the load), each replacement changing indexed
                # fields: on the index an item assignment is remove + append, so positions move between the pairs
                olds = rng.sample(prows, rng.randint(2, min(3, len(prows))))
                news, taken = [], {tuple(r) for r in prows}
                for o in olds:
                    for _ in range(20):
                        nw = list(o)
                        for x in order:
                            nw[x] = g.fresh(0)[x]
                        if tuple(nw) not in taken:
                            break
                    taken.add(tuple(nw))
                    news.append(nw)
                ops.insert(0, (7, [list(o) for o in olds], news))
            # (not after clear_policy: it is memory-only, so the store can then hold a rule twice, and a policy LOADED with a
            # repeated line is a list for Enforcer and a set for FastEnforcer - same set of rules, outside this comparison)
            if rng.random() < 0.3 and not any(o[0] == 30 for o in ops):
                pos = rng.randrange(len(ops) + 1)
                ops[pos:pos] = [(32, rng.randint(0, 5)) if rng.random() < 0.7 else (31,)] + mgmt.probe_ops(kind, mgmt.Universe(kind))[:6]
            if rng.random() < 0.15:          # enforcement switched off (and maybe on again) somewhere
                ops.insert(rng.randrange(len(ops)), (38, False))
                if rng.random() < 0.5:
                    ops.insert(rng.randrange(len(ops)), (38, True))
            cases.append((rows, True, ops, make_spec(order)))
        mgmt.run_cases(chk, kind, cases, None, label=f"random-{kn}")
        chk.extra.setdefault("strata", {})[f"differential_{kn}"] = dict(histories=len(cases), key_orders=orders)
    run_batch(chk, max(20, n // 2))
    run_configurations(chk, max(24, n // 4))


def run_batch(chk, n):
    """batch_enforce: histories whose decisions are asked through batch_enforce, the batch containing the same request
    at several positions (and, sometimes, a request too short for the key positions); each batch is preceded by one
    enforce per distinct request.  Fast = plain call by call, and on both batch_enforce = enforce position by position.
    (batch_enforce is not part of the Mgmt model: no model comparison here.)"""
    rng = chk.rng
    for kn in ("acl", "acl_deny", "rbac", "rbac_deny"):
        kind = mgmt.KINDS[kn]
        orders = key_orders(kind)
        uni = mgmt.Universe(kind)
        reqs = uni.requests()
        cases, nb, nrep = [], 0, 0
        for i in range(n):
            order = orders[i % len(orders)]
            g = mgmt.Gen(rng, kind, dict(W, query=0, probe=0, load=0, clear=0))
            rows = g.rows(rng.randint(1, 8))
            ops = []
            for _ in range(rng.randint(1, 4)):
                for _ in range(rng.randint(0, 4)):
                    ops.extend(g.op())
                if rng.random() < 0.12:
                    ops.append((38, rng.random() < 0.5))
                blk = mgmt.batch_block(rng, reqs)
                if rng.random() < 0.1:          # a request that does not reach a key position (raises on both)
                    short = list(rng.choice(reqs))[:min(order)]
                    blk = blk[:-1] + [(50, short), (71, blk[-1][1] + [short])]
                elif rng.random() < 0.25:       # the whole universe, every request twice, in two different orders
                    twice = [list(r) for r in reqs] + [list(r) for r in rng.sample(reqs, len(reqs))]
                    blk = [(50, list(r)) for r in reqs] + [(71, twice)]
                ops.extend(blk)
                nb += 1
                nrep += len(blk[-1][1]) - len({tuple(r) for r in blk[-1][1]})
            cases.append((rows, True, ops, make_spec(order)))
        mgmt.run_cases(chk, kind, cases, None, label=f"batch-{kn}", compare_model=False)
        chk.extra.setdefault("strata", {})[f"batch_enforce_{kn}"] = dict(histories=len(cases), batches=nb,
                                                                         repeated_positions=nrep, key_orders=orders)


# ============================================================================ C': further configurations
# (same spec as C - Fast = plain call by call - on configurations the four kinds above do not reach)
# values that contain the separators of the policy text ("," and ", "); interned here, in a fixed order, so that the atom
# numbers written to a replay mean the same strings in every run
COMMA_SUBS = [A(x) for x in ("smith,john", "smith", "smith, john", "alice")]
COMMA_DOMS = [A(x) for x in ("hr", "john,hr", "john, hr")]
COMMA_OBJS = [A(x) for x in ("data1", "data1,read")]
COMMA_ACTS = [A(x) for x in ("read", "write", "read,write")]
# a second policy definition is stored under its own policy type: the shared row tables learn its name (rows only - no
# management call of this harness addresses it)
mgmt.PT.setdefault(3, ("p", "p2"))
mgmt.PT_OF.setdefault("p2", 3)
P2_FIELDS = ["sub", "act", "obj", "ext"]
# all-equality ACL over four fields (r = sub, dom, obj, act; no role definition)
ACL4 = mgmt.Kind("acl4", dom=True)


def comma_universe(kind):
    u = mgmt.Universe(kind)
    u.subs, u.objs, u.acts = list(COMMA_SUBS), list(COMMA_OBJS), list(COMMA_ACTS)
    if kind.dom:
        u.doms = list(COMMA_DOMS)
    return u


def same_text_rules(kind, uni):
    """rule of the universe -> the OTHER rules of the universe whose fields joined by "," or by ", " give the same text"""
    cols = ([] if not kind.prio else [uni.prios]) + [uni.subs] + ([uni.doms] if kind.dom else []) + [uni.objs, uni.acts] + \
        ([uni.efts] if kind.eft else [])
    by_text = {}
    for r in itertools.product(*cols):
        for sep in (",", ", "):
            by_text.setdefault((sep, sep.join(S(r))), []).append(r)
    out = {}
    for rs in by_text.values():
        for r in rs:
            out.setdefault(r, [])
            out[r].extend(x for x in rs if x != r and x not in out[r])
    return {r: v for r, v in out.items() if v}


def eq_fields(kind):
    """policy fields the matcher of mgmt.Kind.model_text compares by equality with the request field at the same position"""
    f = [] if kind.g else [0]
    if kind.dom:
        f.append(1)
    return f + [kind.i_obj, kind.i_act]


def orders_of(kind, n):
    return [list(t) for t in itertools.permutations(eq_fields(kind), n)]


def drop_empty_key(ops):
    return [o for o in ops if not (o[0] in (50, 51) and all(v == 0 for v in o[1]))]


def run_commas(chk, n):
    """values containing "," / ", " (so that DIFFERENT rules can have the same comma-joined text, also inside one bucket),
    on four-field models (two fields outside the key) and the three-field ones; no adapter: the policy text format
    itself cannot carry such values, they arrive through the management API"""
    rng = chk.rng
    for kn, kind, share in (("acl4", ACL4, 1.0), ("dom", mgmt.KINDS["dom"], 0.5), ("acl", mgmt.KINDS["acl"], 0.25),
                            ("rbac", mgmt.KINDS["rbac"], 0.25)):
        kind = kind.with_(adapter=False)
        orders = orders_of(kind, 2)
        twin_map = same_text_rules(kind, comma_universe(kind))
        cases, twins = [], 0
        for i in range(max(4, int(n * share))):
            order = orders[i % len(orders)]
            g = mgmt.Gen(rng, kind, W)
            g.uni = comma_universe(kind)
            ops = []
            for _ in range(rng.randint(3, 16)):
                new = g.op()
                ops.extend(new)
                if new[0][0] == 1 and new[0][1] == 0 and rng.random() < 0.5:
                    # another rule of the universe with the same joined text is added too (and known to the generator)
                    tw = [t for t in twin_map.get(tuple(new[0][2]), ())]
                    if tw:
                        t = list(rng.choice(tw))
                        g.seen[0].append(t)
                        g.present.append(t)
                        ops.append((1, 0, t))
            ops = drop_empty_key(ops)
            ops += mgmt.probe_ops(kind, g.uni, roles=False)
            if rng.random() < 0.15:
                ops.insert(rng.randrange(len(ops)), (38, False))
            added = [tuple(o[2]) for o in ops if o[0] == 1 and o[1] == 0] + \
                    [tuple(r) for o in ops if o[0] == 2 and o[1] == 0 for r in o[2]]
            texts = {}
            for r in added:
                texts.setdefault(",".join(S(r)), set()).add(r)
                texts.setdefault(", ".join(S(r)), set()).add(r)
            twins += any(len(v) > 1 for v in texts.values())
            cases.append(([], True, ops, make_spec(order)))
        mgmt.run_cases(chk, kind, cases, None, label=f"commas-{kn}")
        chk.extra.setdefault("strata", {})[f"comma_values_{kn}"] = dict(
            histories=len(cases), key_orders=orders, histories_adding_two_rules_with_one_joined_text=twins)


def p2_model_text(kind, n2):
    """kind's model with a second request / policy definition / matcher of n2 fields next to the first"""
    names = P2_FIELDS[:n2]
    out = []
    for line in kind.model_text().split("\n"):
        out.append(line)
        if line.startswith("r = "):
            out.append("r2 = " + ", ".join(names))
        elif line.startswith("p = "):
            out.append("p2 = " + ", ".join(names))
        elif line.startswith("m = "):
            out.append("m2 = " + " && ".join(f"r2.{x} == p2.{x}" for x in names))
    return "\n".join(out)


def run_second_definition(chk, n):
    """models with a second policy definition p2 (1-4 fields: shorter than, as long as, longer than p) whose rows are in
    the store next to the p / g rows: everything asked of p (decisions, management, the policy) must be as on Enforcer.
    (FastModel keeps only the first definition of a section, so p2 itself is not addressed.)"""
    rng = chk.rng
    for kn in ("acl", "acl_deny", "rbac", "rbac_deny"):
        kind = mgmt.KINDS[kn]
        orders = key_orders(kind)
        per = max(2, n // 4)
        nrows = 0
        for n2 in (2, 1, 3, 4):
            text = p2_model_text(kind, n2)
            cases = []
            for i in range(per if n2 == 2 else max(1, per // 3)):
                order = orders[rng.randrange(len(orders))]
                g = mgmt.Gen(rng, kind, W)
                rows = g.rows(rng.randint(0, 6))
                for _ in range(rng.randint(1, 3)):
                    r = g.fresh(0)
                    r2 = [rng.choice(r) for _ in range(n2)]
                    if (3, r2) not in rows:
                        rows.insert(rng.randrange(len(rows) + 1), (3, r2))
                        nrows += 1
                ops = drop_empty_key(g.history(rng.randint(2, 10)))
                if rng.random() < 0.5:
                    pos = rng.randrange(len(ops) + 1)
                    if not any(o[0] == 30 for o in ops[:pos]):
                        ops[pos:pos] = [(31,) if rng.random() < 0.6 else (32, rng.randint(0, len(rows)))] + \
                            mgmt.probe_ops(kind, g.uni, roles=False)[:6]
                cases.append((rows, True, ops, make_spec(order, text)))
            mgmt.run_cases(chk, kind, cases, None, label=f"second-definition-{kn}-p2x{n2}",
                           impl_kwargs=dict(model_text=text), compare_model=False)
            chk.extra.setdefault("strata", {}).setdefault(f"second_policy_definition_{kn}", dict(
                key_orders=orders, histories=0, p2_rows=0))["histories"] += len(cases)
        chk.extra["strata"][f"second_policy_definition_{kn}"]["p2_rows"] = nrows


# calls the unchanged FastPolicy supports when the index has another depth than two (everything else reads the policy
# through the unfiltered iteration, or through len(), which hard-code two levels)
W_KEYS = {1: dict(p_remove=5, p_remove_many=3),
          3: dict(p_add=8, p_add_many=5, p_remove=5, p_remove_many=3)}
W_KEYS[4] = W_KEYS[3]


def run_key_lengths(chk, n):
    """cache-key orders of ONE, THREE and FOUR equality-compared fields (every permutation): load / reload (also failing
    part-way), add / batch add / remove / batch remove (one key: removals only - adding calls len()), clear_policy,
    enable_enforce, and enforce / batch_enforce / has_policy over the request and rule universe after them"""
    rng = chk.rng
    for kn, kind in (("acl", mgmt.KINDS["acl"]), ("acl_deny", mgmt.KINDS["acl_deny"]), ("acl4", ACL4),
                     ("rbac", mgmt.KINDS["rbac"]), ("rbac_deny", mgmt.KINDS["rbac_deny"])):
        lens = [k for k in (1, 3, 4) if k <= len(eq_fields(kind))]
        all_orders = {k: orders_of(kind, k) for k in lens}
        cases, used = [], {k: 0 for k in lens}
        for i in range(n if len(lens) > 1 else max(2, n // 2)):
            k = lens[i % len(lens)]
            order = all_orders[k][(i // len(lens)) % len(all_orders[k])]
            used[k] += 1
            w = dict({x: 0 for x in mgmt.DEFAULT_WEIGHTS}, load=1.5, **W_KEYS[k])
            if kind.g:
                w.update(g_add=3, g_add_many=1, g_remove=2, g_remove_many=1, g_remove_filtered=1)
            g = mgmt.Gen(rng, kind, w)
            uni = g.uni
            reqs = uni.requests()
            rows = g.rows(rng.randint(2, 9))
            ops = []
            for _ in range(rng.randint(2, 10)):
                x = rng.random()
                if x < 0.5:
                    ops.extend(g.op())
                elif x < 0.55:
                    ops.append((32, rng.randint(0, len(rows))))
                elif x < 0.75:
                    ops.append((50, list(rng.choice(reqs))))
                elif x < 0.9:
                    ops.append((54, 0, g.rule(0)))
                elif x < 0.95:
                    ops.extend(mgmt.batch_block(rng, reqs))
                else:
                    ops.append((38, rng.random() < 0.5))
            if rng.random() < 0.15:                     # clear_policy (memory only): no reload after it
                pos = rng.randrange(len(ops) + 1)
                ops = ops[:pos] + [(30,)] + [o for o in ops[pos:] if o[0] not in (31, 32)]
            ops += mgmt.probe_ops(kind, uni, roles=False)
            seen = {tuple(r) for pt, r in rows if pt == 0} | {tuple(r) for r in g.seen[0]}
            ops += [(54, 0, list(r)) for r in sorted(seen)]
            cases.append((rows, True, ops, make_spec(order)))
        # (batch_enforce is not part of the Mgmt model)
        with_batch = [c for c in cases if any(o[0] == 71 for o in c[2])]
        mgmt.run_cases(chk, kind, [c for c in cases if c not in with_batch], None, label=f"key-lengths-{kn}")
        mgmt.run_cases(chk, kind, with_batch, None, label=f"key-lengths-{kn}", compare_model=False)
        chk.extra.setdefault("strata", {})[f"key_lengths_{kn}"] = dict(
            histories=len(cases), per_number_of_keys=used, orders={k: len(v) for k, v in all_orders.items()})


def run_configurations(chk, n):
    run_key_lengths(chk, n)
    run_commas(chk, n)
    run_second_definition(chk, n)


# ============================================================================ A: the container
MODEL_TEXT = mgmt.KINDS["acl"].model_text()
C_ATOMS = [0, A("alice"), A("bob"), A("data1"), A("read")]
C_ORDERS = [(a, b) for a in range(4) for b in range(4)]          # includes repeated positions (k, k)


class Holder:
    """a real FastModel; .fp is the FastPolicy it installed for p (add_def) / re-installs (clear_policy)"""

    def __init__(self, order):
        self.order = list(order)
        self.m = FastModel(self.order)
        self.m.load_model_from_text(MODEL_TEXT)

    @property
    def fp(self):
        return self.m.model["p"]["p"].policy


def c_exec(h, op):
    fp = h.fp
    c = op[0]
    if c == 1:
        fp.append(S(op[1]))
        return [0, []]
    if c == 2:
        return [0, 1 if fp.remove(S(op[1])) else 0]
    if c == 3:
        return [0, 1 if (S(op[1]) in fp) else 0]
    if c == 4:
        return [0, sorted(mgmt.ATOMS.rules(list(fp)))]
    if c == 5:
        return [0, len(fp)]
    if c == 6:
        return [0, mgmt.ATOMS.rule(fp[fp.index(S(op[1]))])]
    if c == 7:
        i = fp.index(S(op[1]))
        fp[i] = S(op[2])
        return [0, []]
    if c == 8:
        return [0, mgmt.ATOMS.rule(fp[len(fp) + op[1]])]
    if c == 9:
        fp[len(fp) + op[1]] = S(op[2])
        return [0, []]
    if c == 10:
        fp.apply_filter(mgmt.ATOMS.s(op[1]), mgmt.ATOMS.s(op[2]))
        return [0, []]
    if c == 11:
        fp.clear_filter()
        return [0, []]
    if c == 12:
        with fast_policy_filter(fp, mgmt.ATOMS.s(op[1]), mgmt.ATOMS.s(op[2])):
            return c_exec(h, op[3])
    if c == 13:
        h.m.clear_policy()
        return [0, []]
    raise ValueError(op)


def run_container_impl(order, ops):
    h = Holder(order)
    obs = []
    for op in ops:
        try:
            res = c_exec(h, op)
        except Exception as exc:  # noqa
            res = [999, classify_exception(exc)]
        fp = h.fp
        if not isinstance(fp, FastPolicy) or list(fp._cache_key_order) != list(order):
            obs.append([res, ["WRONG-CONTAINER", type(fp).__name__, list(getattr(fp, "_cache_key_order", []))], 0])
            break
        obs.append([res, sorted(mgmt.ATOMS.rules(list(fp))), len(fp)])
    return obs


def canon_cmodel(ops, rep):
    out = []
    for op, o in zip(ops, rep):
        res, view, n = o
        c = op[0] if op[0] != 12 else op[3][0]
        if c == 4 and res[0] == 0:
            res = [0, sorted(res[1])]
        out.append([res, sorted(view), n])
    return out


def query_container(order, histories):
    reqs = [(1, [order[0], order[1], [list(o) for o in ops]]) for ops in histories]
    reps = ORACLE.query(reqs)
    out = []
    for ops, rep in zip(histories, reps):
        if not isinstance(rep, list) or rep == [998] or (rep and rep[0] == "ORACLE-ERROR"):
            out.append(None)
        else:
            out.append(canon_cmodel(ops, rep))
    return reqs, reps, out


def keyof(order, r):
    return (r[order[0]], r[order[1]]) if max(order) < len(r) else None


def container_spec(order, ops, obs):
    """the refinement theorems evaluated on the implementation's observations: the container is a SET of rules;
    the iteration is that set (no filter) or exactly its members whose key fields equal the filter (bucket_exact);
    len = size of the iteration; `in` = membership; append adds, remove deletes, nothing else changes; clear_policy
    empties.  While a filter is active a mutation changes the set only (what the iteration shows then is left to the
    model comparison)."""
    Aset = set()
    flt = None            # None | (a, b)
    dirty = False         # a mutation happened under the current filter
    for i, (op, o) in enumerate(zip(ops, obs)):
        res, view, n = o
        inner = op
        scoped = op[0] == 12
        if scoped:                      # apply_filter ... body ... finally clear_filter
            flt, dirty, inner = (op[1], op[2]), False, op[3]
        c = inner[0]
        ok = res[0] == 0
        eff_flt = flt
        if c == 1:
            r = tuple(inner[1])
            if keyof(order, r) is None:
                if ok:
                    return i, "append of a rule too short for the key positions succeeded"
            else:
                if not ok:
                    return i, "append of a well-formed rule raised"
                Aset.add(r)
                dirty = dirty or flt is not None
        elif c == 2:
            r = tuple(inner[1])
            if keyof(order, r) is not None:
                if r in Aset:
                    if res != [0, 1]:
                        return i, "remove of a stored rule did not answer True"
                    Aset.discard(r)
                    dirty = dirty or flt is not None
                elif ok and res != [0, 1]:
                    return i, "remove answered something else than True"
        elif c == 3:
            r = tuple(inner[1])
            exp = 1 if (keyof(order, r) is not None and r in Aset) else 0
            if res != [0, exp]:
                return i, "`rule in policy` differs from membership in the stored set"
        elif c in (4, 5) and not dirty:
            exp = sorted(list(r) for r in Aset if eff_flt is None or keyof(order, r) == eff_flt)
            if c == 4 and res != [0, exp]:
                return i, "iteration is not exactly the stored rules whose key fields equal the filter"
            if c == 5 and res != [0, len(exp)]:
                return i, "len differs from the number of rules the iteration yields"
        elif c == 6 and not dirty:
            r = tuple(inner[1])
            vis = keyof(order, r) is not None and r in Aset and (eff_flt is None or keyof(order, r) == eff_flt)
            if vis and res != [0, list(r)]:
                return i, "self[self.index(rule)] is not the rule"
            if not vis and ok:
                return i, "index found a rule that is not in the current iteration"
        elif c == 7:
            old, new = tuple(inner[1]), tuple(inner[2])
            vis = keyof(order, old) is not None and old in Aset and (eff_flt is None or keyof(order, old) == eff_flt)
            if not dirty:
                if not vis and ok:
                    return i, "item assignment through index succeeded for a rule outside the iteration"
                if vis:
                    Aset.discard(old)
                    if keyof(order, new) is not None:
                        if not ok:
                            return i, "item assignment of a well-formed rule raised"
                        Aset.add(new)
                    dirty = dirty or flt is not None
            else:
                return None      # state under a mutated filter: model comparison only
        elif c in (8, 9):
            if ok:
                return i, "an index past the end did not raise"
        elif c == 10:
            flt, dirty = (inner[1], inner[2]), False
        elif c == 11:
            flt, dirty = None, False
        elif c == 13:
            Aset, flt, dirty = set(), None, False
        if scoped:
            flt, dirty = None, False
        # the observation after every call
        if not dirty:
            exp = sorted(list(r) for r in Aset if flt is None or keyof(order, r) == flt)
            if view != exp:
                return i, ("after the call the iteration is not the stored set"
                           + (" restricted to the filter" if flt is not None else "")
                           + (" (a rule is hidden)" if len(view) < len(exp) else " (a rule is resurrected or foreign)"))
            if n != len(exp):
                return i, "after the call len differs from the number of stored rules"
    return None


def c_rule(rng, pool):
    x = rng.random()
    if pool and x < 0.55:
        r = list(rng.choice(pool))
        if rng.random() < 0.3 and r:
            r[rng.randrange(len(r))] = rng.choice(C_ATOMS)
    else:
        n = rng.choice([0, 1, 2, 3, 3, 3, 3, 4])
        r = [rng.choice(C_ATOMS) for _ in range(n)]
    pool.append(r)
    if len(pool) > 8:
        pool.pop(0)
    return r


def c_op(rng, pool, order):
    x = rng.random()
    if x < 0.30:
        return (1, c_rule(rng, pool))
    if x < 0.42:
        return (2, c_rule(rng, pool))
    if x < 0.52:
        return (3, c_rule(rng, pool))
    if x < 0.57:
        return (4,)
    if x < 0.61:
        return (5,)
    if x < 0.67:
        return (6, c_rule(rng, pool))
    if x < 0.76:
        return (7, c_rule(rng, pool), c_rule(rng, pool))
    if x < 0.78:
        return (8, rng.randint(0, 2))
    if x < 0.80:
        return (9, rng.randint(0, 2), c_rule(rng, pool))
    if x < 0.86:
        r = c_rule(rng, pool)
        k = keyof(order, r) or (rng.choice(C_ATOMS), rng.choice(C_ATOMS))
        if rng.random() < 0.2:
            k = (rng.choice(C_ATOMS), rng.choice(C_ATOMS))
        return (10, k[0], k[1])
    if x < 0.90:
        return (11,)
    if x < 0.98:
        r = c_rule(rng, pool)
        k = keyof(order, r) or (rng.choice(C_ATOMS), rng.choice(C_ATOMS))
        body = rng.choice([(4,), (5,), (8, 0), (6, c_rule(rng, pool)), (3, c_rule(rng, pool)), (9, 0, c_rule(rng, pool)),
                           (1, c_rule(rng, pool)), (2, c_rule(rng, pool)), (7, c_rule(rng, pool), c_rule(rng, pool))])
        return (12, k[0], k[1], body)
    return (13,)


def exhaustive_container(order, maxlen):
    a, b, d, r = A("alice"), A("bob"), A("data1"), A("read")
    r1, r2, r3 = [a, d, r], [b, d, r], [a, d, 0]
    k1 = keyof(order, r1)
    alpha = [(1, r1), (1, r2), (1, r3), (2, r1), (2, r2), (3, r1), (4,), (7, r1, r2), (7, r1, r3), (6, r1),
             (10, k1[0], k1[1]), (11,), (12, k1[0], k1[1], (8, 0)), (12, k1[0], k1[1], (5,)), (13,), (1, [a])]
    for n in range(1, maxlen + 1):
        for seq in itertools.product(alpha, repeat=n):
            yield list(seq)


def container_fails(order, ops, want):
    """does the (shrunk) candidate still fail the same way?  want = 'spec' | 'model'"""
    obs = run_container_impl(order, ops)
    if want == "spec":
        return container_spec(order, ops, obs) is not None
    _, _, mo = query_container(order, [ops])
    return mo[0] is None or obs != mo[0]


def check_container_batch(chk, order, histories, label, vm_pool):
    obs_all = [run_container_impl(order, ops) for ops in histories]
    reqs, reps, model = query_container(order, histories)
    for ops, obs, mo, rq, rp in zip(histories, obs_all, model, reqs, reps):
        nontrivial = any(o[0] in (1, 7) or (o[0] == 12 and o[3][0] in (1, 7)) for o in ops)
        chk.count((tuple(order), repr(ops)) if nontrivial else None)
        if len(vm_pool) < 4000:
            vm_pool.append((rq, rp))
        v = container_spec(order, ops, obs)
        if v is not None:
            step, msg = v
            small = ops[:step + 1]
            if len(chk.spec_failures) < 3:
                small = mgmt.shrink(small, lambda cand: (container_spec(order, cand, run_container_impl(order, cand)) or (0, ""))[1] == msg)
            so = run_container_impl(order, small)
            chk.spec_fail(dict(level="container", stratum=label, cache_key_order=list(order), ops=[list(o) for o in small],
                               readable=[pretty_cop(o) for o in small]),
                          dict(observations=so[-2:]), "the abstract rule set of the refinement theorems", msg, None)
            continue
        if mo is None or obs != mo:
            if len(chk.disagreements) < 3:
                small = mgmt.shrink(list(ops), lambda cand: container_fails(order, cand, "model"))
            else:
                small = list(ops)
            so = run_container_impl(order, small)
            _, _, sm = query_container(order, [small])
            chk.disagree(dict(level="container", stratum=label, cache_key_order=list(order), ops=[list(o) for o in small],
                              readable=[pretty_cop(o) for o in small]), so, sm[0],
                         where=f"{label}: real FastPolicy and model differ")
    chk.traces += len(histories)


def pretty_cop(op):
    names = {1: "append", 2: "remove", 3: "contains", 4: "iter", 5: "len", 6: "self[self.index(r)]",
             7: "self[self.index(old)] = new", 8: "self[len+d]", 9: "self[len+d] = r", 10: "apply_filter",
             11: "clear_filter", 12: "with fast_policy_filter", 13: "FastModel.clear_policy"}

    def p(x):
        if isinstance(x, (list, tuple)):
            return [p(y) for y in x]
        try:
            return mgmt.ATOMS.s(x)
        except KeyError:
            return x
    c = op[0]
    if c in (8,):
        return [names[c], op[1]]
    if c == 9:
        return [names[c], op[1], p(op[2])]
    if c == 12:
        return [names[c], p(op[1]), p(op[2]), pretty_cop(op[3])]
    return [names[c]] + [p(a) for a in op[1:]]


def run_container(chk, n_random, exh_len, vm_pool):
    rng = chk.rng
    for order in ((0, 1), (2, 1)):
        hs = list(exhaustive_container(order, exh_len))
        check_container_batch(chk, order, hs, f"container-exhaustive-{order}", vm_pool)
        chk.extra.setdefault("strata", {})[f"container_exhaustive_order{list(order)}_len<={exh_len}"] = len(hs)
    chk.exhaustive = True            # the short-sequence scope above was covered completely
    per = max(1, n_random // len(C_ORDERS))
    for order in C_ORDERS:
        hs = []
        for _ in range(per):
            pool = []
            hs.append([c_op(rng, pool, order) for _ in range(rng.randint(1, 14))])
        check_container_batch(chk, order, hs, f"container-random-{order}", vm_pool)
    chk.extra["strata"]["container_random"] = dict(sequences=per * len(C_ORDERS), key_orders=len(C_ORDERS))


# ============================================================================ A': the container, other index depths
# FastPolicy with ONE, THREE or FOUR cache keys.  Its unfiltered iteration / len hard-code two levels, so everything is
# observed the way FastEnforcer.enforce does: inside `with fast_policy_filter(policy, *keys)` with one key per level.
# No Coq model here (Fast.v is the two-level index): the SET SPEC of the refinement theorems is evaluated on the
# implementation.   ops: (1, r) append  (2, r) remove  (3, r) contains  (13,) FastModel.clear_policy
#                        (22, keys, body) with fast_policy_filter(policy, *keys): body   body = (4,) iter | (5,) len | 1 | 2 | 3
def n_keyof(order, r):
    return tuple(r[x] for x in order) if max(order) < len(r) else None


def n_probe_sets(order, ops):
    rules, keys = [], []
    for op in ops:
        inner = op[2] if op[0] == 22 else op
        if op[0] == 22 and tuple(op[1]) not in keys:
            keys.append(tuple(op[1]))
        if inner[0] in (1, 2, 3):
            r = tuple(inner[1])
            if r not in rules:
                rules.append(r)
            k = n_keyof(order, r)
            if k is not None and k not in keys:
                keys.append(k)
    return keys[:10], rules[:14]


def run_container_n_impl(order, ops, probes=None):
    """probes = (keys, rules) observed after every call: every bucket in `keys` through a scoped filter, membership of
    every rule in `rules` (default: those the calls mention)"""
    h = Holder(order)
    keys, rules = probes or n_probe_sets(order, ops)
    obs = []
    for op in ops:
        try:
            if op[0] == 22:
                with fast_policy_filter(h.fp, *S(op[1])):
                    res = c_exec(h, op[2])
            else:
                res = c_exec(h, op)
        except Exception as exc:  # noqa
            res = [999, classify_exception(exc)]
        fp = h.fp
        if not isinstance(fp, FastPolicy) or list(fp._cache_key_order) != list(order):
            obs.append([res, ["WRONG-CONTAINER", type(fp).__name__, list(getattr(fp, "_cache_key_order", []))], []])
            break
        try:
            view = []
            for k in keys:
                with fast_policy_filter(fp, *S(k)):
                    view.append([list(k), sorted(mgmt.ATOMS.rules(list(fp))), len(fp)])
            mem = [1 if S(r) in fp else 0 for r in rules]
        except Exception as exc:  # noqa
            view, mem = ["RAISED", type(exc).__name__], []
        obs.append([res, view, mem])
    return obs


def container_n_spec(order, ops, obs, probes=None):
    """the container is a SET of rules; under a filter of one key per level the iteration is exactly the members whose key
    fields are those keys (bucket_exact) and len is their number; `in` = membership; append adds, remove deletes,
    clear_policy empties, nothing else changes anything"""
    keys, rules = probes or n_probe_sets(order, ops)
    Aset = set()

    def bucket(k):
        return sorted(list(r) for r in Aset if n_keyof(order, r) == tuple(k))
    for i, (op, o) in enumerate(zip(ops, obs)):
        res, view, mem = o
        inner = op[2] if op[0] == 22 else op
        c, ok = inner[0], res[0] == 0
        if c == 1:
            r = tuple(inner[1])
            if n_keyof(order, r) is None:
                if ok:
                    return i, "append of a rule too short for the key positions succeeded"
            else:
                if not ok:
                    return i, "append of a well-formed rule raised"
                Aset.add(r)
        elif c == 2:
            r = tuple(inner[1])
            if n_keyof(order, r) is not None:
                if r in Aset:
                    if res != [0, 1]:
                        return i, "remove of a stored rule did not answer True"
                    Aset.discard(r)
                elif ok and res != [0, 1]:
                    return i, "remove answered something else than True"
        elif c == 3:
            r = tuple(inner[1])
            if res != [0, 1 if (n_keyof(order, r) is not None and r in Aset) else 0]:
                return i, "`rule in policy` differs from membership in the stored set"
        elif c == 4:
            if res != [0, bucket(op[1])]:
                return i, "filtered iteration is not exactly the stored rules whose key fields equal the filter"
        elif c == 5:
            if res != [0, len(bucket(op[1]))]:
                return i, "filtered len differs from the number of stored rules whose key fields equal the filter"
        elif c == 13:
            Aset = set()
        if view and view[0] in ("WRONG-CONTAINER", "RAISED"):
            return i, ("after the call the policy is not the FastPolicy of the configured key order" if view[0] != "RAISED"
                       else "after the call a filtered iteration / membership test raised")
        for k, got, n in view:
            exp = bucket(k)
            if got != exp:
                return i, ("after the call a bucket is not the stored rules with its key fields"
                           + (" (a rule is hidden)" if len(got) < len(exp) else " (a rule is resurrected or foreign)"))
            if n != len(exp):
                return i, "after the call the filtered len differs from the number of rules in the bucket"
        for r, m in zip(rules, mem):
            if m != (1 if (n_keyof(order, r) is not None and r in Aset) else 0):
                return i, "after the call `rule in policy` differs from membership in the stored set"
    return None


# values containing the separators of the policy text: different rules can have the same joined text
CN_ATOMS = [0] + [A(x) for x in ("a,b", "a", "b,c", "c", "b", "a, b", "b, c")]


def resplit(rule, rng):
    """another rule with the same number of fields, made of known values, whose fields joined by "," (or by ", ") give the
    same text as `rule`'s; None if there is none"""
    strs = S(rule)
    cands = []
    if len(strs) < 2:
        return None
    for sep in (",", ", "):
        text = sep.join(strs)
        cuts = [i for i in range(len(text)) if text.startswith(sep, i)]
        for pos in itertools.combinations(cuts, len(strs) - 1):
            fields, start = [], 0
            for c in pos:
                if c < start:
                    break
                fields.append(text[start:c])
                start = c + len(sep)
            else:
                fields.append(text[start:])
                if fields != strs and all(f in mgmt.ATOMS.s2a for f in fields):
                    cands.append([mgmt.ATOMS.s2a[f] for f in fields])
    return rng.choice(cands) if cands else None


def n_rule(rng, pool, order, atoms=C_ATOMS):
    need = max(order) + 1
    if pool and rng.random() < 0.55:
        r = list(rng.choice(pool))
        if rng.random() < 0.4 and r:
            r[rng.randrange(len(r))] = rng.choice(atoms)
    else:
        x = rng.random()
        if atoms is C_ATOMS:
            n = need if x < 0.7 else need + 1 if x < 0.85 else rng.randint(0, need)
        else:
            n = need + rng.randint(0, 2) if x < 0.9 else rng.randint(0, need)
        r = [rng.choice(atoms) for _ in range(n)]
    pool.append(r)
    if len(pool) > 8:
        pool.pop(0)
    return r


def n_op(rng, pool, order, atoms=C_ATOMS):
    x = rng.random()
    if x < 0.34:
        return (1, n_rule(rng, pool, order, atoms))
    if x < 0.50:
        return (2, n_rule(rng, pool, order, atoms))
    if x < 0.62:
        return (3, n_rule(rng, pool, order, atoms))
    if x < 0.97:
        k = n_keyof(order, n_rule(rng, pool, order, atoms))
        if k is None or rng.random() < 0.2:
            k = tuple(rng.choice(atoms) for _ in order)
        body = rng.choice([(4,), (4,), (5,), (3, n_rule(rng, pool, order, atoms)), (1, n_rule(rng, pool, order, atoms)),
                           (2, n_rule(rng, pool, order, atoms))])
        return (22, list(k), body)
    return (13,)


def n_sequence(rng, order, atoms):
    pool, ops = [], []
    for _ in range(rng.randint(1, 12)):
        op = n_op(rng, pool, order, atoms)
        ops.append(op)
        if atoms is not C_ATOMS and op[0] == 1 and rng.random() < 0.5:
            tw = resplit(op[1], rng)                  # a rule with the same joined text is appended / removed / looked up too
            if tw is not None:
                pool.append(tw)
                ops.append((rng.choice([1, 1, 2, 3]), tw))
    return ops


def exhaustive_container_n(order, maxlen):
    a, b, d, r = A("alice"), A("bob"), A("data1"), A("read")
    r1, r2, r3, r4 = [a, d, r, a], [b, d, r, a], [a, d, 0, a], [d, a, r, a]
    k1, k4 = list(n_keyof(order, r1)), list(n_keyof(order, r4))
    alpha = [(1, r1), (1, r2), (1, r3), (1, r4), (2, r1), (2, r4), (3, r1), (22, k1, (4,)), (22, k4, (5,)), (22, k1, (2, r1)),
             (13,), (1, [a])]
    for n in range(1, maxlen + 1):
        for seq in itertools.product(alpha, repeat=n):
            yield list(seq)


def pretty_nop(op):
    if op[0] == 22:
        return ["with fast_policy_filter", S(op[1]), pretty_cop(op[2])]
    return pretty_cop(op)


def check_container_n_batch(chk, order, histories, label):
    for ops in histories:
        nontrivial = any(o[0] == 1 or (o[0] == 22 and o[2][0] == 1) for o in ops)
        chk.count(("n", tuple(order), repr(ops)) if nontrivial else None)
        probes = n_probe_sets(order, ops)          # fixed while the sequence is cut down (a later call may name the rule
        v = container_n_spec(order, ops, run_container_n_impl(order, ops, probes), probes)      # that shows the damage)
        if v is not None:
            step, msg = v
            small = ops[:step + 1]
            if len(chk.spec_failures) < 3:
                small = mgmt.shrink(small, lambda cand: (container_n_spec(order, cand, run_container_n_impl(order, cand, probes),
                                                                          probes) or (0, ""))[1] == msg)
            so = run_container_n_impl(order, small, probes)
            chk.spec_fail(dict(level="container_n", stratum=label, cache_key_order=list(order), ops=[list(o) for o in small],
                               probe_keys=[list(k) for k in probes[0]], probe_rules=[list(r) for r in probes[1]],
                               readable=[pretty_nop(o) for o in small], readable_probe_rules=[S(r) for r in probes[1]]),
                          dict(observations=so[-2:]), "the abstract rule set of the refinement theorems", msg, None)
    chk.traces += len(histories)


def run_container_n(chk, n_random, exh_len):
    rng = chk.rng
    nexh = 0
    for order in ((2,), (0, 1, 2), (2, 1, 0), (3, 0, 2, 1)):
        hs = list(exhaustive_container_n(order, exh_len))
        nexh += len(hs)
        check_container_n_batch(chk, order, hs, f"container-depth{len(order)}-exhaustive-{order}")
    per_len = {1: 0, 3: 0, 4: 0}
    for i in range(n_random):
        k = (1, 3, 3, 4)[i % 4]
        order = tuple(rng.randrange(4) for _ in range(k))              # includes repeated positions
        per_len[k] += 1
        check_container_n_batch(chk, order, [n_sequence(rng, order, C_ATOMS)], f"container-depth{k}-random")
    # values that contain "," / ", " (here the two-level index too), rules with up to two fields more than the keys reach
    per_len_c, same_text = {1: 0, 2: 0, 3: 0}, 0
    for i in range(n_random // 2):
        k = (2, 1, 2, 3)[i % 4]
        order = tuple(rng.randrange(4) for _ in range(k))
        per_len_c[k] += 1
        ops = n_sequence(rng, order, CN_ATOMS)
        texts = {}
        for o in ops:
            inner = o[2] if o[0] == 22 else o
            if inner[0] == 1:
                texts.setdefault(",".join(S(inner[1])), set()).add(tuple(inner[1]))
        same_text += any(len(v) > 1 for v in texts.values())
        check_container_n_batch(chk, order, [ops], f"container-depth{k}-separator-values")
    chk.extra.setdefault("strata", {})["container_other_depths"] = dict(
        exhaustive_sequences=nexh, exhaustive_len=exh_len, random_sequences=per_len)
    chk.extra["strata"]["container_separator_values"] = dict(
        random_sequences=per_len_c, sequences_appending_two_rules_with_one_joined_text=same_text)


# ============================================================================ B: the enforcer on the container
E_KINDS = ("acl", "acl_deny")


def e_history(rng, kind, order):
    g = mgmt.Gen(rng, kind, dict(W, rbac=0, load=0, save=0, clear=0, probe=0, query=0))
    uni = g.uni
    ops = []
    for _ in range(rng.randint(2, 14)):
        x = rng.random()
        if x < 0.55:
            o = g.op()[0]
            if o[0] in (1, 2, 3, 4) and rng.random() < 0.06:       # a rule of the wrong length
                o = (o[0], 0, o[2][:-1]) if o[0] in (1, 3) else (o[0], 0, [r[:-1] for r in o[2]])
            ops.append(o)
        elif x < 0.60:
            ops.append((30,))
        elif x < 0.65:
            ops.append((38, rng.random() < 0.6))
        elif x < 0.72:
            ops.append((54, 0, g.rule(0)))
        else:
            req = list(rng.choice(uni.requests()))
            y = rng.random()
            if y < 0.06:
                req = req[:-1]
            elif y < 0.10:
                req = req + [req[0]]
            elif y < 0.16:
                req[rng.randrange(len(req))] = 0
            elif y < 0.19:
                req = [0] * len(req)
            ops.append((50, req))
    return ops


def mask_order_dependent(kind, ops, iobs, mobs):
    """a stored rule of the wrong length makes a decision depend on the (unspecified) order in which the bucket is
    iterated: 'invalid policy size' is raised only if that rule is reached before a deciding one.  Such decisions are
    not compared."""
    for j, op in enumerate(ops):
        if op[0] == 50 and j < len(iobs) and j < len(mobs) and any(len(r) != kind.p_arity for r in iobs[j][1]):
            iobs[j][0] = mobs[j][0] = ["order-dependent"]


def run_enforcer(chk, n, vm_pool):
    rng = chk.rng
    for kn in E_KINDS:
        kind = mgmt.KINDS[kn].with_(adapter=False)
        for order in key_orders(kind) + [[0, 0]]:
            hs = [e_history(rng, kind, order) for _ in range(n)]
            reqs = [(2, [kind.wire(), order[0], order[1], [list(o) for o in ops]]) for ops in hs]
            reps = ORACLE.query(reqs)
            for ops, rq, rp in zip(hs, reqs, reps):
                impl, obs = mgmt.run_impl(kind, [], True, ops, **fast_impl_kwargs(order))
                iobs = [[o[0], o[3]] for o in obs]
                if len(vm_pool) < 4000:
                    vm_pool.append((rq, rp))
                mobs = None
                if isinstance(rp, list) and rp != [998] and not (rp and rp[0] == "ORACLE-ERROR"):
                    mobs = [[o[0], sorted(o[1])] for o in rp]
                    mask_order_dependent(kind, ops, iobs, mobs)
                mut = [o for o in ops if o[0] < 50]
                chk.count((kn, tuple(order), repr(mut)) if mut else None)
                if mobs != iobs:
                    i = next((j for j, (x, y) in enumerate(zip(iobs, mobs or [])) if x != y), 0)
                    chk.disagree(dict(level="enforcer", kind=kn, kind_wire=kind.wire(), cache_key_order=list(order),
                                      ops=[list(o) for o in ops[:i + 1]],
                                      readable=[mgmt.pretty_op(o) for o in ops[:i + 1]]),
                                 iobs[i] if i < len(iobs) else None, mobs[i] if mobs and i < len(mobs) else mobs,
                                 where=f"enforcer-{kn}-{order}: real FastEnforcer and model differ at step {i}")
            chk.traces += len(hs)
        chk.extra.setdefault("strata", {})[f"enforcer_model_{kn}"] = dict(histories=n * (len(key_orders(kind)) + 1))


# ============================================================================ D: decide_equal on the model
def run_decide_equal(chk, n, vm_pool):
    rng = chk.rng
    reqs, metas = [], []
    for _ in range(n):
        kn = rng.choice(E_KINDS)
        kind = mgmt.KINDS[kn]
        uni = mgmt.Universe(kind)
        order = rng.choice(key_orders(kind))
        rules, seen = [], set()
        for _ in range(rng.randint(0, 7)):
            r = uni.p_rule(rng)
            if tuple(r) not in seen:
                seen.add(tuple(r))
                rules.append(r)
        req = list(rng.choice(uni.requests()))
        if rng.random() < 0.15:
            req[rng.randrange(3)] = 0
        if rng.random() < 0.05:
            req = [0, 0, 0]
        reqs.append((3, [kind.wire(), order[0], order[1], rng.random() < 0.9, rules, req]))
        metas.append((kn, order, rules, req))
    reps = ORACLE.query(reqs)
    for rq, rp, meta in zip(reqs, reps, metas):
        chk.count(None)
        if len(vm_pool) < 4000:
            vm_pool.append((rq, rp))
        if not (isinstance(rp, list) and len(rp) == 3):
            chk.disagree(dict(level="decide_equal", request=rq[1]), None, rp, where="decide_equal: model rejected the request")
        elif rp[0] != rp[1] and rp[2] != 1:
            chk.disagree(dict(level="decide_equal", request=rq[1]), None, rp,
                         where="decide_equal: the MODEL's fast and plain decisions differ outside empty_rule_quirk (theorem C19_decide_equal would be false)")
    chk.extra.setdefault("strata", {})["decide_equal_model"] = n


# ============================================================================ replay / main
def replay(chk):
    rec = json.load(open(chk.replay_file))
    c = rec.get("case") or {}
    if c.get("level") == "container":
        order = tuple(c["cache_key_order"])
        ops = [tuple(o) for o in c["ops"]]
        obs = run_container_impl(order, ops)
        v = container_spec(order, ops, obs)
        _, _, mo = query_container(order, [ops])
        d = (mo[0] is None or obs != mo[0])
        print("replay container ops:", [pretty_cop(o) for o in ops], "cache_key_order", list(order))
        print("  spec violation on the implementation:", v)
        print("  implementation vs model differ:", d)
        if v is not None:
            print(f"VIOLATION property={PROP} replay={chk.replay_file}")
            sys.exit(1)
        if d:
            print(f"VIOLATION property={PROP} replay={chk.replay_file} no-failing-input-found")
            sys.exit(1)
        print("replay passes: the implementation satisfies the set spec on these calls and agrees with the model")
        sys.exit(0)
    if c.get("level") == "container_n":
        order = tuple(c["cache_key_order"])
        ops = [(o[0], o[1], tuple(o[2])) if o[0] == 22 else tuple(o) for o in c["ops"]]
        probes = ([tuple(k) for k in c["probe_keys"]], [tuple(r) for r in c["probe_rules"]]) if "probe_keys" in c else None
        v = container_n_spec(order, ops, run_container_n_impl(order, ops, probes), probes)
        print("replay container ops:", [pretty_nop(o) for o in ops], "cache_key_order", list(order))
        print("  spec violation on the implementation:", v)
        if v is not None:
            print(f"VIOLATION property={PROP} replay={chk.replay_file}")
            sys.exit(1)
        print("replay passes: the implementation satisfies the set spec on these calls")
        sys.exit(0)
    if c.get("level") == "enforcer":
        w = c["kind_wire"]
        kind = mgmt.Kind(c["kind"], *[bool(x) for x in w[:5]], eff=w[5], adapter=bool(w[6]), watcher=w[7])
        order = c["cache_key_order"]
        ops = [tuple(o) for o in c["ops"]]
        impl, obs = mgmt.run_impl(kind, [], True, ops, **fast_impl_kwargs(order))
        rp = ORACLE.query([(2, [kind.wire(), order[0], order[1], [list(o) for o in ops]])])[0]
        iobs = [[o[0], o[3]] for o in obs]
        mobs = [[o[0], sorted(o[1])] for o in rp] if isinstance(rp, list) and rp != [998] else None
        if mobs is not None:
            mask_order_dependent(kind, ops, iobs, mobs)
        print("replay enforcer ops:", [mgmt.pretty_op(o) for o in ops], "cache_key_order", order)
        print("  implementation vs model differ:", iobs != mobs)
        if iobs != mobs:
            print(f"VIOLATION property={PROP} replay={chk.replay_file} no-failing-input-found")
            sys.exit(1)
        print("replay passes: the implementation agrees with the model")
        sys.exit(0)
    order = c.get("cache_key_order") or [2, 1]
    text = c.get("model_text")
    if text or str(c.get("stratum", "")).startswith("commas-"):
        chk.oracle = None       # outside the Mgmt model (second policy definition / run without model comparison)
    return mgmt.replay_case(chk, make_spec(order, text), impl_kwargs=dict(model_text=text) if text else None)


def run(chk, n_diff, n_cont, exh_len, n_enf, n_dec, n_vm):
    vm_pool = []
    if ORACLE is not None:
        run_container(chk, n_cont, exh_len, vm_pool)
        run_enforcer(chk, n_enf, vm_pool)
        run_decide_equal(chk, n_dec, vm_pool)
    run_differential(chk, n_diff)
    run_container_n(chk, max(400, n_cont // 5), exh_len)
    if ORACLE is not None and vm_pool and n_vm:
        sample = [vm_pool[i] for i in sorted(chk.rng.sample(range(len(vm_pool)), min(n_vm, len(vm_pool))))]
        ok, nchk, log = core.vm_crosscheck(PROP, "From PyCasbin Require Import Base Fast.", "oracle_C19",
                                           [s[0] for s in sample], [s[1] for s in sample])
        chk.vm_checked += nchk
        if not ok:
            chk.disagree(dict(level="vm_compute"), None, log[-600:],
                         where="vm_compute re-evaluation of oracle_C19 differs from the extracted OCaml")


def main():
    global ORACLE
    chk = Check(PROP)
    chk.rule = ("A container: call sequences on the real FastPolicy of a real FastModel — exhaustive over a 16-call alphabet up "
                "to length 2 (quick) / 3 (thorough) for the key orders [0,1] and [2,1], random sequences (1-14 calls, rules of "
                "length 0-4 over 5 atoms incl. the empty string, repeated fields) for all 16 key orders over positions 0-3; "
                "B enforcer: management calls + decisions on a real FastEnforcer (ACL, ACL with deny, 6 key orders + [0,0], "
                "wrong-length rules and requests, disabled enforcement) against the model; C differential: management "
                "histories (single/batch/filtered/update, RBAC wrappers, clear, reload) with decisions over the request "
                "universe, side by side on FastEnforcer and Enforcer for every admissible 2-field cache-key order (6 on ACL "
                "models, 2 on RBAC models), allow- and deny-type effects; D: decide_equal evaluated by the model. "
                "C' further configurations under the same differential spec: cache-key orders of one, three and four "
                "equality-compared fields (every permutation; ACL, ACL with deny, a four-field all-equality ACL, RBAC) with "
                "the calls FastPolicy supports at those depths; values containing ',' / ', ' (four- and three-field models, "
                "no adapter, rules with the same joined text added on purpose); models with a second policy definition p2 of "
                "1-4 fields whose rows are in the store. A' container at depths 1, 3, 4 (and 2 with separator values): the set "
                "spec observed through scoped filters, exhaustive short sequences + random. "
                "non-trivial = at least one mutating call; distinct by (stratum, key order, calls)")
    chk.assumptions = ["admissible cache-key order = policy fields compared by equality with the request field at the same "
                       "position.  FastPolicy's unfiltered iteration and len() hard-code two index levels: with one, three or "
                       "four keys only load / reload, add / batch add / remove / batch remove (one key: removals only), "
                       "has_policy, clear_policy, enable_enforce and enforce / batch_enforce are supported and compared "
                       "(get_policy and the other getters, update*, filtered removal, save_policy, enforce_ex are not)",
                       "priority effects are inadmissible for FastEnforcer (its buckets are unordered sets; "
                       "C19_priority_order_refuted shows that even an insertion-ordered bucket would not keep the plain order)",
                       "only the first p / g definition is loaded by FastModel (add_def returns None): g2, management of / "
                       "requests against p2 and EnforceContext requests are outside 'ACL and RBAC models' (a model that HAS a p2 "
                       "and p2 rows in its store is exercised for everything asked of p)",
                       "the order in which a Python set is iterated is unspecified: iterations are compared as sets"]
    chk.trusted = ["hand-written models coq/theories/{Policy,RoleGraph,Mgmt,Fast}.v tied by the differential correspondence "
                   "(container / enforcer / history level)"]
    chk.build(translators=["fastenforce", "fastcontainer"], oracle_name="Mgmt")
    path, log = core.build_oracle(PROP)
    if log:
        chk.oracle_log = (chk.oracle_log + "\n" + log).strip()
        chk.notes.append(log[:500])
    if path:
        ORACLE = core.Oracle(path)
    if chk.replay_file:
        return replay(chk)
    if chk.tier == "thorough":
        run(chk, 4000, 160000, 3, 800, 60000, 2000)
    else:
        run(chk, 200, 6400, 2, 60, 5000, 300)
        if (chk.broken() or chk.anchor_changed) and not chk.spec_failures:
            run(chk, 600, 8000, 3, 80, 3000, 0)
    chk.finish()


if __name__ == "__main__":
    main()
