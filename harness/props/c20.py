"""C20 — every successful policy change notifies the watcher exactly once.
SPEC on the implementation (recording watchers of three kinds: update() only / WatcherEx callbacks /
WatcherEx + WatcherUpdatable), adapter attached, auto-save on:
  * a base management call that reports success -> exactly one notification, issued after the adapter call:
    the operation's own callback with exactly the operation's arguments if the watcher offers it, else update();
  * a call that reports failure / no change, and any call while auto-notify is off -> none;
  * save_policy -> exactly one (update_for_save_policy if offered, else update())."""
from ..core import Check
from .. import mgmt, c20_partial
from ..specs import truthy, desugar, abs_base, stores

PROP = "C20"
W = dict(p_update_filtered=0.5, probe=0, query=1, load=0, save=1, clear=0, build=0, flags=0, rbac=4, p_update=4,
         p_update_many=3, g_remove_filtered=3)


def expected_specific(kind, op):
    """the callback corresponding to a base op, as a canonical watcher-call value, and the watcher kind
    from which it is offered (2 = WatcherEx, 3 = WatcherUpdatable)"""
    c = op[0]
    if c == 1:
        return [1, op[1], op[2]], 2
    if c == 2:
        return [2, op[1], op[2]], 2
    if c == 3:
        return [3, op[1], op[2]], 2
    if c == 4:
        return [4, op[1], op[2]], 2
    if c == 5:
        return [5, op[1], op[2], op[3]], 2
    if c == 6:
        return [6, op[1], op[2]], 3
    if c == 7:
        return [7, op[1], op[2]], 3
    return None, 99


def spec_check(kind, rows, lf, ops, obs, impl):
    out = []
    auto_notify, auto_save = True, True
    prev = None
    for i, (op, o) in enumerate(zip(ops, obs)):
        c = op[0]
        res, acalls, wcalls = o[0], o[1], o[2]
        if c == 37:
            auto_notify = bool(op[1])
        if c == 35:
            auto_save = bool(op[1])
        if kind.watcher == 0:
            prev = o
            continue
        if c == 33:
            want = [[9]] if kind.watcher >= 2 else [[0]]
            if wcalls != want:
                out.append((i, "save_policy did not notify exactly once (update_for_save_policy if offered, else update)"))
                return out
        elif 1 <= c <= 20:
            base = desugar(kind, op)
            if not (auto_notify and auto_save and kind.adapter):
                if wcalls:
                    out.append((i, "a notification was sent although auto-notify (or auto-save) is off"))
                    return out
            elif res[0] != 0:
                pass
            elif c == 8:
                ok = truthy(res)
                if (ok and wcalls != [[0]]) or (not ok and wcalls):
                    out.append((i, "update_filtered_policies: not exactly one update() on success / none on failure"))
                    return out
            elif len(base) == 1:
                ok = truthy(res)
                if not ok:
                    if wcalls:
                        out.append((i, "a call that reported failure / no change notified the watcher"))
                        return out
                else:
                    spec, frm = expected_specific(kind, base[0])
                    want = [spec] if kind.watcher >= frm else [[0]]
                    if len(wcalls) != 1:
                        out.append((i, f"a successful call sent {len(wcalls)} notifications instead of exactly one"))
                        return out
                    if wcalls != want:
                        out.append((i, "the notification is not the operation's own callback with the operation's arguments "
                                       "(or update() when the watcher does not offer it)"))
                        return out
                    if not acalls:
                        out.append((i, "notification without a preceding adapter call"))
                        return out
            else:
                # delete_user / delete_role: one notification per successful underlying call
                st = stores(prev) if prev is not None else {0: [r for pt, r in rows if pt == 0], 1: [r for pt, r in rows if pt == 1], 2: [r for pt, r in rows if pt == 2]}
                n_ok = 0
                for b in base:
                    st2, okb = abs_base(b, st)
                    if st2 is None:
                        n_ok = None
                        break
                    st = st2
                    n_ok += 1 if okb else 0
                if n_ok is not None and len(wcalls) != n_ok:
                    out.append((i, f"{len(wcalls)} notifications for {n_ok} successful underlying changes"))
                    return out
        elif wcalls:
            out.append((i, "a call that changes no policy notified the watcher"))
            return out
        prev = o
    return out


class OrderWatcherMixin:
    pass


def run(chk, n):
    rng = chk.rng
    for kn in ("acl", "rbac", "dom", "prio"):
        for w in (1, 2, 3):
            kind = mgmt.KINDS[kn].with_(adapter=True, watcher=w)
            cases = []
            for _ in range(n):
                g = mgmt.Gen(rng, kind, W)
                rows = g.rows(rng.randint(0, 6))
                ops = g.history(rng.randint(3, 14), final_probe=False)
                if rng.random() < 0.3:
                    k = rng.randrange(len(ops) + 1)
                    ops.insert(k, (37, False))
                    if rng.random() < 0.5:
                        ops.insert(rng.randrange(k + 1, len(ops) + 1), (37, True))
                cases.append((rows, True, ops))
            mgmt.run_cases(chk, kind, cases, spec_check, label=f"random-{kn}-watcher{w}")
            chk.extra.setdefault("strata", {})[f"random_{kn}_watcher{w}"] = len(cases)


def spec_check_async(kind, rows, lf, ops, obs, impl):
    return spec_check(kind, rows, lf, ops, obs, impl)


spec_check_async.case_extra = dict(enforcer="AsyncEnforcer")


def run_async(chk, n):
    """the same histories on the AsyncEnforcer (each call awaited; plain, non-coroutine watcher callbacks)"""
    from ..async_facade import AsyncFacade
    rng = chk.rng
    for kn in ("acl", "rbac"):
        for w in (1, 2, 3):
            kind = mgmt.KINDS[kn].with_(adapter=True, watcher=w)
            cases = []
            for _ in range(n):
                g = mgmt.Gen(rng, kind, W)
                rows = g.rows(rng.randint(0, 6))
                cases.append((rows, True, g.history(rng.randint(3, 12), final_probe=False)))
            mgmt.run_cases(chk, kind, cases, spec_check_async, label=f"random-async-{kn}-watcher{w}",
                           impl_kwargs=dict(enforcer_cls=AsyncFacade),
                           key_fn=lambda k, r, o: ("async", k.name, k.watcher, repr([x for x in o if x[0] < 50])))
            chk.extra.setdefault("strata", {})[f"random_async_{kn}_watcher{w}"] = len(cases)


def swap_execute(kn, w1, w2, rows, ops1, ops2):
    kind1 = mgmt.KINDS[kn].with_(adapter=True, watcher=w1)
    kind2 = kind1.with_(watcher=w2)
    impl = mgmt.Impl(kind1, rows, True)
    obs1 = [impl.step(op) for op in ops1]
    old = impl.watcher
    rows2 = [(0, r) for r in impl.policy(0)] + [(1, r) for r in impl.policy(1)] + [(2, r) for r in impl.policy(2)]
    new = mgmt.WATCHERS[w2]()
    impl.e.set_watcher(new)
    impl.watcher = new
    obs2, stale = [], None
    for k, op in enumerate(ops2):
        obs2.append(impl.step(op))
        if old.calls and stale is None:
            stale = (k, list(old.calls))
    v = spec_check(kind1, rows, True, ops1, obs1, impl)
    if v:
        return ("segment-1", v[0][0], v[0][1])
    if stale is not None:
        return ("segment-2", stale[0], "a replaced watcher was still notified: %r" % (stale[1][:2],))
    v = spec_check(kind2, rows2, True, ops2, obs2, impl)
    if v:
        return ("segment-2", v[0][0], v[0][1])
    return None


def replay_swap(chk, c):
    import sys
    def tup(o):
        return tuple(tuple(x) if False else x for x in o)
    bad = swap_execute(c["kind"], c["watcher_before"], c["watcher_after"], [(pt, r) for pt, r in c["initial_rows"]],
                       [tuple(o) for o in c["ops_before"]], [tuple(o) for o in c["ops_after"]])
    print("replay (watcher replaced half-way):", c["readable"], "->", bad)
    if bad:
        print(f"VIOLATION property={chk.prop} replay={chk.replay_file}")
        sys.exit(1)
    print("replay passes: the implementation satisfies the spec on this history")
    sys.exit(0)


def run_swap(chk, n):
    """the watcher is REPLACED in the middle of a history (set_watcher with another recording watcher, possibly of
    another kind): from then on the new watcher gets exactly what the property says for its kind and the replaced
    one gets nothing.  Implementation only (the model's watcher kind is fixed per history); SPEC = spec_check on
    either segment + silence of the replaced watcher."""
    rng = chk.rng
    reported = 0
    for kn in ("acl", "rbac"):
        for _ in range(n):
            w1, w2 = rng.choice([1, 2, 3]), rng.choice([1, 2, 3])
            kind1 = mgmt.KINDS[kn].with_(adapter=True, watcher=w1)
            kind2 = kind1.with_(watcher=w2)
            g = mgmt.Gen(rng, kind1, W)
            rows = g.rows(rng.randint(0, 6))
            ops1 = g.history(rng.randint(1, 6), final_probe=False)
            ops2 = g.history(rng.randint(1, 8), final_probe=False)

            def execute(ops1, ops2):
                return swap_execute(kn, w1, w2, rows, ops1, ops2)
            bad = execute(ops1, ops2)
            chk.count(("swap", kn, w1, w2, repr([o for o in ops1 + ops2 if o[0] < 50])))
            if bad:
                if reported < 3:
                    # shrink both segments
                    a, b = list(ops1), list(ops2)
                    changed = True
                    while changed:
                        changed = False
                        for seg in (0, 1):
                            cur = a if seg == 0 else b
                            for i in range(len(cur) - 1, -1, -1):
                                cand = cur[:i] + cur[i + 1:]
                                try:
                                    r = execute(cand, b) if seg == 0 else execute(a, cand)
                                except Exception:  # noqa
                                    r = None
                                if r and r[2] == bad[2]:
                                    if seg == 0:
                                        a = cand
                                    else:
                                        b = cand
                                    cur = cand
                                    changed = True
                    ops1, ops2 = a, b
                reported += 1
                chk.spec_fail(dict(stratum="watcher-replaced", kind=kn, watcher_before=w1, watcher_after=w2,
                                   initial_rows=[[pt, r] for pt, r in rows],
                                   readable=dict(before=[mgmt.pretty_op(o) for o in ops1], after=[mgmt.pretty_op(o) for o in ops2]),
                                   ops_before=[list(o) for o in ops1], ops_after=[list(o) for o in ops2]),
                              dict(where=bad[0], step=bad[1]), "see 'what'", bad[2])
    chk.extra.setdefault("strata", {})["watcher_replaced_histories"] = 2 * n


# ----------------------------------------------------------------------------- probed strata (added after the third seeding wave)
REFUSALS = [(), ("add_policy",), ("remove_policy",), ("add_policies", "remove_policies"), ("update_policy", "update_policies"),
            ("remove_filtered_policy",),
            ("add_policy", "remove_policy", "add_policies", "remove_policies", "update_policy", "update_policies", "remove_filtered_policy")]


def snap_canon(sn):
    A = mgmt.ATOMS
    mem = [A.rules(sn["mem"].get(k, [])) for k in ("p", "g", "g2")]
    return mem, [[mgmt.PT_OF[pt], A.rule(r)] for pt, r in sn["rows"]]


def order_check(kind, rows, lf, ops, obs, impl):
    """"issued AFTER the in-memory and adapter changes": the recording watcher looks at the enforcer's stored rules and at
    the adapter's rows at the moment it is notified; for a call that stands for ONE base operation (and for save_policy and
    update_filtered_policies) what it sees must already be what the call leaves behind"""
    snaps = list(getattr(impl.watcher, "snaps", []) or []) if impl.watcher is not None else []
    k = 0
    for i, (op, o) in enumerate(zip(ops, obs)):
        n = len(o[2])
        mine, k = snaps[k:k + n], k + n
        c = op[0]
        single = c in (8, 33) or (1 <= c <= 20 and len(desugar(kind, op)) == 1)
        if n == 1 and len(mine) == 1 and single and o[0][0] == 0:
            mem, db = snap_canon(mine[0])
            if mem != [o[3], o[4], o[5]]:
                return [(i, "the watcher was notified before the in-memory change was complete (at callback time the stored "
                            "rules were not yet those the call leaves)")]
            if db != o[6]:
                return [(i, "the watcher was notified before the adapter change was complete (at callback time the adapter's "
                            "rows were not yet those the call leaves)")]
    if k != len(snaps):
        return [(len(ops) - 1, "a notification was issued that no management call of the history accounts for")]
    return []


_SPECS = {}


def probed_spec(is_async, coro, refuse):
    key = (is_async, coro, tuple(refuse))
    if key not in _SPECS:
        def sc(kind, rows, lf, ops, obs, impl):
            return spec_check(kind, rows, lf, ops, obs, impl) or order_check(kind, rows, lf, ops, obs, impl)
        sc.case_extra = dict(enforcer="AsyncEnforcer" if is_async else "Enforcer", probed=True,
                             watcher_callbacks="coroutine" if coro else "plain", adapter_refuses=list(refuse))
        _SPECS[key] = sc
    return _SPECS[key]


def run_probed(chk, n):
    """sync and async enforcers behind probes: (a) the watcher records what the enforcer's memory and the adapter hold at
    callback time; (b) async: the update_for_* callbacks are COROUTINE functions that yield once before recording;
    (c) the adapter REFUSES some kinds of calls (returns False): such a call reports failure and must not notify.
    Model correspondence where the adapter refuses nothing."""
    from ..async_facade import probed_enforcer
    rng = chk.rng
    st = chk.extra.setdefault("strata", {})
    for is_async in (False, True):
        for refuse in REFUSALS:
            for coro in ((False, True) if is_async else (False,)):
                for kn in ("acl", "rbac"):
                    for w in ((2, 3) if coro else (1, 2, 3)):
                        kind = mgmt.KINDS[kn].with_(adapter=True, watcher=w)
                        cases = []
                        for _ in range(n if not refuse else max(2, n // 2)):
                            g = mgmt.Gen(rng, kind, W)
                            rows = g.rows(rng.randint(0, 6))
                            ops = g.history(rng.randint(3, 12), final_probe=False)
                            if refuse:
                                # delete_user / delete_role are TWO underlying calls whose successes the spec counts from the
                                # stores; with a refusing adapter a changed store no longer means a reported success
                                ops = [o for o in ops if o[0] not in (10, 11)]
                            cases.append((rows, True, ops))
                        label = (f"probed-{'async' if is_async else 'sync'}-{kn}-watcher{w}" + ("-coroutine-callbacks" if coro else "") +
                                 (("-adapter-refuses-" + "+".join(refuse)) if refuse else ""))
                        mgmt.run_cases(chk, kind, cases, probed_spec(is_async, coro, refuse), label=label,
                                       impl_kwargs=dict(enforcer_cls=probed_enforcer(is_async, coro, refuse)),
                                       compare_model=not refuse,
                                       key_fn=lambda k_, r, o, _t=(is_async, coro, refuse): ("probed", _t, k_.name, k_.watcher, repr([x for x in o if x[0] < 50])))
                        key = f"probed_{'async' if is_async else 'sync'}" + ("_coroutine_callbacks" if coro else "") + ("_adapter_refuses" if refuse else "")
                        st[key] = st.get(key, 0) + len(cases)


def main():
    chk = Check(PROP)
    chk.rule = ("management histories (valid, duplicate, rejected calls; single/batch/filtered/update/update_filtered; RBAC "
                "wrappers; save_policy) x watcher kinds {update() only, WatcherEx, WatcherEx+WatcherUpdatable} x auto-notify "
                "toggled inside 30% of the histories, adapter attached, on ACL / RBAC / domain / priority models; plus histories "
                "in which set_watcher replaces the watcher (any kind -> any kind) half-way; "
                "non-trivial = at least one mutating call; distinct by (kind, watcher, mutating calls)"
                "; probed strata on the sync and the async enforcer: the recording watcher looks at the enforcer's stored rules "
                "and the adapter's rows at callback time, the async watcher's update_for_* callbacks are coroutine functions "
                "in half of the async histories, and the adapter refuses (returns False for) one of 6 groups of calls in "
                "6 of 7 configurations")
    chk.assumptions = ["save_policy notifies whenever a watcher is set (the property's last clause; the code does not consult "
                       "auto-notify there, like the Go reference)",
                       "delete_user / delete_role are two underlying management calls: one notification per successful one",
                       "async enforcer: ACL/RBAC histories, each call awaited; watcher.update() is a plain function as in casbin.persist.Watcher, only the update_for_* callbacks may be coroutine functions; the twin equality is C18",
                       "a refusing adapter returns False and stores nothing; what the enforcer keeps in memory after a refused call is outside this property"]
    chk.trusted = ["hand-written models coq/theories/{Policy,RoleGraph,Mgmt}.v tied by the differential history correspondence",
                   "translator translators/internal.py (casbin/internal_enforcer.py -> coq/gen/InternalGen.v, syntactic, fail-closed, regenerated "
                   "on this run) + interpreter coq/theories/IntLang.v; InternalTie.v proves the regenerated internal API = Mgmt.v's i_* functions "
                   "(results, rule lists, adapter calls, notifications) for every configuration; _update_filtered_policies not translated"]
    chk.build(translators=["internal"], oracle_name="Mgmt")
    if chk.replay_file:
        import json
        c = (json.load(open(chk.replay_file)).get("case") or {})
        if c.get("stratum") == "partial-watcher-minimal-adapter":
            a = c["replay_args"]
            bad = c20_partial.run_one(a[0], a[1], a[2], tuple(a[3]), a[4])
            print("replay (partial watcher / minimal adapter):", a, "->", bad)
            if bad:
                print(f"VIOLATION property={chk.prop} replay={chk.replay_file}")
                raise SystemExit(1)
            print("replay passes: the implementation satisfies the spec on this call")
            raise SystemExit(0)
        if c.get("stratum") == "watcher-replaced":
            return replay_swap(chk, c)
        if c.get("probed"):
            from ..async_facade import probed_enforcer
            t = (c.get("enforcer") == "AsyncEnforcer", c.get("watcher_callbacks") == "coroutine", tuple(c.get("adapter_refuses") or ()))
            if t[2]:
                chk.oracle = None          # the model's adapter never refuses
            return mgmt.replay_case(chk, probed_spec(*t), impl_kwargs=dict(enforcer_cls=probed_enforcer(*t)))
        if c.get("enforcer") == "AsyncEnforcer":
            from ..async_facade import AsyncFacade
            return mgmt.replay_case(chk, spec_check_async, impl_kwargs=dict(enforcer_cls=AsyncFacade))
        return mgmt.replay_case(chk, spec_check)
    if chk.tier == "thorough":
        run(chk, 600)
        run_swap(chk, 1500)
        run_async(chk, 300)
        run_probed(chk, 100)
        c20_partial.run(chk, 12)
    else:
        run(chk, 60)
        run_swap(chk, 150)
        run_async(chk, 30)
        run_probed(chk, 24)
        c20_partial.run(chk, 2)
        if (chk.broken() or chk.anchor_changed) and not chk.spec_failures:
            run(chk, 300)
            if not chk.spec_failures:
                run_probed(chk, 40)
    chk.finish()


if __name__ == "__main__":
    main()
