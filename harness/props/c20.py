"""C20 — every successful policy change notifies the watcher exactly once.
SPEC on the implementation (recording watchers of three kinds: update() only / WatcherEx callbacks /
WatcherEx + WatcherUpdatable), adapter attached, auto-save on:
  * a base management call that reports success -> exactly one notification, issued after the adapter call:
    the operation's own callback with exactly the operation's arguments if the watcher offers it, else update();
  * a call that reports failure / no change, and any call while auto-notify is off -> none;
  * save_policy -> exactly one (update_for_save_policy if offered, else update())."""
from ..core import Check
from .. import mgmt, c20_partial
from ..specs import truthy, desugar, abs_base, stores

PROP = "C20"
W = dict(p_update_filtered=0.5, probe=0, query=1, load=0, save=1, clear=0, build=0, flags=0, rbac=4, p_update=4,
         p_update_many=3, g_remove_filtered=3)


def expected_specific(kind, op):
    """the callback corresponding to a base op, as a canonical watcher-call value, and the watcher kind
    from which it is offered (2 = WatcherEx, 3 = WatcherUpdatable)"""
    c = op[0]
    if c == 1:
        return [1, op[1], op[2]], 2
    if c == 2:
        return [2, op[1], op[2]], 2
    if c == 3:
        return [3, op[1], op[2]], 2
    if c == 4:
        return [4, op[1], op[2]], 2
    if c == 5:
        return [5, op[1], op[2], op[3]], 2
    if c == 6:
        return [6, op[1], op[2]], 3
    if c == 7:
        return [7, op[1], op[2]], 3
    return None, 99


def spec_check(kind, rows, lf, ops, obs, impl, init=None):
    """init = (auto_notify, auto_save) at the start of `ops` when the history is a later segment of a longer one"""
    out = []
    auto_notify, auto_save = init or (True, True)
    prev = None
    for i, (op, o) in enumerate(zip(ops, obs)):
        c = op[0]
        res, acalls, wcalls = o[0], o[1], o[2]
        if c == 37:
            auto_notify = bool(op[1])
        if c == 35:
            auto_save = bool(op[1])
        if kind.watcher == 0:
            prev = o
            continue
        if c == 33:
            want = [[9]] if kind.watcher >= 2 else [[0]]
            if wcalls != want:
                out.append((i, "save_policy did not notify exactly once (update_for_save_policy if offered, else update)"))
                return out
        elif 1 <= c <= 20:
            base = desugar(kind, op)
            if not (auto_notify and auto_save and kind.adapter):
                if wcalls:
                    out.append((i, "a notification was sent although auto-notify (or auto-save) is off"))
                    return out
            elif res[0] != 0:
                pass
            elif c == 8:
                ok = truthy(res)
                if (ok and wcalls != [[0]]) or (not ok and wcalls):
                    out.append((i, "update_filtered_policies: not exactly one update() on success / none on failure"))
                    return out
            elif len(base) == 1:
                ok = truthy(res)
                if not ok:
                    if wcalls:
                        out.append((i, "a call that reported failure / no change notified the watcher"))
                        return out
                else:
                    spec, frm = expected_specific(kind, base[0])
                    want = [spec] if kind.watcher >= frm else [[0]]
                    if len(wcalls) != 1:
                        out.append((i, f"a successful call sent {len(wcalls)} notifications instead of exactly one"))
                        return out
                    if wcalls != want:
                        out.append((i, "the notification is not the operation's own callback with the operation's arguments "
                                       "(or update() when the watcher does not offer it)"))
                        return out
                    if not acalls:
                        out.append((i, "notification without a preceding adapter call"))
                        return out
            else:
                # delete_user / delete_role: one notification per successful underlying call
                st = stores(prev) if prev is not None else {0: [r for pt, r in rows if pt == 0], 1: [r for pt, r in rows if pt == 1], 2: [r for pt, r in rows if pt == 2]}
                n_ok = 0
                for b in base:
                    st2, okb = abs_base(b, st)
                    if st2 is None:
                        n_ok = None
                        break
                    st = st2
                    n_ok += 1 if okb else 0
                if n_ok is not None and len(wcalls) != n_ok:
                    out.append((i, f"{len(wcalls)} notifications for {n_ok} successful underlying changes"))
                    return out
        elif wcalls:
            out.append((i, "a call that changes no policy notified the watcher"))
            return out
        prev = o
    return out


class OrderWatcherMixin:
    pass


def run(chk, n):
    rng = chk.rng
    for kn in ("acl", "rbac", "dom", "prio", "rbac_res"):
        for w in (1, 2, 3):
            kind = mgmt.KINDS[kn].with_(adapter=True, watcher=w)
            cases = []
            for _ in range(n):
                g = mgmt.Gen(rng, kind, W)
                rows = g.rows(rng.randint(0, 6))
                ops = g.history(rng.randint(3, 14), final_probe=False)
                if rng.random() < 0.3:
                    k = rng.randrange(len(ops) + 1)
                    ops.insert(k, (37, False))
                    if rng.random() < 0.5:
                        ops.insert(rng.randrange(k + 1, len(ops) + 1), (37, True))
                cases.append((rows, True, ops))
            mgmt.run_cases(chk, kind, cases, spec_check, label=f"random-{kn}-watcher{w}")
            chk.extra.setdefault("strata", {})[f"random_{kn}_watcher{w}"] = len(cases)


def spec_check_async(kind, rows, lf, ops, obs, impl):
    return spec_check(kind, rows, lf, ops, obs, impl)


spec_check_async.case_extra = dict(enforcer="AsyncEnforcer")


def run_async(chk, n):
    """the same histories on the AsyncEnforcer (each call awaited; plain, non-coroutine watcher callbacks)"""
    from ..async_facade import AsyncFacade
    rng = chk.rng
    for kn in ("acl", "rbac"):
        for w in (1, 2, 3):
            kind = mgmt.KINDS[kn].with_(adapter=True, watcher=w)
            cases = []
            for _ in range(n):
                g = mgmt.Gen(rng, kind, W)
                rows = g.rows(rng.randint(0, 6))
                cases.append((rows, True, g.history(rng.randint(3, 12), final_probe=False)))
            mgmt.run_cases(chk, kind, cases, spec_check_async, label=f"random-async-{kn}-watcher{w}",
                           impl_kwargs=dict(enforcer_cls=AsyncFacade),
                           key_fn=lambda k, r, o: ("async", k.name, k.watcher, repr([x for x in o if x[0] < 50])))
            chk.extra.setdefault("strata", {})[f"random_async_{kn}_watcher{w}"] = len(cases)


def swap_execute(kn, w1, w2, rows, ops1, ops2):
    kind1 = mgmt.KINDS[kn].with_(adapter=True, watcher=w1)
    kind2 = kind1.with_(watcher=w2)
    impl = mgmt.Impl(kind1, rows, True)
    obs1 = [impl.step(op) for op in ops1]
    old = impl.watcher
    rows2 = [(0, r) for r in impl.policy(0)] + [(1, r) for r in impl.policy(1)] + [(2, r) for r in impl.policy(2)]
    new = mgmt.WATCHERS[w2]()
    impl.e.set_watcher(new)
    impl.watcher = new
    obs2, stale = [], None
    for k, op in enumerate(ops2):
        obs2.append(impl.step(op))
        if old.calls and stale is None:
            stale = (k, list(old.calls))
    v = spec_check(kind1, rows, True, ops1, obs1, impl)
    if v:
        return ("segment-1", v[0][0], v[0][1])
    if stale is not None:
        return ("segment-2", stale[0], "a replaced watcher was still notified: %r" % (stale[1][:2],))
    v = spec_check(kind2, rows2, True, ops2, obs2, impl)
    if v:
        return ("segment-2", v[0][0], v[0][1])
    return None


def replay_swap(chk, c):
    import sys
    def tup(o):
        return tuple(tuple(x) if False else x for x in o)
    bad = swap_execute(c["kind"], c["watcher_before"], c["watcher_after"], [(pt, r) for pt, r in c["initial_rows"]],
                       [tuple(o) for o in c["ops_before"]], [tuple(o) for o in c["ops_after"]])
    print("replay (watcher replaced half-way):", c["readable"], "->", bad)
    if bad:
        print(f"VIOLATION property={chk.prop} replay={chk.replay_file}")
        sys.exit(1)
    print("replay passes: the implementation satisfies the spec on this history")
    sys.exit(0)


def run_swap(chk, n):
    """the watcher is REPLACED in the middle of a history (set_watcher with another recording watcher, possibly of
    another kind): from then on the new watcher gets exactly what the property says for its kind and the replaced
    one gets nothing.  Implementation only (the model's watcher kind is fixed per history); SPEC = spec_check on
    either segment + silence of the replaced watcher."""
    rng = chk.rng
    reported = 0
    for kn in ("acl", "rbac"):
        for _ in range(n):
            w1, w2 = rng.choice([1, 2, 3]), rng.choice([1, 2, 3])
            kind1 = mgmt.KINDS[kn].with_(adapter=True, watcher=w1)
            kind2 = kind1.with_(watcher=w2)
            g = mgmt.Gen(rng, kind1, W)
            rows = g.rows(rng.randint(0, 6))
            ops1 = g.history(rng.randint(1, 6), final_probe=False)
            ops2 = g.history(rng.randint(1, 8), final_probe=False)

            def execute(ops1, ops2):
                return swap_execute(kn, w1, w2, rows, ops1, ops2)
            bad = execute(ops1, ops2)
            chk.count(("swap", kn, w1, w2, repr([o for o in ops1 + ops2 if o[0] < 50])))
            if bad:
                if reported < 3:
                    # shrink both segments
                    a, b = list(ops1), list(ops2)
                    changed = True
                    while changed:
                        changed = False
                        for seg in (0, 1):
                            cur = a if seg == 0 else b
                            for i in range(len(cur) - 1, -1, -1):
                                cand = cur[:i] + cur[i + 1:]
                                try:
                                    r = execute(cand, b) if seg == 0 else execute(a, cand)
                                except Exception:  # noqa
                                    r = None
                                if r and r[2] == bad[2]:
                                    if seg == 0:
                                        a = cand
                                    else:
                                        b = cand
                                    cur = cand
                                    changed = True
                    ops1, ops2 = a, b
                reported += 1
                chk.spec_fail(dict(stratum="watcher-replaced", kind=kn, watcher_before=w1, watcher_after=w2,
                                   initial_rows=[[pt, r] for pt, r in rows],
                                   readable=dict(before=[mgmt.pretty_op(o) for o in ops1], after=[mgmt.pretty_op(o) for o in ops2]),
                                   ops_before=[list(o) for o in ops1], ops_after=[list(o) for o in ops2]),
                              dict(where=bad[0], step=bad[1]), "see 'what'", bad[2])
    chk.extra.setdefault("strata", {})["watcher_replaced_histories"] = 2 * n


# ----------------------------------------------------------------------------- watcher attached / exchanged / detached at any
# point of a history, in any order with the auto-notify switch (added after the fifth seeding wave)
SETW = 90            # pseudo-op (90, k): e.set_watcher(<a fresh recording watcher of kind k>), k = 0: set_watcher(None)
W_NAMES = {0: "None", 1: "Watcher(update() only)", 2: "WatcherEx", 3: "WatcherEx+WatcherUpdatable"}


def attach_pretty(items):
    return [["set_watcher", W_NAMES[o[1]]] if o[0] == SETW else mgmt.pretty_op(o) for o in items]


def attach_segments(w0, items):
    segs = [(w0, [])]
    for o in items:
        if o[0] == SETW:
            segs.append((o[1], []))
        else:
            segs[-1][1].append(o)
    return segs


def attach_execute(kn, is_async, w0, rows, items):
    """the history `items` (management ops, flag changes, queries and set_watcher pseudo-ops) on an enforcer that starts
    with a watcher of kind w0 (0 = none attached).  SPEC: spec_check on every segment between two set_watcher calls, for the
    kind of the watcher attached during that segment and with the auto-notify / auto-save state the history has reached
    (set_watcher is not a flag change); a watcher that was replaced or detached is never notified again.
    Returns (violation | None, flat observations)."""
    kw = {}
    if is_async:
        from ..async_facade import AsyncFacade
        kw = dict(enforcer_cls=AsyncFacade)
    kind0 = mgmt.KINDS[kn].with_(adapter=True, watcher=w0)
    impl = mgmt.Impl(kind0, rows, True, **kw)
    retired, flat, bad = [], [], None
    notify, save = True, True
    pos = 0
    for si, (wk, ops) in enumerate(attach_segments(w0, items)):
        if si > 0:
            if impl.watcher is not None:
                retired.append(impl.watcher)
            new = mgmt.WATCHERS[wk]() if wk else None
            impl.e.set_watcher(new)
            impl.watcher = new
            flat.append(None)
            pos += 1
        kind = kind0.with_(watcher=wk)
        rows_now = [(pt, r) for pt in (0, 1, 2) for r in impl.policy(pt)]
        obs, stale = [], None
        for k, op in enumerate(ops):
            obs.append(impl.step(op))
            if stale is None and any(r.calls for r in retired):
                stale = (k, [list(r.calls)[:2] for r in retired if r.calls])
        flat.extend(obs)
        if bad is None and stale is not None:
            bad = (pos + stale[0], "a replaced / detached watcher was still notified: %r" % (stale[1],))
        if bad is None:
            v = spec_check(kind, rows_now, True, ops, obs, impl, init=(notify, save))
            if v:
                bad = (pos + v[0][0], v[0][1])
        for op in ops:
            if op[0] == 37:
                notify = bool(op[1])
            elif op[0] == 35:
                save = bool(op[1])
        pos += len(ops)
    return bad, flat


def attach_model_kind(kn, w0, items):
    """the Mgmt model has ONE watcher of a fixed kind from the start.  It covers a history with set_watcher calls when every
    watcher attached is of the same kind w and, while none is attached, only flag changes and queries happen: then the
    history without the set_watcher calls, run with a watcher of kind w from the start, must give the same observations."""
    segs = attach_segments(w0, items)
    ws = {wk for wk, _ in segs if wk}
    if len(ws) != 1:
        return None
    for wk, ops in segs:
        if wk == 0 and any(not (o[0] >= 50 or o[0] in (36, 37, 38)) for o in ops):
            return None
    return mgmt.KINDS[kn].with_(adapter=True, watcher=ws.pop())


def gen_attach(rng, kn):
    uniform = rng.random() < 0.5
    wu = rng.choice([1, 2, 3])
    pick = (lambda: rng.choice([wu, wu, 0])) if uniform else (lambda: rng.choice([1, 2, 3, 1, 2, 3, 0]))
    w0 = 0 if rng.random() < 0.5 else pick()
    n_seg = rng.choice([2, 2, 3, 4])
    kinds = [w0] + [pick() for _ in range(n_seg - 1)]
    if not any(kinds):
        kinds[-1] = wu
    g = mgmt.Gen(rng, mgmt.KINDS[kn].with_(adapter=True, watcher=3), W)
    rows = g.rows(rng.randint(0, 6))
    items = []
    for si, wk in enumerate(kinds):
        if si > 0:
            items.append((SETW, wk))
        if wk == 0 and (uniform or rng.random() < 0.5):
            ops = [g.query() for _ in range(rng.randint(0, 2))]
        else:
            ops = g.history(rng.randint(1, 6), final_probe=False)
        x = rng.random()
        if x < 0.45:
            ops.append((37, False))                 # the switch is flipped right before the next set_watcher
        elif x < 0.6:
            ops.append((37, True))
        if rng.random() < 0.3:
            ops.insert(rng.randrange(len(ops) + 1), (37, rng.random() < 0.5))
        items.extend(ops)
    return w0, rows, items


def attach_case(kn, is_async, w0, rows, items):
    return dict(stratum="watcher-attach-order", kind=kn, enforcer="AsyncEnforcer" if is_async else "Enforcer",
                initial_watcher=w0, initial_rows=[[pt, r] for pt, r in rows], items=[list(o) for o in items],
                readable=dict(initial_watcher=W_NAMES[w0], initial_rows=[[pt, mgmt.S(r)] for pt, r in rows],
                              history=attach_pretty(items)))


def attach_model_diff(chk, kn, w0, rows, items, flat):
    mk = attach_model_kind(kn, w0, items)
    if mk is None or chk.oracle is None:
        return None
    ops = [o for o in items if o[0] != SETW]
    mo = mgmt.run_model(chk.oracle, mk, rows, True, [ops])[0]
    return first_attach_diff(items, flat, mo)


def first_attach_diff(items, flat, mo):
    obs = [o for o in flat if o is not None]
    d = mgmt.first_diff(obs, mo)
    if not d:
        return None
    # position in `items` of the d[0]-th real op
    k = -1
    for i, o in enumerate(items):
        if o[0] != SETW:
            k += 1
            if k == d[0]:
                return (i, d[1], obs[d[0]] if d[0] < len(obs) else None, mo[d[0]] if mo and d[0] < len(mo) else mo)
    return (len(items), d[1], None, None)


def replay_attach(chk, c):
    import sys
    rows = [(pt, r) for pt, r in c["initial_rows"]]
    items = [tuple(o) for o in c["items"]]
    is_async = c.get("enforcer") == "AsyncEnforcer"
    bad, flat = attach_execute(c["kind"], is_async, c["initial_watcher"], rows, items)
    d = attach_model_diff(chk, c["kind"], c["initial_watcher"], rows, items, flat)
    print("replay (watcher attached / exchanged / detached inside the history):", c["readable"])
    print("  spec violation on the implementation:", bad)
    print("  implementation vs model:", d[:2] if d else None)
    if bad:
        print(f"VIOLATION property={chk.prop} replay={chk.replay_file}")
        sys.exit(1)
    if d:
        print(f"VIOLATION property={chk.prop} replay={chk.replay_file} no-failing-input-found")
        sys.exit(1)
    print("replay passes: the implementation satisfies the spec on this history" + (" and agrees with the model" if attach_model_kind(c["kind"], c["initial_watcher"], items) else ""))
    sys.exit(0)


def run_attach(chk, n):
    """set_watcher at ANY point of the history and in any order with enable_auto_notify_watcher: no watcher at first and one
    attached later (possibly after auto-notify was switched off), the watcher exchanged or detached (set_watcher(None)) and
    re-attached while auto-notify is off or on; sync and async enforcer.  Attaching a watcher is not a flag change: the
    notifications of every later call are those the property states for the watcher attached at that moment and the
    auto-notify state the history's enable_auto_notify_watcher calls have produced."""
    rng = chk.rng
    st = chk.extra.setdefault("strata", {})
    reported = 0
    for is_async in (False, True):
        for kn in ("acl", "rbac"):
            pending = []
            for _ in range(n):
                w0, rows, items = gen_attach(rng, kn)
                bad, flat = attach_execute(kn, is_async, w0, rows, items)
                chk.count(("attach", is_async, kn, w0, repr([o for o in items if o[0] < 50 or o[0] == SETW])))
                if len(pending) % max(1, n // 2) == 0:
                    chk.sample(dict(stratum="watcher-attach-order", kind=kn, enforcer="AsyncEnforcer" if is_async else "Enforcer",
                                    initial_watcher=W_NAMES[w0], history=attach_pretty(items)[:14]), cap=10)
                if bad:
                    if reported < 3:
                        msg = bad[1]

                        def fails(cand, _msg=msg, _w0=w0, _rows=rows):
                            b, _ = attach_execute(kn, is_async, _w0, _rows, cand)
                            return bool(b) and b[1] == _msg
                        items = mgmt.shrink(items[:bad[0] + 1], fails)
                        b2, _ = attach_execute(kn, is_async, w0, rows, items)
                        bad = b2 or bad
                    reported += 1
                    chk.spec_fail(attach_case(kn, is_async, w0, rows, items), dict(step=bad[0]), "see 'what'", bad[1])
                    continue
                mk = attach_model_kind(kn, w0, items)
                if mk is not None:
                    pending.append((mk, w0, rows, items, flat))
                else:
                    pending.append(None)
            todo = [p for p in pending if p is not None]
            if todo and chk.oracle is not None:
                reqs = [(1, [mk.wire(), [[pt, r] for pt, r in rows], True, [list(o) for o in items if o[0] != SETW]])
                        for mk, w0, rows, items, flat in todo]
                reps = chk.oracle.query(reqs)
                for (mk, w0, rows, items, flat), rep in zip(todo, reps):
                    ops = [o for o in items if o[0] != SETW]
                    mo = None
                    if isinstance(rep, list) and rep != [998] and not (rep and rep[0] == "ORACLE-ERROR"):
                        mo = [mgmt.canon_model_obs(op, o) for op, o in zip(ops, rep)]
                    d = first_attach_diff(items, flat, mo)
                    if d:
                        chk.disagree(attach_case(kn, is_async, w0, rows, items[:d[0] + 1]), d[2], d[3],
                                     where=f"watcher-attach-order ({'async' if is_async else 'sync'} {kn}): item {d[0]} component {d[1]}")
                st["watcher_attach_order_model_compared"] = st.get("watcher_attach_order_model_compared", 0) + len(todo)
            chk.traces += n
            st["watcher_attach_order_histories"] = st.get("watcher_attach_order_histories", 0) + n


# ----------------------------------------------------------------------------- probed strata (added after the third seeding wave)
REFUSALS = [(), ("add_policy",), ("remove_policy",), ("add_policies", "remove_policies"), ("update_policy", "update_policies"),
            ("remove_filtered_policy",),
            ("add_policy", "remove_policy", "add_policies", "remove_policies", "update_policy", "update_policies", "remove_filtered_policy")]


def snap_canon(sn):
    A = mgmt.ATOMS
    mem = [A.rules(sn["mem"].get(k, [])) for k in ("p", "g", "g2")]
    return mem, [[mgmt.PT_OF[pt], A.rule(r)] for pt, r in sn["rows"]]


def order_check(kind, rows, lf, ops, obs, impl):
    """"issued AFTER the in-memory and adapter changes": the recording watcher looks at the enforcer's stored rules and at
    the adapter's rows at the moment it is notified; for a call that stands for ONE base operation (and for save_policy and
    update_filtered_policies) what it sees must already be what the call leaves behind"""
    snaps = list(getattr(impl.watcher, "snaps", []) or []) if impl.watcher is not None else []
    k = 0
    for i, (op, o) in enumerate(zip(ops, obs)):
        n = len(o[2])
        mine, k = snaps[k:k + n], k + n
        c = op[0]
        single = c in (8, 33) or (1 <= c <= 20 and len(desugar(kind, op)) == 1)
        if n == 1 and len(mine) == 1 and single and o[0][0] == 0:
            mem, db = snap_canon(mine[0])
            if mem != [o[3], o[4], o[5]]:
                return [(i, "the watcher was notified before the in-memory change was complete (at callback time the stored "
                            "rules were not yet those the call leaves)")]
            if db != o[6]:
                return [(i, "the watcher was notified before the adapter change was complete (at callback time the adapter's "
                            "rows were not yet those the call leaves)")]
    if k != len(snaps):
        return [(len(ops) - 1, "a notification was issued that no management call of the history accounts for")]
    return []


_SPECS = {}


def probed_spec(is_async, coro, refuse):
    key = (is_async, coro, tuple(refuse))
    if key not in _SPECS:
        def sc(kind, rows, lf, ops, obs, impl):
            return spec_check(kind, rows, lf, ops, obs, impl) or order_check(kind, rows, lf, ops, obs, impl)
        sc.case_extra = dict(enforcer="AsyncEnforcer" if is_async else "Enforcer", probed=True,
                             watcher_callbacks="coroutine" if coro else "plain", adapter_refuses=list(refuse))
        _SPECS[key] = sc
    return _SPECS[key]


def run_probed(chk, n):
    """sync and async enforcers behind probes: (a) the watcher records what the enforcer's memory and the adapter hold at
    callback time; (b) async: the update_for_* callbacks are COROUTINE functions that yield once before recording;
    (c) the adapter REFUSES some kinds of calls (returns False): such a call reports failure and must not notify.
    Model correspondence where the adapter refuses nothing."""
    from ..async_facade import probed_enforcer
    rng = chk.rng
    st = chk.extra.setdefault("strata", {})
    for is_async in (False, True):
        for refuse in REFUSALS:
            for coro in ((False, True) if is_async else (False,)):
                for kn in ("acl", "rbac"):
                    for w in ((2, 3) if coro else (1, 2, 3)):
                        kind = mgmt.KINDS[kn].with_(adapter=True, watcher=w)
                        cases = []
                        for _ in range(n if not refuse else max(2, n // 2)):
                            g = mgmt.Gen(rng, kind, W)
                            rows = g.rows(rng.randint(0, 6))
                            ops = g.history(rng.randint(3, 12), final_probe=False)
                            if refuse:
                                # delete_user / delete_role are TWO underlying calls whose successes the spec counts from the
                                # stores; with a refusing adapter a changed store no longer means a reported success
                                ops = [o for o in ops if o[0] not in (10, 11)]
                            cases.append((rows, True, ops))
                        label = (f"probed-{'async' if is_async else 'sync'}-{kn}-watcher{w}" + ("-coroutine-callbacks" if coro else "") +
                                 (("-adapter-refuses-" + "+".join(refuse)) if refuse else ""))
                        mgmt.run_cases(chk, kind, cases, probed_spec(is_async, coro, refuse), label=label,
                                       impl_kwargs=dict(enforcer_cls=probed_enforcer(is_async, coro, refuse)),
                                       compare_model=not refuse,
                                       key_fn=lambda k_, r, o, _t=(is_async, coro, refuse): ("probed", _t, k_.name, k_.watcher, repr([x for x in o if x[0] < 50])))
                        key = f"probed_{'async' if is_async else 'sync'}" + ("_coroutine_callbacks" if coro else "") + ("_adapter_refuses" if refuse else "")
                        st[key] = st.get(key, 0) + len(cases)


def main():
    chk = Check(PROP)
    chk.rule = ("management histories (valid, duplicate, rejected calls; single/batch/filtered/update/update_filtered; RBAC "
                "wrappers; save_policy) x watcher kinds {update() only, WatcherEx, WatcherEx+WatcherUpdatable} x auto-notify "
                "toggled inside 30% of the histories, adapter attached, on ACL / RBAC / domain / priority models; plus histories "
                "in which set_watcher replaces the watcher (any kind -> any kind) half-way; "
                "non-trivial = at least one mutating call; distinct by (kind, watcher, mutating calls)"
                "; probed strata on the sync and the async enforcer: the recording watcher looks at the enforcer's stored rules "
                "and the adapter's rows at callback time, the async watcher's update_for_* callbacks are coroutine functions "
                "in half of the async histories, and the adapter refuses (returns False for) one of 6 groups of calls in "
                "6 of 7 configurations; attach-order histories: set_watcher (a fresh watcher of any kind, or None) as an "
                "event anywhere in the history, in any order with enable_auto_notify_watcher (off before the first watcher is "
                "attached, exchanged / detached / re-attached while off), sync and async")
    chk.assumptions = ["save_policy notifies whenever a watcher is set (the property's last clause; the code does not consult "
                       "auto-notify there, like the Go reference)",
                       "delete_user / delete_role are two underlying management calls: one notification per successful one",
                       "async enforcer: ACL/RBAC histories, each call awaited; watcher.update() is a plain function as in casbin.persist.Watcher, only the update_for_* callbacks may be coroutine functions; the twin equality is C18",
                       "a refusing adapter returns False and stores nothing; what the enforcer keeps in memory after a refused call is outside this property"]
    chk.trusted = ["hand-written models coq/theories/{Policy,RoleGraph,Mgmt}.v tied by the differential history correspondence",
                   "translator translators/internal.py (casbin/internal_enforcer.py -> coq/gen/InternalGen.v, syntactic, fail-closed, regenerated "
                   "on this run) + interpreter coq/theories/IntLang.v; InternalTie.v proves the regenerated internal API = Mgmt.v's i_* functions "
                   "(results, rule lists, adapter calls, notifications) for every configuration; _update_filtered_policies not translated"]
    chk.build(translators=["internal"], oracle_name="Mgmt")
    if chk.replay_file:
        import json
        c = (json.load(open(chk.replay_file)).get("case") or {})
        if c.get("stratum") == "partial-watcher-minimal-adapter":
            a = c["replay_args"]
            bad = c20_partial.run_one(a[0], a[1], a[2], tuple(a[3]), a[4], *(a[5:6]))
            print("replay (partial watcher / minimal adapter):", a, "->", bad)
            if bad:
                print(f"VIOLATION property={chk.prop} replay={chk.replay_file}")
                raise SystemExit(1)
            print("replay passes: the implementation satisfies the spec on this call")
            raise SystemExit(0)
        if c.get("stratum") == "watcher-replaced":
            return replay_swap(chk, c)
        if c.get("stratum") == "watcher-attach-order":
            return replay_attach(chk, c)
        if c.get("probed"):
            from ..async_facade import probed_enforcer
            t = (c.get("enforcer") == "AsyncEnforcer", c.get("watcher_callbacks") == "coroutine", tuple(c.get("adapter_refuses") or ()))
            if t[2]:
                chk.oracle = None          # the model's adapter never refuses
            return mgmt.replay_case(chk, probed_spec(*t), impl_kwargs=dict(enforcer_cls=probed_enforcer(*t)))
        if c.get("enforcer") == "AsyncEnforcer":
            from ..async_facade import AsyncFacade
            return mgmt.replay_case(chk, spec_check_async, impl_kwargs=dict(enforcer_cls=AsyncFacade))
        return mgmt.replay_case(chk, spec_check)
    if chk.tier == "thorough":
        run(chk, 600)
        run_swap(chk, 1500)
        run_async(chk, 300)
        run_probed(chk, 100)
        run_attach(chk, 1500)
        c20_partial.run(chk, 12)
    else:
        run(chk, 60)
        run_swap(chk, 150)
        run_async(chk, 30)
        run_probed(chk, 24)
        run_attach(chk, 150)
        c20_partial.run(chk, 2)
        if (chk.broken() or chk.anchor_changed) and not chk.spec_failures:
            run_attach(chk, 600)
        if (chk.broken() or chk.anchor_changed) and not chk.spec_failures:
            run(chk, 300)
            if not chk.spec_failures:
                run_probed(chk, 40)
    chk.finish()


if __name__ == "__main__":
    main()
