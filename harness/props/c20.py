"""C20 — every successful policy change notifies the watcher exactly once.
SPEC on the implementation (recording watchers of three kinds: update() only / WatcherEx callbacks /
WatcherEx + WatcherUpdatable), adapter attached, auto-save on:
  * a base management call that reports success -> exactly one notification, issued after the adapter call:
    the operation's own callback with exactly the operation's arguments if the watcher offers it, else update();
  * a call that reports failure / no change, and any call while auto-notify is off -> none;
  * save_policy -> exactly one (update_for_save_policy if offered, else update())."""
from ..core import Check
from .. import mgmt
from ..specs import truthy, desugar, abs_base, stores

PROP = "C20"
W = dict(p_update_filtered=0.5, probe=0, query=1, load=0, save=1, clear=0, build=0, flags=0, rbac=4, p_update=4,
         p_update_many=3, g_remove_filtered=3)


def expected_specific(kind, op):
    """the callback corresponding to a base op, as a canonical watcher-call value, and the watcher kind
    from which it is offered (2 = WatcherEx, 3 = WatcherUpdatable)"""
    c = op[0]
    if c == 1:
        return [1, op[1], op[2]], 2
    if c == 2:
        return [2, op[1], op[2]], 2
    if c == 3:
        return [3, op[1], op[2]], 2
    if c == 4:
        return [4, op[1], op[2]], 2
    if c == 5:
        return [5, op[1], op[2], op[3]], 2
    if c == 6:
        return [6, op[1], op[2]], 3
    if c == 7:
        return [7, op[1], op[2]], 3
    return None, 99


def spec_check(kind, rows, lf, ops, obs, impl):
    out = []
    auto_notify, auto_save = True, True
    prev = None
    for i, (op, o) in enumerate(zip(ops, obs)):
        c = op[0]
        res, acalls, wcalls = o[0], o[1], o[2]
        if c == 37:
            auto_notify = bool(op[1])
        if c == 35:
            auto_save = bool(op[1])
        if kind.watcher == 0:
            prev = o
            continue
        if c == 33:
            want = [[9]] if kind.watcher >= 2 else [[0]]
            if wcalls != want:
                out.append((i, "save_policy did not notify exactly once (update_for_save_policy if offered, else update)"))
                return out
        elif 1 <= c <= 20:
            base = desugar(kind, op)
            if not (auto_notify and auto_save and kind.adapter):
                if wcalls:
                    out.append((i, "a notification was sent although auto-notify (or auto-save) is off"))
                    return out
            elif res[0] != 0:
                pass
            elif c == 8:
                ok = truthy(res)
                if (ok and wcalls != [[0]]) or (not ok and wcalls):
                    out.append((i, "update_filtered_policies: not exactly one update() on success / none on failure"))
                    return out
            elif len(base) == 1:
                ok = truthy(res)
                if not ok:
                    if wcalls:
                        out.append((i, "a call that reported failure / no change notified the watcher"))
                        return out
                else:
                    spec, frm = expected_specific(kind, base[0])
                    want = [spec] if kind.watcher >= frm else [[0]]
                    if len(wcalls) != 1:
                        out.append((i, f"a successful call sent {len(wcalls)} notifications instead of exactly one"))
                        return out
                    if wcalls != want:
                        out.append((i, "the notification is not the operation's own callback with the operation's arguments "
                                       "(or update() when the watcher does not offer it)"))
                        return out
                    if not acalls:
                        out.append((i, "notification without a preceding adapter call"))
                        return out
            else:
                # delete_user / delete_role: one notification per successful underlying call
                st = stores(prev) if prev is not None else {0: [r for pt, r in rows if pt == 0], 1: [r for pt, r in rows if pt == 1], 2: [r for pt, r in rows if pt == 2]}
                n_ok = 0
                for b in base:
                    st2, okb = abs_base(b, st)
                    if st2 is None:
                        n_ok = None
                        break
                    st = st2
                    n_ok += 1 if okb else 0
                if n_ok is not None and len(wcalls) != n_ok:
                    out.append((i, f"{len(wcalls)} notifications for {n_ok} successful underlying changes"))
                    return out
        elif wcalls:
            out.append((i, "a call that changes no policy notified the watcher"))
            return out
        prev = o
    return out


class OrderWatcherMixin:
    pass


def run(chk, n):
    rng = chk.rng
    for kn in ("acl", "rbac", "dom", "prio"):
        for w in (1, 2, 3):
            kind = mgmt.KINDS[kn].with_(adapter=True, watcher=w)
            cases = []
            for _ in range(n):
                g = mgmt.Gen(rng, kind, W)
                rows = g.rows(rng.randint(0, 6))
                ops = g.history(rng.randint(3, 14), final_probe=False)
                if rng.random() < 0.3:
                    k = rng.randrange(len(ops) + 1)
                    ops.insert(k, (37, False))
                    if rng.random() < 0.5:
                        ops.insert(rng.randrange(k + 1, len(ops) + 1), (37, True))
                cases.append((rows, True, ops))
            mgmt.run_cases(chk, kind, cases, spec_check, label=f"random-{kn}-watcher{w}")
            chk.extra.setdefault("strata", {})[f"random_{kn}_watcher{w}"] = len(cases)


def main():
    chk = Check(PROP)
    chk.rule = ("management histories (valid, duplicate, rejected calls; single/batch/filtered/update/update_filtered; RBAC "
                "wrappers; save_policy) x watcher kinds {update() only, WatcherEx, WatcherEx+WatcherUpdatable} x auto-notify "
                "toggled inside 30% of the histories, adapter attached, on ACL / RBAC / domain / priority models; "
                "non-trivial = at least one mutating call; distinct by (kind, watcher, mutating calls)")
    chk.assumptions = ["save_policy notifies whenever a watcher is set (the property's last clause; the code does not consult "
                       "auto-notify there, like the Go reference)",
                       "delete_user / delete_role are two underlying management calls: one notification per successful one",
                       "sync enforcer here; the async twin is tied to it by C18"]
    chk.trusted = ["hand-written models coq/theories/{Policy,RoleGraph,Mgmt}.v tied by the differential history correspondence"]
    chk.build(oracle_name="Mgmt")
    if chk.replay_file:
        return mgmt.replay_case(chk, spec_check)
    if chk.tier == "thorough":
        run(chk, 600)
    else:
        run(chk, 60)
        if chk.broken() and not chk.spec_failures:
            run(chk, 300)
    chk.finish()


if __name__ == "__main__":
    main()
