"""harness/sched.py — controlled cooperative scheduler for code built on threading.RLock/Condition.

Purpose (C16, reused by C17): run REAL threads through REAL, unmodified code (casbin.util.rwlock.RWLockWrite,
SyncedEnforcer, ...) while a controller decides, at every synchronisation point, which thread goes next —
so that every interleaving of the lock-level steps can be enumerated, compared with a model, and replayed.

How it works
------------
`patched(module)` temporarily replaces the module globals `RLock` and `Condition` (default module:
casbin.util.rwlock, whose `from threading import RLock, Condition` makes them module globals) by the doubles
`CoopRLock` / `CoopCondition`, and restores the originals afterwards.  Objects constructed while the patch is
active (e.g. `RWLockWrite()`, `SyncedEnforcer(...)`) keep using the doubles for their whole life.

A `Controller` runs a set of thread bodies.  A controlled thread stops ("parks") at exactly two kinds of
points: (1) when it wants a mutex it does not hold (`with lock:` / `lock.acquire()`), (2) inside
`cond.wait()`, after having released the mutex atomically.  Everything between two parks of a thread is one
STEP (one monitor segment) and runs while every other controlled thread is parked, so there are no data
races inside the harness and one run is fully determined by its SCHEDULE = the list of thread ids chosen.
  * a thread is ENABLED when it is parked wanting a mutex that is free; a thread inside `wait()` is not
    enabled until a `notify`/`notify_all` selected it (FIFO, as CPython's deque of waiters), after which it
    contends for the mutex like everybody else (Mesa semantics);
  * re-entrant acquisition by the owner does not park (RLock); `wait()` releases all levels and restores them;
  * `wait(timeout)` ignores the timeout (no spurious/timeout wake-ups are simulated);
  * an uncontrolled thread (e.g. the main thread building an enforcer outside a run) uses the doubles as
    plain non-blocking re-entrant locks; it must never need to block.

No thread can leak or hang the check: workers are daemon threads, every hand-over has a timeout
(`step_timeout`), and at the end of every run the controller aborts whatever is still parked (deadlock,
stopped exploration, hang) by raising `Abort` (a BaseException) inside the parked threads and joining them.

API
---
    with patched():                                   # or patched(some_module)
        lock = RWLockWrite()                          # built on the doubles
        ctl = Controller()
        res = ctl.run([body0, body1, ...], choose, observe=obs_fn)
  body(tid)            : the code thread `tid` executes (called in its own thread).
  choose(ctl, enabled) : called by the controller at every choice point with the sorted list of enabled
                         tids; returns the tid to run, or None to stop the run here.
  observe(ctl)         : optional; called by the controller initially and after every step, while all
                         threads are parked; its results are collected in res.obs (len = steps + 1).
  res (RunResult)      : .status  'ok' (all bodies returned) | 'deadlock' (somebody unfinished, nobody enabled)
                                  | 'stopped' (choose returned None) | 'hang' (a step exceeded step_timeout)
                                  | 'error' (a body raised) | 'bad-choice'
                         .schedule [tid, ...]   .enabled [[tid, ...] per choice point]   .obs   .errors
  ctl.state(tid)       : 'want' | 'sleep' | 'done' (+ 'run' transiently);  ctl.why(tid): 'lock' | 'wake'
                         ('want'+'wake' = notified inside wait(), contending for the mutex);
  ctl.enabled()        : sorted enabled tids;   ctl.schedule : choices made so far.
  CoopCondition.waiter_tids() : tids sleeping on that condition, oldest first.

    explore(run_once, key=None, max_runs=None, deadline=None, on_run=None, order=None) -> ExploreStats
  Depth-first enumeration of schedules.  run_once(choose) must build fresh objects, call
  Controller.run with the given `choose`, and return the RunResult.  Without `key` EVERY interleaving is
  run.  With `key(ctl) -> hashable` (a canonical description of the complete state: shared variables +
  position of every thread + wait-queue order) a run is cut as soon as it reaches a state seen before, so
  every reachable state and every transition is still executed at least once, but not every path.
  `on_run(res)` is called for every run (full or cut); res.forced = number of leading choices that replayed a
  prefix of an earlier run (everything before step res.forced - 1 was already seen); returning False stops the
  enumeration.  ExploreStats: .runs .steps .states .complete (False if a budget or on_run cut it short) .by_status.
  Use `replay(run_once, schedule)` to re-run one schedule.
  `with pinned_cpu():` around an exploration makes it ~5x faster (single-core hand-overs).
"""
import threading
import time
from collections import deque
from contextlib import contextmanager


class Abort(BaseException):
    """raised inside a parked worker to unwind it when the controller ends a run"""


_TLS = threading.local()


def _current():
    return getattr(_TLS, "rec", None)


class _Signal:
    """binary hand-over signal on a raw lock (threading.Semaphore is pure Python and 5x slower)"""
    __slots__ = ("_l",)

    def __init__(self):
        self._l = threading.Lock()
        self._l.acquire()

    def set(self):
        try:
            self._l.release()
        except RuntimeError:        # already set (only happens while a run is being aborted)
            pass

    def wait(self, timeout):
        return self._l.acquire(timeout=timeout)


class _Rec:
    __slots__ = ("tid", "ctl", "state", "why", "lock", "depth", "go", "thread", "exc")

    def __init__(self, tid, ctl):
        self.tid, self.ctl = tid, ctl
        self.state, self.why, self.lock, self.depth = "new", "lock", None, 1
        self.go = _Signal()
        self.thread, self.exc = None, None


class CoopRLock:
    """double of threading.RLock"""

    def __init__(self):
        self._owner = None      # _Rec of the owning controlled thread, or ('ext', ident)
        self._depth = 0

    def acquire(self, blocking=True, timeout=-1):
        rec = _current()
        if rec is None:
            me = ("ext", threading.get_ident())
            if self._owner not in (None, me):
                raise RuntimeError("CoopRLock: an uncontrolled thread would have to block")
            self._owner, self._depth = me, self._depth + 1
            return True
        if self._owner is rec:
            self._depth += 1
            return True
        rec.depth = 1
        rec.ctl._park(rec, "want", "lock", self)      # returns once the controller granted the mutex
        return True

    def release(self):
        rec = _current()
        if rec is not None and rec.ctl.aborted:
            return
        me = rec if rec is not None else ("ext", threading.get_ident())
        if self._owner != me and self._owner is not me:
            raise RuntimeError("cannot release un-acquired lock")
        self._depth -= 1
        if self._depth == 0:
            self._owner = None

    __enter__ = acquire

    def __exit__(self, *a):
        self.release()
        return False

    def owner_tid(self):
        return self._owner.tid if isinstance(self._owner, _Rec) else None


class CoopCondition:
    """double of threading.Condition (Mesa semantics, FIFO notify, no spurious wake-ups)"""

    def __init__(self, lock=None):
        self._lock = lock if lock is not None else CoopRLock()
        self._waiters = deque()
        self.acquire, self.release = self._lock.acquire, self._lock.release

    def __enter__(self):
        return self._lock.__enter__()

    def __exit__(self, *a):
        return self._lock.__exit__(*a)

    def _owned(self):
        rec = _current()
        return rec is not None and self._lock._owner is rec

    def wait(self, timeout=None):
        rec = _current()
        if rec is None:
            raise RuntimeError("CoopCondition.wait from an uncontrolled thread")
        if not self._owned():
            raise RuntimeError("cannot wait on un-acquired lock")
        rec.depth = self._lock._depth                 # atomic release-and-enqueue
        self._lock._owner, self._lock._depth = None, 0
        self._waiters.append(rec)
        rec.ctl._park(rec, "sleep", "wake", self._lock)   # returns after notify AND re-acquisition
        return True

    def wait_for(self, predicate, timeout=None):
        r = predicate()
        while not r:
            self.wait()
            r = predicate()
        return r

    def notify(self, n=1):
        if not self._owned() and _current() is not None:
            raise RuntimeError("cannot notify on un-acquired lock")
        for _ in range(n):
            if not self._waiters:
                break
            rec = self._waiters.popleft()
            rec.state = "want"                        # now contends for the mutex (why == 'wake')

    def notify_all(self):
        self.notify(len(self._waiters))

    notifyAll = notify_all

    def waiter_tids(self):
        return [r.tid for r in self._waiters]


def yield_point():
    """an explicit scheduling point inside a controlled thread (no-op elsewhere): the thread parks as if it wanted a
    mutex nobody holds, so the controller may run any other thread before it continues"""
    rec = _current()
    if rec is None or rec.ctl.aborted:
        return
    lk = getattr(_TLS, "ylock", None)
    if lk is None:
        lk = _TLS.ylock = CoopRLock()
    lk.acquire()
    lk.release()


@contextmanager
def preemptible(pred, lines=False):
    """inside a controlled thread: every Python function CALL (and, with lines=True, every source line) executed in
    a code object whose file name satisfies `pred` becomes a scheduling point (sys.settrace of this thread only).
    This exposes interleavings BELOW the lock level, e.g. two readers inside the same read section."""
    import sys

    def tracer(frame, event, arg):
        if not pred(frame.f_code.co_filename):
            return None
        if event == "call":
            yield_point()
            return tracer if lines else None
        if event == "line" and lines:
            yield_point()
        return tracer

    old = sys.gettrace()
    sys.settrace(tracer)
    try:
        yield
    finally:
        sys.settrace(old)


def one_preemption_schedules(run_once, n_threads=2, max_k=400):
    """all schedules of the form: thread a runs k steps, then the others run to completion in tid order, then a
    finishes - for every a and every k up to a's own length.  Yields (a, k, RunResult)."""
    for a in range(n_threads):
        k = 0
        while k <= max_k:
            def choose(ctl, en, a=a, k=k):
                own = sum(1 for t in ctl.schedule if t == a)
                if own < k and a in en:
                    return a
                others = [t for t in en if t != a]
                return others[0] if others else a
            res = run_once(choose)
            yield a, k, res
            if sum(1 for t in res.schedule if t == a) < k:      # a finished before using k steps: no longer schedules
                break
            k += 1


@contextmanager
def patched(module=None, rlock=CoopRLock, condition=CoopCondition):
    """replace module.RLock / module.Condition by the cooperative doubles; restore on exit"""
    if module is None:
        import casbin.util.rwlock as module
    saved = {n: getattr(module, n) for n in ("RLock", "Condition") if hasattr(module, n)}
    try:
        if "RLock" in saved:
            module.RLock = rlock
        if "Condition" in saved:
            module.Condition = condition
        yield module
    finally:
        for n, v in saved.items():
            setattr(module, n, v)


@contextmanager
def pinned_cpu():
    """pin the process to ONE cpu while exploring: thread hand-overs on a single core are ~5x faster than
    cross-core futex wake-ups; the previous affinity is restored on exit (child processes inherit it!)"""
    import os
    old = None
    try:
        old = os.sched_getaffinity(0)
        cpus = sorted(old)
        os.sched_setaffinity(0, {cpus[os.getpid() % len(cpus)]})
    except (AttributeError, OSError):
        old = None
    try:
        yield
    finally:
        if old is not None:
            try:
                os.sched_setaffinity(0, old)
            except OSError:
                pass


class RunResult:
    """result of one run; callers may attach their own attributes (event logs, ...)"""

    def __init__(self):
        self.status, self.schedule, self.enabled, self.obs, self.errors = "ok", [], [], [], []
        self.final_enabled = []


class Controller:
    def __init__(self, step_timeout=20.0):
        self.step_timeout = step_timeout
        self.recs = []
        self.aborted = False
        self.schedule = []
        self._yielded = _Signal()
        self.thread_names = None      # optional: names given to the worker threads (default: Python's Thread-N)

    # ---- worker side
    def _park(self, rec, state, why, lock):
        if self.aborted:                    # the run is being torn down: a thread unwinding through nested sections must not
            raise Abort()                   # wait for a grant that will never come
        rec.state, rec.why, rec.lock = state, why, lock
        self._yielded.set()
        if not rec.go.wait(self.step_timeout * 4):
            self.aborted = True
        if self.aborted:
            raise Abort()

    def _worker(self, rec, body):
        _TLS.rec = rec
        try:
            if not rec.go.wait(self.step_timeout * 4) or self.aborted:
                return
            body(rec.tid)
        except Abort:
            pass
        except BaseException as e:  # noqa: BLE001 - reported through RunResult.errors
            rec.exc = e
        finally:
            rec.state = "done"
            self._yielded.set()

    # ---- controller side
    def state(self, tid):
        return self.recs[tid].state

    def why(self, tid):
        return self.recs[tid].why

    def enabled(self):
        return [r.tid for r in self.recs if r.state == "want" and r.lock is not None and r.lock._owner is None]

    def all_done(self):
        return all(r.state == "done" for r in self.recs)

    def _resume(self, rec):
        """let rec run until its next park / its end; False on timeout"""
        rec.go.set()
        return self._yielded.wait(self.step_timeout)

    def run(self, bodies, choose, observe=None, max_steps=100000):
        res = RunResult()
        self.recs = [_Rec(i, self) for i in range(len(bodies))]
        for rec, body in zip(self.recs, bodies):
            rec.thread = threading.Thread(target=self._worker, args=(rec, body), daemon=True)
            if self.thread_names is not None:
                rec.thread.name = self.thread_names[rec.tid % len(self.thread_names)]
            rec.thread.start()
        try:
            for rec in self.recs:                      # run everybody up to its first park, one at a time
                rec.state = "run"
                if not self._resume(rec):
                    res.status = "hang"
                    return res
            if observe:
                res.obs.append(observe(self))
            while True:
                en = self.enabled()
                if not en:
                    res.status = "ok" if self.all_done() else "deadlock"
                    break
                if len(self.schedule) >= max_steps:
                    res.status = "hang"
                    break
                tid = choose(self, en)
                if tid is None:
                    res.status = "stopped"
                    res.final_enabled = en
                    break
                if tid not in en:
                    res.status = "bad-choice"
                    res.final_enabled = en
                    break
                res.enabled.append(en)
                self.schedule.append(tid)
                rec = self.recs[tid]
                rec.lock._owner, rec.lock._depth = rec, rec.depth     # grant the mutex
                rec.state = "run"
                if not self._resume(rec):
                    res.status = "hang"
                    break
                if observe:
                    res.obs.append(observe(self))
            return res
        finally:
            res.schedule = list(self.schedule)
            self._finish(res)

    def _finish(self, res):
        if not self.all_done():
            self.aborted = True
            for rec in self.recs:
                if rec.state != "done":
                    rec.go.set()
        deadline = time.time() + self.step_timeout
        for rec in self.recs:
            rec.thread.join(max(0.0, deadline - time.time()))
            if rec.thread.is_alive() and res.status not in ("hang",):
                res.status = "hang"
            if rec.exc is not None:
                res.errors.append((rec.tid, repr(rec.exc)))
        if res.errors and res.status in ("ok", "deadlock", "stopped"):
            res.status = "error"


class ExploreStats:
    def __init__(self):
        self.runs = 0
        self.steps = 0
        self.states = 0
        self.complete = True       # False if a budget cut the enumeration short
        self.by_status = {}


def follow(prefix, then=None):
    """chooser: follow `prefix` (list of tids), afterwards `then(ctl, en)` (default: lowest enabled tid)"""
    def choose(ctl, en):
        j = len(ctl.schedule)
        if j < len(prefix):
            return prefix[j]
        return then(ctl, en) if then else en[0]
    return choose


def replay(run_once, schedule, stop_at_end=True):
    """re-run exactly `schedule`; stops after it (status 'stopped') unless the run ended by itself"""
    return run_once(follow(list(schedule), then=(lambda ctl, en: None) if stop_at_end else None))


def explore(run_once, key=None, max_runs=None, deadline=None, on_run=None, order=None):
    """depth-first enumeration of schedules (see module docstring).
    order(en) -> permutation of en (which alternative to try first), default identity."""
    st = ExploreStats()
    visited = set()
    stack = [[]]
    while stack:
        if (max_runs is not None and st.runs >= max_runs) or (deadline is not None and time.time() > deadline):
            st.complete = False
            break
        prefix = stack.pop()

        def choose(ctl, en, prefix=prefix):
            j = len(ctl.schedule)
            if j < len(prefix):
                return prefix[j]
            if key is not None:
                k = key(ctl)
                if k in visited:
                    return None
                visited.add(k)
            alts = order(en) if order else en
            for alt in alts[1:]:
                stack.append(ctl.schedule + [alt])
            return alts[0]

        res = run_once(choose)
        res.forced = len(prefix)        # the first `forced` choices replayed a prefix already seen in an earlier run
        st.runs += 1
        st.steps += len(res.schedule)
        st.by_status[res.status] = st.by_status.get(res.status, 0) + 1
        if on_run:
            if on_run(res) is False:
                st.complete = False
                break
    st.states = len(visited)
    return st
