#!/usr/bin/env python3
"""C18 self-validation gate (DESIGN.md §12): mutants that must be caught, harmless rewrites that must
pass, translator fail-closed cases.  Everything happens in a scratch copy of the repository that is
removed afterwards; /repo is never touched.

    /venv/bin/python harness/selftest/c18_mutants.py            # all
    /venv/bin/python harness/selftest/c18_mutants.py M2 H1      # those whose name starts with M2 / H1

For each mutation: copy /repo, apply fixes/C18-*.diff that are not yet in /repo, apply the mutation,
run `VERIF_REPO=<copy> ./check C18`.  M* / T* must exit 1 (T*: `no-failing-input-found`), and an
M* replay must fail on the mutant and pass on the repaired copy; H* must exit 0.
Measured on 2026-09-26 (repo c54ee53 + the four C18 fixes): M1-M14 caught with 1-2 call replays,
T1-T2 rejected by the translator, H1-H6 pass.  M1-M5, M8, M10, M11, M13 also pass the repository's
own 294 tests (so only this check sees them); M6, M7, M9, M12 are caught by the repository's tests too.
"""
import os, re, shutil, subprocess, sys, tempfile

ROOT = os.path.dirname(os.path.dirname(os.path.dirname(os.path.abspath(__file__))))
repo = None          # set per mutation (the scratch copy)
name = None


def sub(rel, old, new, count=1):
    p = f"{repo}/casbin/{rel}"
    s = open(p).read()
    assert s.count(old) >= 1, (name, rel, "pattern not found")
    if count == 1:
        assert s.count(old) == 1, (name, rel, "pattern ambiguous", s.count(old))
    s = s.replace(old, new)
    open(p, "w").write(s)


AI, AM, AE = "async_internal_enforcer.py", "async_management_enforcer.py", "async_enforcer.py"
SI, SM, SE = "internal_enforcer.py", "management_enforcer.py", "enforcer.py"
M = {}
def m(f): M[f.__name__] = f; return f

@m
def M1_drop_awaited_adapter_call():
    sub(AI, '''            result = await self.adapter.add_policy(sec, ptype, rule)
            if result is False:
                return False
''', '')
@m
def M2_change_index():
    sub(AE, "res1 = await self.remove_filtered_grouping_policy(1, role)", "res1 = await self.remove_filtered_grouping_policy(0, role)")
@m
def M3_swap_arguments():
    sub(AM, 'return await self._update_policy("p", ptype, old_rule, new_rule)', 'return await self._update_policy("p", ptype, new_rule, old_rule)')
@m
def M4_drop_watcher_call():
    sub(AI, '''                    else:
                        update_for_remove_policy(sec, ptype, rule)
                else:
                    self.watcher.update()
''', '''                    else:
                        update_for_remove_policy(sec, ptype, rule)
                else:
                    pass
''')
@m
def M5_change_return_value():
    sub(AE, "return any(r == role for r in roles)", "return all(r == role for r in roles)")
@m
def M6_drop_await_on_self_call():
    sub(AM, 'return await self.add_named_policies("p", rules)', 'return self.add_named_policies("p", rules)')
@m
def M7_coroutine_callback_not_awaited():
    sub(AI, "                        await update_for_add_policies(sec, ptype, rules)", "                        update_for_add_policies(sec, ptype, rules)")
@m
def M8_wrong_flag_tested():
    sub(AI, '''        if self.adapter and self.auto_save:
            result = await self.adapter.update_policy(sec, ptype, old_rule, new_rule)''', '''        if self.adapter:
            result = await self.adapter.update_policy(sec, ptype, old_rule, new_rule)''')
@m
def M9_sync_side_mutated():
    sub(SE, "return self.remove_filtered_policy(1, *permission)", "return self.remove_filtered_policy(0, *permission)")
@m
def M10_dispatch_branches_differ():
    # the two branches of the coroutine dispatch pass different arguments
    sub(AI, '''                        await update_for_remove_policies(sec, ptype, rules)
                    else:
                        update_for_remove_policies(sec, ptype, rules)''', '''                        await update_for_remove_policies(sec, ptype, rules)
                    else:
                        update_for_remove_policies(sec, ptype, [])''')
@m
def M11_save_policy_skips_filtered_check():
    sub(AI, '''        if self.is_filtered():
            raise RuntimeError("cannot save a filtered policy")

        await self.adapter.save_policy(self.model)''', '''        await self.adapter.save_policy(self.model)''')
@m
def M12_getattr_wrong_name():
    sub(AI, 'update_for_add_policy = getattr(self.watcher, "update_for_add_policy", None)', 'update_for_add_policy = getattr(self.watcher, "update_for_add_policies", None)')
@m
def M13_dispatch_branches_swapped():
    sub(AI, """                    if inspect.iscoroutinefunction(update_for_remove_filtered_policy):
                        await update_for_remove_filtered_policy(sec, ptype, field_index, *field_values)
                    else:
                        update_for_remove_filtered_policy(sec, ptype, field_index, *field_values)""", """                    if inspect.iscoroutinefunction(update_for_remove_filtered_policy):
                        update_for_remove_filtered_policy(sec, ptype, field_index, *field_values)
                    else:
                        await update_for_remove_filtered_policy(sec, ptype, field_index, *field_values)""", count=0)
@m
def T1_unsupported_syntax_both():
    for f, aw in ((AE, "await "), (SE, "")):
        sub(f, "        return %sself.remove_filtered_policy(1, *permission)" % aw, """        match permission:
            case _:
                return %sself.remove_filtered_policy(1, *permission)""" % aw)
@m
def T2_syntax_error():
    sub(AE, "    async def delete_user(self, user):", "    async def delete_user(self, user:")
@m
def M14_temporary_used_later():
    # the awaited result is also used AFTER the statement pair R1 looks at; the sync twin is edited so that
    # the canonical trees would be equal if R1 ignored the later use (they mean different things)
    import re
    for f, aw in ((AI, "await "), (SI, "")):
        p = f"{repo}/casbin/{f}"; t = open(p).read()
        a = t.index("def _update_policy(")
        b = t.index("def _update_policies(")
        body = t[a:b]
        assert body.count("        return rule_updated\n") == 2 or body.count("        return rule_updated\n") == 1, body.count("        return rule_updated\n")
        k = body.rindex("        return rule_updated\n")
        body = body[:k] + "        return rule_updated and result\n" + body[k + len("        return rule_updated\n"):]
        body = body.replace("        rule_updated = self.model.update_policy(sec, ptype, old_rule, new_rule)\n",
                            "        rule_updated = self.model.update_policy(sec, ptype, old_rule, new_rule)\n        result = True\n", 1)
        open(p, "w").write(t[:a] + body + t[b:])
# harmless rewrites (applied to BOTH twins, or invisible)
@m
def H1_rename_local_both():
    for f in (AI, SI):
        p = f"{repo}/casbin/{f}"; s = open(p).read()
        assert "rule_added" in s
        s = s.replace("rule_added", "was_added"); open(p, "w").write(s)
@m
def H2_reformat_and_comments_both():
    sub(AE, '''        res1 = await self.remove_filtered_grouping_policy(0, user)

        res2 = await self.remove_filtered_policy(0, user)
        return res1 or res2''', '''        # first the role links, then the permissions
        res1 = await self.remove_filtered_grouping_policy(
            0,
            user,
        )
        res2 = await self.remove_filtered_policy(0, user)
        return (res1 or res2)''')
    sub(SE, '''        res1 = self.remove_filtered_grouping_policy(0, user)

        res2 = self.remove_filtered_policy(0, user)
        return res1 or res2''', '''        res1 = self.remove_filtered_grouping_policy(0, user)  # role links first
        res2 = self.remove_filtered_policy(
            0, user
        )
        return res1 or res2''')
@m
def H3_split_statement_both():
    sub(AE, '''        return await self.remove_filtered_policy(1, *permission)''', '''        removed = await self.remove_filtered_policy(1, *permission)
        return removed''')
    sub(SE, '''        return self.remove_filtered_policy(1, *permission)''', '''        removed = self.remove_filtered_policy(1, *permission)
        return removed''')
@m
def H4_docstring_one_side():
    sub(AE, '"""gets the roles that a user has."""', '"""async: gets the roles that a user has (direct roles only)."""')
@m
def H5_reorder_independent_statements_both():
    sub(AE, '''        res = []
        queue = [name]
''', '''        queue = [name]
        res = []
''')
    sub(SE, '''        res = []
        queue = [name]
''', '''        queue = [name]
        res = []
''')
@m
def H6_async_temp_in_sync_style():
    # the async twin written WITHOUT the temporary (exactly like the sync one, plus await)
    sub(AI, '''            result = await self.adapter.remove_policy(sec, ptype, rule)
            if result is False:
                return False''', '''            if await self.adapter.remove_policy(sec, ptype, rule) is False:
                return False''')


def make_copy(dst):
    shutil.copytree("/repo", dst)
    for f in sorted(os.listdir(f"{ROOT}/fixes")):
        if f.startswith("C18-") and f.endswith(".diff"):
            p = f"{ROOT}/fixes/{f}"
            if subprocess.run(["git", "apply", "--check", p], cwd=dst, capture_output=True).returncode == 0:
                subprocess.run(["git", "apply", p], cwd=dst, check=True)


def check(copy, *args):
    env = dict(os.environ, VERIF_REPO=copy)
    p = subprocess.run([f"{ROOT}/check", "C18", *args], env=env, capture_output=True, text=True)
    return p.returncode, p.stdout


def main():
    global repo, name
    want = sys.argv[1:]
    tmp = tempfile.mkdtemp(prefix="c18_selftest_")
    good = f"{tmp}/repaired"
    make_copy(good)
    bad = 0
    try:
        for nm, fn in M.items():
            if want and not any(nm.startswith(w) for w in want):
                continue
            name, repo = nm, f"{tmp}/mut"
            shutil.rmtree(repo, ignore_errors=True)
            make_copy(repo)
            fn()
            rc, out = check(repo)
            verdict = [l for l in out.splitlines() if l.startswith(("OK", "VIOLATION"))][-1:] or ["(no verdict line)"]
            ok = (rc == 0) if nm.startswith("H") else (rc == 1)
            if nm.startswith("T"):
                ok = ok and "no-failing-input-found" in verdict[0]
            if nm.startswith("M") and ok:
                m = re.search(r"replay=(\S+)", verdict[0])
                ok = bool(m) and "no-failing-input-found" not in verdict[0]
                if ok:
                    ok = check(repo, "--replay", m.group(1))[0] == 1 and check(good, "--replay", m.group(1))[0] == 0
            print(f"{'pass' if ok else 'FAIL'}  {nm}: exit={rc} {verdict[0][:110]}", flush=True)
            bad += 0 if ok else 1
    finally:
        shutil.rmtree(tmp, ignore_errors=True)
    sys.exit(1 if bad else 0)


if __name__ == "__main__":
    main()
