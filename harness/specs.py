"""SPEC predicates evaluated directly on the IMPLEMENTATION's observations of a management history
(never on the model's).  Each checker returns a list of (step_index, message[, tag]) violations.
Atoms as in harness/mgmt.py (0 = "").  The Coq counterparts are the theorems named in comments."""
from .mgmt import _fmatch as _fm_str

OBS_P, OBS_G, OBS_G2 = 3, 4, 5
STORE_IDX = {0: OBS_P, 1: OBS_G, 2: OBS_G2}


def fmatch(rule, i, vs):
    for j, v in enumerate(vs):
        if v == 0:
            continue
        if i + j >= len(rule):
            return None
        if rule[i + j] != v:
            return False
    return True


def nodup(l):
    seen = []
    for r in l:
        if r in seen:
            return False
        seen.append(r)
    return True


def without(l, rs):
    return [r for r in l if r not in rs]


def desugar(kind, op):
    """RBAC-API wrappers as the base management calls they stand for (enforcer.py:48-127, 240-264)"""
    c = op[0]
    if c == 10:
        return ([(5, 1, 0, [op[1]])] if kind.g else []) + [(5, 0, 0, [op[1]])]
    if c == 11:
        return ([(5, 1, 1, [op[1]])] if kind.g else []) + [(5, 0, 0, [op[1]])]
    if c == 12:
        return [(5, 0, 1, list(op[1]))]
    if c == 13:
        return [(1, 0, [op[1]] + list(op[2]))]
    if c == 14:
        return [(3, 0, [op[1]] + list(op[2]))]
    if c == 15:
        return [(5, 0, 0, [op[1]])]
    if c == 16:
        return [(1, 1, [op[1], op[2]])]
    if c == 17:
        return [(3, 1, [op[1], op[2]])]
    if c == 18:
        return [(5, 1, 0, [op[1]])]
    if c == 19:
        return [(1, 1, [op[1], op[2], op[3]])]
    if c == 20:
        return [(5, 1, 0, [op[1], op[2], op[3]])]
    return [op]


def truthy(res):
    if res[0] != 0:
        return None
    v = res[1]
    if isinstance(v, list):
        return len(v) > 0
    return bool(v)


def ordered_set_step(kind, op, before, after, res, prio_on=False):
    """C06: one base op on the stores {pt: rules}; returns list of messages.
    before/after: dict pt -> list of rules.  (PolicyProofs.v: add_policy_spec, remove_policy_spec,
    add_policies_spec, remove_policies_spec, get_filtered_exact, split_filtered_spec, update_policy_spec)"""
    msgs = []
    c = op[0]
    for pt in (0, 1, 2):
        if not nodup(after[pt]):
            msgs.append(f"stored rules of type {pt} contain a duplicate: {after[pt]}")
    if res[0] != 0:
        # an exception: the property's set semantics only demand that nothing half-applied remains for the
        # operations it covers; filtered forms with an out-of-range filter are outside it
        if c in (1, 2, 3, 4, 6, 7) and res[1] not in (4,):   # priority mismatch is a documented refusal
            pass
        for pt in (0, 1, 2):
            if c in (1, 2, 3, 4, 5, 6, 7) and after[pt] != before[pt] and not (c in (1, 2) and pt != 0):
                msgs.append(f"call raised (code {res[1]}) but the stored rules of type {pt} changed")
        return msgs
    ok = truthy(res)
    if c in (1, 2, 3, 4, 5):
        pt = op[1]
        b, a = before[pt], after[pt]
        others_same = all(after[q] == before[q] for q in (0, 1, 2) if q != pt)
        if not others_same:
            msgs.append("a call on one policy type changed another policy type")
        ordered = prio_on and pt == 0
        if c == 1:
            r = op[2]
            if ok != (r not in b):
                msgs.append(f"add returned {ok} although the rule was {'absent' if r not in b else 'present'}")
            if ok:
                if a.count(r) != 1:
                    msgs.append("after a successful add the rule is not present exactly once")
                if without(a, [r]) != b:
                    msgs.append("a successful add disturbed the other rules or their order")
                if not ordered and a != b + [r]:
                    msgs.append("a successful add did not append the rule")
            elif a != b:
                msgs.append("a rejected add changed the stored rules")
        elif c == 2:
            rs = op[2]
            if ok:
                if any(r in b for r in rs):
                    msgs.append("batch add reported success although one of its rules was already present")
                if any(a.count(r) != 1 for r in rs):
                    msgs.append("after a successful batch add some rule of the batch is not present exactly once")
                if without(a, rs) != b:
                    msgs.append("a successful batch add disturbed the other rules or their order")
                if not ordered and nodup(rs) and a != b + rs:
                    msgs.append("a successful batch add did not append its rules in order")
            else:
                if a != b:
                    msgs.append("a rejected batch add changed the stored rules (not all-or-nothing)")
                if rs and all(r not in b for r in rs) and nodup(rs):
                    msgs.append("batch add of absent, distinct rules was rejected")
        elif c == 3:
            r = op[2]
            if ok != (r in b):
                msgs.append(f"remove returned {ok} although the rule was {'present' if r in b else 'absent'}")
            if a != without(b, [r]):
                msgs.append("remove did not leave exactly the other rules in order")
        elif c == 4:
            rs = op[2]
            if ok:
                if any(r not in b for r in rs):
                    msgs.append("batch remove reported success although one of its rules was absent")
                if a != without(b, rs):
                    msgs.append("a successful batch remove did not remove exactly its rules")
            else:
                if a != b:
                    msgs.append("a rejected batch remove changed the stored rules (not all-or-nothing)")
                if rs and all(r in b for r in rs) and nodup(rs):
                    msgs.append("batch remove of present, distinct rules was rejected")
        elif c == 5:
            i, vs = op[2], op[3]
            ms = [fmatch(r, i, vs) for r in b]
            if None in ms:
                return msgs   # filter reaches past a rule: outside the property (the code raises IndexError)
            sel = [r for r, m in zip(b, ms) if m]
            if pt != 0 and len(vs) == 0:
                sel = []      # remove_filtered_grouping_policy with no values is a documented no-op ([])
            if a != without(b, sel):
                msgs.append("filtered remove did not remove exactly the rules selected by the filter")
            if ok != (len(sel) > 0):
                msgs.append(f"filtered remove returned {res[1]} although {len(sel)} rules matched")
            if isinstance(res[1], list) and res[1] != sel:
                msgs.append("filtered remove did not return exactly the removed rules")
    elif c == 6:
        o, n = op[1], op[2]
        b, a = before[0], after[0]
        if o in b and n not in b:
            if not ok:
                msgs.append("update of a present rule to an absent one was rejected")
            elif a != [n if r == o else r for r in b]:
                msgs.append("update did not replace the rule in place")
        elif not ok and a != b:
            msgs.append("a rejected update changed the stored rules")
        elif ok and sorted(a) != sorted([n if r == o else r for r in b]) and o in b:
            msgs.append("an accepted update changed more than the updated rule")
        if after[1] != before[1] or after[2] != before[2]:
            msgs.append("update_policy changed the role assignments")
    elif c == 7:
        os_, ns = op[1], op[2]
        b, a = before[0], after[0]
        clean = len(os_) == len(ns) and nodup(os_) and nodup(ns) and all(o in b for o in os_) and \
            all(n not in b for n in ns)
        if clean:
            if not ok:
                msgs.append("batch update of present, distinct rules to absent, distinct rules was rejected")
            else:
                m = dict((tuple(o), n) for o, n in zip(os_, ns))
                if a != [m.get(tuple(r), r) for r in b]:
                    msgs.append("batch update did not replace each rule in place")
        elif not ok and a != b:
            msgs.append("a rejected batch update changed the stored rules (not all-or-nothing)")
    elif c == 52:
        if res[1] != before[op[1]]:
            msgs.append("get_policy differs from the stored rules")
    elif c == 54:
        if ok != (op[2] in before[op[1]]):
            msgs.append("has_policy disagrees with the stored rules")
    elif c == 53:
        pt, i, vs = op[1], op[2], op[3]
        ms = [fmatch(r, i, vs) for r in before[pt]]
        if None not in ms and res[1] != [r for r, m in zip(before[pt], ms) if m]:
            msgs.append("get_filtered_policy is not exactly the rules whose fields equal every non-empty filter value")
    return msgs


def stores(obs):
    return {0: obs[OBS_P], 1: obs[OBS_G], 2: obs[OBS_G2]}


def abs_base(op, st):
    """abstract ordered-set semantics of the fully determined base ops (add / remove / filtered remove)"""
    st = {k: list(v) for k, v in st.items()}
    c, pt = op[0], op[1]
    if c == 1:
        if op[2] in st[pt]:
            return st, False
        st[pt].append(op[2])
        return st, True
    if c == 3:
        if op[2] not in st[pt]:
            return st, False
        st[pt] = without(st[pt], [op[2]])
        return st, True
    if c == 5:
        i, vs = op[2], op[3]
        ms = [fmatch(r, i, vs) for r in st[pt]]
        if None in ms:
            return None, None
        sel = [r for r, m in zip(st[pt], ms) if m]
        if pt != 0 and len(vs) == 0:
            sel = []
        st[pt] = without(st[pt], sel)
        return st, len(sel) > 0
    raise ValueError(op)


def ordered_set_history(kind, rows, ops, obs, initial, prio_on=False):
    """C06 over a whole history. initial = stores before the first op."""
    out = []
    cur = initial
    for i, (op, o) in enumerate(zip(ops, obs)):
        after = stores(o)
        res = o[0]
        c = op[0]
        if 10 <= c <= 20:
            st, oks = cur, []
            for b in desugar(kind, op):
                st, ok = abs_base(b, st)
                if st is None:
                    break
                oks.append(ok)
            if st is not None and res[0] == 0:
                if prio_on:
                    if any(sorted(after[q]) != sorted(st[q]) for q in (0, 1, 2)):
                        out.append((i, "RBAC-API wrapper did not leave exactly the rules its base calls leave"))
                elif after != st:
                    out.append((i, "RBAC-API wrapper did not leave exactly the rules its base calls leave"))
                if truthy(res) != any(oks):
                    out.append((i, f"RBAC-API wrapper returned {res[1]} but its base calls {'changed' if any(oks) else 'did not change'} the policy"))
            for pt in (0, 1, 2):
                if not nodup(after[pt]):
                    out.append((i, "stored rules contain a duplicate"))
        elif c < 50 and c not in (1, 2, 3, 4, 5, 6, 7):
            pass
        else:
            for m in ordered_set_step(kind, op, cur, after, res, prio_on):
                out.append((i, m))
        cur = after
    return out
