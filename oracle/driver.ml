(* Generic oracle driver. One request per line:  <tag> <val>
   val ::= <decimal> | '(' val* ')'        reply: one val per line.
   Everything property-specific (decoding, dispatch, encoding) is Gallina, extracted in oracle.ml. *)
open Oracle

let rec pos_of_int i =
  if i = 1 then XH
  else if i land 1 = 0 then XO (pos_of_int (i lsr 1))
  else XI (pos_of_int (i lsr 1))
let n_of_int i = if i = 0 then N0 else Npos (pos_of_int i)
let rec int_of_pos = function
  | XH -> 1
  | XO p -> 2 * int_of_pos p
  | XI p -> 2 * int_of_pos p + 1
let int_of_n = function N0 -> 0 | Npos p -> int_of_pos p

(* tokenizer / parser *)
let parse (s : string) (start : int) : Oracle.val0 =
  let pos = ref start in
  let len = String.length s in
  let rec skip () = if !pos < len && s.[!pos] = ' ' then (incr pos; skip ()) in
  let rec value () =
    skip ();
    if !pos >= len then failwith "eol"
    else if s.[!pos] = '(' then begin
      incr pos;
      let items = ref [] in
      let rec loop () =
        skip ();
        if !pos >= len then failwith "unclosed"
        else if s.[!pos] = ')' then incr pos
        else (items := value () :: !items; loop ())
      in
      loop (); VL (List.rev !items)
    end else begin
      let b = !pos in
      while !pos < len && s.[!pos] >= '0' && s.[!pos] <= '9' do incr pos done;
      if !pos = b then failwith "digit expected";
      VN (n_of_int (int_of_string (String.sub s b (!pos - b))))
    end
  in
  value ()

let rec print buf = function
  | VN n -> Buffer.add_string buf (string_of_int (int_of_n n))
  | VL l ->
      Buffer.add_char buf '(';
      List.iteri (fun i v -> if i > 0 then Buffer.add_char buf ' '; print buf v) l;
      Buffer.add_char buf ')'

let () =
  let buf = Buffer.create 65536 in
  try
    while true do
      let line = input_line stdin in
      Buffer.clear buf;
      (try
         let sp = String.index line ' ' in
         let tag = int_of_string (String.sub line 0 sp) in
         let v = parse line sp in
         print buf (oracle (n_of_int tag) v)
       with
       | Stack_overflow -> Buffer.clear buf; Buffer.add_string buf "!stackoverflow"
       | e -> Buffer.clear buf; Buffer.add_string buf ("!" ^ Printexc.to_string e));
      print_endline (Buffer.contents buf)
    done
  with End_of_file -> ()
