#!/bin/bash
# setup_cmd: offline build of the whole Coq development (full .vo), all oracles.
# Individual checks rebuild what they need on every run, so a failure here is reported but is not fatal.
cd "$(dirname "$0")" || exit 2
export PYTHONPATH="/repo:$(pwd)" PYTHONHASHSEED=0 PYTHONDONTWRITEBYTECODE=1
mkdir -p build evidence replays coq/gen
for t in translators/*.py; do
  /venv/bin/python "$t" /repo || echo "setup: translator $t failed (the check that needs it will report)"
done
tools/coqbuild -k 2>&1 | grep -v "^Warning" | tail -40
/venv/bin/python - <<'PY'
import sys, glob, os
sys.path.insert(0, os.getcwd())
from harness.core import build_oracle
for f in sorted(glob.glob("coq/extract/Extract*.v")):
    prop = os.path.basename(f)[len("Extract"):-2]
    path, log = build_oracle(prop)
    print("oracle", prop, path, (log or "")[:300])
PY
exit 0
