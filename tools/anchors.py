#!/usr/bin/env python3
"""tools/anchors.py [--update]
anchors.json records, for every Python file of the casbin package in /repo, a hash of its AST (docstrings and
formatting ignored) at the state the checks were last validated against.  Every check compares the working tree
with it (harness/core.py): a difference is NOT a violation, it means "the code was edited here", and the check then
spends its escalation budget on the correspondence even in the quick tier.  Run with --update after every commit to
/repo (fix: commits)."""
import ast
import hashlib
import json
import subprocess
import sys
from pathlib import Path

ROOT = Path(__file__).resolve().parent.parent


def file_hash(path):
    try:
        tree = ast.parse(Path(path).read_text(encoding="utf-8"))
    except Exception as ex:  # noqa
        return "unparsable:" + type(ex).__name__
    for node in ast.walk(tree):
        if isinstance(node, (ast.FunctionDef, ast.AsyncFunctionDef, ast.ClassDef, ast.Module)):
            b = node.body
            if b and isinstance(b[0], ast.Expr) and isinstance(getattr(b[0], "value", None), ast.Constant) and isinstance(b[0].value.value, str):
                node.body = b[1:] or [ast.Pass()]
    return hashlib.sha1(ast.dump(tree, include_attributes=False).encode()).hexdigest()


def snapshot(repo):
    repo = Path(repo)
    return {str(p.relative_to(repo)): file_hash(p) for p in sorted((repo / "casbin").rglob("*.py"))}


def changed(repo):
    f = ROOT / "anchors.json"
    if not f.exists():
        return None
    rec = json.loads(f.read_text())["files"]
    cur = snapshot(repo)
    return sorted(k for k in set(rec) | set(cur) if rec.get(k) != cur.get(k))


if __name__ == "__main__":
    import os
    if os.path.realpath(sys.executable) != os.path.realpath("/venv/bin/python") and os.path.exists("/venv/bin/python"):
        os.execv("/venv/bin/python", ["/venv/bin/python"] + sys.argv)     # ast.dump differs between Python versions
    if "--update" in sys.argv:
        head = subprocess.run(["git", "-C", "/repo", "rev-parse", "--short", "HEAD"], capture_output=True, text=True).stdout.strip()
        (ROOT / "anchors.json").write_text(json.dumps(dict(repo_head=head, files=snapshot("/repo")), indent=1) + "\n")
        print("anchors.json updated at", head)
    else:
        print(changed(sys.argv[1] if len(sys.argv) > 1 else "/repo"))
