#!/usr/bin/env python3
"""known_findings.jsonl is the single committed list of known / fixed findings (never written at run time by a
check).  Each property's builder keeps its lines in findings.d/<Cxx>.jsonl; this tool merges them (by id; the
findings.d line wins, being the newer one) into known_findings.jsonl.  Run by hand: python3 tools/merge_findings.py"""
import json
from pathlib import Path

ROOT = Path(__file__).resolve().parent.parent
order, recs = [], {}
for f in [ROOT / "known_findings.jsonl"] + sorted((ROOT / "findings.d").glob("*.jsonl")):
    for line in f.read_text().splitlines():
        line = line.strip()
        if not line or line.startswith("#"):
            continue
        r = json.loads(line)
        if r["id"] not in recs:
            order.append(r["id"])
        recs[r["id"]] = r
order.sort(key=lambda i: (recs[i]["property"], 0 if recs[i].get("status") == "known" else 1))
(ROOT / "known_findings.jsonl").write_text("".join(json.dumps(recs[i], ensure_ascii=False) + "\n" for i in order))
n_known = sum(1 for r in recs.values() if r.get("status") == "known")
print(f"known_findings.jsonl: {len(recs)} entries ({n_known} known, {len(recs) - n_known} fixed)")
for i in order:
    r = recs[i]
    print(f"  {r['property']} {r.get('status'):5} {r.get('commit') or '-':8} {i}")
