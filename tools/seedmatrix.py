#!/usr/bin/env python3
"""tools/seedmatrix.py [-j N] [ids...]
Run every seeded change in seeded/<id>/ (default: all) against its own property's quick check and against the other
checks that are known to see it (EXTRA below), each in a scratch git worktree of /repo (tools/seedtest.py), and write
seeded/<id>/meta.json: which property it breaks, what it needs in order to manifest (from note.txt), what was run and
what each run reported.  seeded/SUMMARY.md is rewritten from all meta.json files."""
import json
import subprocess
import sys
import time
from concurrent.futures import ThreadPoolExecutor
from pathlib import Path

ROOT = Path(__file__).resolve().parent.parent
SEEDED = ROOT / "seeded"

# other checks that catch a change (found by cross-running; the change's own property is always run)
EXTRA = {
    "C01-m3": ["C02"], "C02-m1": ["C04"], "C03-m2": ["C11"], "C04-m1": ["C14"], "C04-m2": ["C11"], "C06-m2": ["C07"],
    "C06-m3": ["C07"], "C09-m3": ["C18"], "C11-m2": ["C18"], "C15-m1": ["C03", "C04"], "C15-m2": ["C11", "C04"],
    "C18-m2": ["C11"], "C18-m3": ["C10"], "C20-m3": ["C18"],
    # second wave
    "C03-m4": ["C11"], "C06-m4": ["C18", "C09"], "C06-m6": ["C07"], "C07-m6": ["C12"], "C13-m6": ["C02"],
    "C05-m6": ["C06", "C09", "C07"], "C08-m5": ["C17"], "C08-m6": ["C04"], "C11-m5": ["C19"], "C15-m4": ["C04"],
    "C15-m5": ["C04", "C03"], "C15-m6": ["C03"], "C20-m6": ["C18"],
    # third wave
    "C01-m8": ["C19"], "C02-m7": ["C05"], "C02-m9": ["C01", "C17"], "C03-m7": ["C04"], "C03-m8": ["C04"], "C03-m9": ["C04"],
    "C05-m7": ["C19"], "C05-m8": ["C15"], "C05-m9": ["C11"], "C08-m7": ["C19"], "C08-m8": ["C02"], "C09-m8": ["C19"],
    "C10-m9": ["C07"], "C11-m8": ["C18"], "C11-m9": ["C04"], "C14-m9": ["C11"], "C20-m7": ["C18"], "C15-m8": ["C04"],
    # sixth wave: changes filed under C03 whose trigger is a (domain) matching function - C14's sentence, not C03's
    "C03-m16": ["C14", "C04"], "C03-m18": ["C14"],
}
# changes that no longer apply to /repo because the defect they relied on was repaired in the meantime
SUPERSEDED = {
    "C07-m6": "relied on load_increment_filtered_policy not sorting, which turned out to be a genuine defect and was "
              "repaired (/repo 8566c11); with the repair the change is harmless and its patch no longer applies",
}


def run_one(mid):
    d = SEEDED / mid
    prop = mid.split("-")[0]
    props = [prop] + [p for p in EXTRA.get(mid, []) if p != prop]
    note = (d / "note.txt").read_text().strip() if (d / "note.txt").exists() else ""
    meta = dict(id=mid, breaks_property=prop, needs_to_manifest=" ".join(note.split())[:1500],
                files=["patch.diff", "demo.py", "note.txt"], written_by="independent sub-agent given only the property text "
                "and a scratch worktree", ran=[])
    if mid in SUPERSEDED:
        meta["superseded"] = SUPERSEDED[mid]
    p = subprocess.run([sys.executable, str(ROOT / "tools" / "seedtest.py"), str(d)] + props, stdout=subprocess.PIPE,
                       stderr=subprocess.STDOUT, text=True, timeout=7200)
    try:
        res = json.loads((d / "result.json").read_text())
    except Exception:  # noqa
        res = dict(error=p.stdout[-500:])
    (d / "result.json").unlink(missing_ok=True)
    meta["confirmed"] = dict(repo_head=res.get("repo_head"), at=res.get("at"), patch_applies=res.get("patch_applies"),
                             demo_passes_on_unchanged_tree=(res.get("demo_clean_exit") == 0),
                             repository_tests_pass_with_change=res.get("tests_pass"),
                             demo_fails_with_change=(res.get("demo_mutant_exit") == 1),
                             how="tools/seedtest.py: scratch git worktree of /repo HEAD, demo.py, git apply patch.diff, full pytest "
                                 "suite, demo.py again, then VERIF_REPO=<worktree> ./check <prop> --tier quick")
    for q, v in (res.get("props") or {}).items():
        meta["ran"].append(dict(check=f"./check {q} --tier quick", exit=v["exit"], caught=v["caught"],
                                with_failing_input=v["with_failing_input"], wall_s=v["wall"], verdict_lines=v["lines"][-2:]))
    meta["caught_by"] = [r["check"].split()[1] for r in meta["ran"] if r["caught"]]
    (d / "meta.json").write_text(json.dumps(meta, indent=1) + "\n")
    return mid, meta


def summary():
    rows = []
    for d in sorted(SEEDED.iterdir()):
        f = d / "meta.json"
        if f.exists():
            m = json.loads(f.read_text())
            c = m.get("confirmed", {})
            ok = c.get("demo_passes_on_unchanged_tree") and c.get("repository_tests_pass_with_change") and c.get("demo_fails_with_change")
            caught = ", ".join(f"{r['check'].split()[1]}{'' if r['with_failing_input'] else ' (no failing input)'}"
                               for r in m["ran"] if r["caught"]) or "-"
            missed = ", ".join(r["check"].split()[1] for r in m["ran"] if not r["caught"]) or "-"
            st = "superseded" if m.get("superseded") else ("confirmed" if ok else "NOT CONFIRMED")
            rows.append(f"| {m['id']} | {st} | {caught} | {missed} | {m['needs_to_manifest'][:160].replace('|', '/')} |")
    txt = ("# Seeded breaking changes\n\nOne directory per change: patch.diff, demo.py (exit 0 on the unchanged tree, exit 1 with the "
           "change), note.txt, meta.json.\nRegenerate with `python3 tools/seedmatrix.py`.\n\n| id | status | caught by (quick tier) | "
           "run but not caught by | what it is / needs |\n|---|---|---|---|---|\n" + "\n".join(rows) + "\n")
    (SEEDED / "SUMMARY.md").write_text(txt)
    return len(rows)


def main():
    args = sys.argv[1:]
    j = 4
    if "-j" in args:
        j = int(args[args.index("-j") + 1])
        del args[args.index("-j"):args.index("-j") + 2]
    if args == ["--summary"]:
        print("SUMMARY.md rows:", summary())
        return
    ids = args or sorted(d.name for d in SEEDED.iterdir() if (d / "patch.diff").exists())
    t0 = time.time()
    with ThreadPoolExecutor(j) as ex:
        for mid, meta in ex.map(run_one, ids):
            print(mid, "caught by", meta["caught_by"] or "NOTHING", flush=True)
    print("SUMMARY.md rows:", summary(), f"({round(time.time() - t0)} s)")


if __name__ == "__main__":
    main()
