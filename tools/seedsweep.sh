#!/bin/bash
# tools/seedsweep.sh "C04 C05 ..." [nseeds] [tier]  — run checks under several seeds, report exit codes
cd "$(dirname "$0")/.." || exit 2
N=${2:-5}; TIER=${3:-quick}
for p in $1; do
  for s in $(seq 1 "$N"); do
    out=$(VERIF_SEED=$((s*7919+13)) ./check "$p" --tier "$TIER" 2>&1); rc=$?
    echo "$p seed=$((s*7919+13)) rc=$rc $(echo "$out" | grep -c '^KNOWN-FINDING') known | $(echo "$out" | tail -1 | cut -c1-200)"
  done
done
