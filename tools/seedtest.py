#!/usr/bin/env python3
"""tools/seedtest.py <mutant_dir> <prop> [<prop> ...] [--tier quick] [--keep]
Confirm a seeded breaking change and run property checks against it, in a scratch git worktree of /repo
(never in /repo itself): demo passes on the clean tree, patch applies, the repository's test suite still
passes, demo fails with the patch, then `VERIF_REPO=<worktree> ./check <prop>` for each property.
Prints one JSON object (also written to <mutant_dir>/result.json)."""
import json, os, subprocess, sys, time
from pathlib import Path

ROOT = Path(__file__).resolve().parent.parent
PY = "/venv/bin/python"


def sh(cmd, cwd=None, env=None, timeout=3600):
    p = subprocess.run(cmd, shell=isinstance(cmd, str), cwd=cwd, env=env, stdout=subprocess.PIPE, stderr=subprocess.STDOUT,
                       text=True, timeout=timeout)
    return p.returncode, p.stdout


def main():
    args = [a for a in sys.argv[1:] if not a.startswith("--")]
    tier = "quick"
    if "--tier" in sys.argv:
        tier = sys.argv[sys.argv.index("--tier") + 1]
        args.remove(tier)
    mdir = Path(args[0]).resolve()
    props = args[1:]
    wt = Path(f"/tmp/seedtest_{os.getpid()}")
    res = dict(mutant=str(mdir), props={}, at=time.strftime("%Y-%m-%d %H:%M:%S"))
    rc, out = sh(["git", "-C", "/repo", "worktree", "add", "--detach", str(wt), "HEAD"])
    if rc != 0:
        print(out); sys.exit(2)
    try:
        env = dict(os.environ, PYTHONPATH=str(wt), REPO_ROOT=str(wt), PYTHONHASHSEED="0", PYTHONDONTWRITEBYTECODE="1")
        res["repo_head"] = sh(["git", "-C", "/repo", "rev-parse", "--short", "HEAD"])[1].strip()
        rc, out = sh([PY, str(mdir / "demo.py")], cwd="/tmp", env=env, timeout=600)
        res["demo_clean_exit"] = rc
        rc, out = sh(["git", "-C", str(wt), "apply", str(mdir / "patch.diff")])
        res["patch_applies"] = (rc == 0)
        if rc != 0:
            res["apply_error"] = out[-400:]
            return res
        if "--skip-tests" not in sys.argv:
            rc, out = sh(f"{PY} -m pytest -q -p no:cacheprovider --timeout=900 -q "
                         f"--deselect tests/test_fast_enforcer.py::TestFastEnforcer::test_performance 2>&1 | tail -3", cwd=str(wt), env=env)
            res["tests_tail"] = out.strip()[-200:]
            res["tests_pass"] = ("failed" not in out and "error" not in out.lower())
        rc, out = sh([PY, str(mdir / "demo.py")], cwd="/tmp", env=env, timeout=600)
        res["demo_mutant_exit"] = rc
        res["demo_mutant_tail"] = out.strip()[-300:]
        # every run gets its OWN copy of the Coq tree (.vo included, so only what depends on regenerated files is
        # rebuilt) and of the oracles: regenerated coq/gen files never leak into /verif or into concurrent runs
        iso = Path(f"/tmp/seedtest_iso_{os.getpid()}")
        sh(f"rm -rf {iso}; mkdir -p {iso}/build && cp -a {ROOT}/coq {iso}/coq && cp -a {ROOT}/build/oracle {iso}/build/oracle 2>/dev/null; true")
        for p in props:
            t0 = time.time()
            e2 = dict(os.environ, VERIF_REPO=str(wt), VERIF_EVIDENCE_DIR=f"/tmp/seedtest_ev_{os.getpid()}",
                      VERIF_COQ_DIR=str(iso / "coq"), VERIF_BUILD_DIR=str(iso / "build"))
            rc, out = sh([str(ROOT / "check"), p, "--tier", tier], cwd=str(ROOT), env=e2, timeout=7200)
            lines = [l for l in out.splitlines() if l.startswith(("VIOLATION", "KNOWN-FINDING", "OK ", "  failing input", "  broken"))]
            res["props"][p] = dict(exit=rc, wall=round(time.time() - t0, 1), caught=(rc == 1 and any(l.startswith("VIOLATION") for l in lines)),
                                   with_failing_input=any(l.startswith("VIOLATION") and "no-failing-input-found" not in l for l in lines),
                                   lines=[l[:700] for l in lines][-4:])
        return res
    finally:
        sh(["git", "-C", "/repo", "worktree", "remove", "--force", str(wt)])
        sh(f"rm -rf /tmp/seedtest_ev_{os.getpid()} /tmp/seedtest_iso_{os.getpid()}")
        (mdir / "result.json").write_text(json.dumps(res, indent=1))
        print(json.dumps(res, indent=1))


if __name__ == "__main__":
    main()
