#!/usr/bin/env python3
"""Fail-closed translator: the bundled text adapters  -->  coq/gen/AdaptersGen.v   (C10; C18 for the async twin)

  casbin/persist/adapters/file_adapter.py      FileAdapter._load_policy_file, FileAdapter._save_policy_file
  casbin/persist/adapters/string_adapter.py    StringAdapter.load_policy, StringAdapter.save_policy
  casbin/persist/adapters/asyncio/file_adapter.py   AsyncFileAdapter._load_policy_file / _save_policy_file must be the SAME
                                                    syntax trees as FileAdapter's (compared, not translated twice)

Renders the four bodies as programs of the language of coq/theories/AdLang.v.  Purely syntactic; the meaning is the
interpreter in AdLang.v.  Anything outside the accepted subset aborts (exit 2, `TRANSLATION-FAILED`).

Accepted
  with open(self._file_path, "rb" | "w") as file: <block>      (only as the whole body of a file-adapter method)
  x = file.readline() ; while x: <block> ; x = file.readline()  (the read loop, exactly in this shape)
  statements:  "docstring" | x = <expr> | if <test>: ... [else: ...] | for k, v in <model>[<sec>].items(): ... | for x in v.policy: ...
               | for i, x in enumerate(l): ... | for x in <expr>: ... | x.append(<expr>) | x[<expr>] += <expr> | file.writelines(<expr>)
               | self.line = <expr> | load_policy_line(<expr>, model) | continue | raise RuntimeError("text")
  tests:       a == b | a != b | <sec> in <model>.keys() | <sec> not in <model>.keys() | x (only in the read loop)
  expressions: locals, "text", [], ["a", "b"], ints, a + b, "sep".join(e), util.array_to_string(e), len(e), a - b,
               e.rstrip("\\n"), e.split("\\n"), e.strip(), e.decode(), self.line
  <model> is `model` or `model.model`.
"""
import ast
import sys
from pathlib import Path

ERUNTIME = 16


class TranslationError(Exception):
    pass


def fail(node, msg):
    raise TranslationError(f"line {getattr(node, 'lineno', '?')}: {msg}: {ast.dump(node)[:200] if isinstance(node, ast.AST) else node}")


def is_name(n, s):
    return isinstance(n, ast.Name) and n.id == s


def self_attr(n):
    return n.attr if isinstance(n, ast.Attribute) and is_name(n.value, "self") else None


def is_model(n):
    return is_name(n, "model") or (isinstance(n, ast.Attribute) and n.attr == "model" and is_name(n.value, "model"))


def lit(s):
    return "[" + "; ".join(str(ord(ch)) for ch in s) + "]"


def strconst(n):
    return isinstance(n, ast.Constant) and isinstance(n.value, str)


class Fn:
    def __init__(self, prefix):
        self.prefix, self.vars, self.bound = prefix, {}, set()

    def vid(self, name):
        if name not in self.vars:
            self.vars[name] = len(self.vars) + 1
        return f"{self.prefix}_{name}"

    def var(self, n):
        if n.id not in self.bound:
            fail(n, f"unknown name '{n.id}'")
        return f"AVar {self.vid(n.id)}"

    def ex(self, n):
        if isinstance(n, ast.Name):
            return self.var(n)
        if strconst(n):
            return f"AStr {lit(n.value)}"
        if isinstance(n, ast.Constant) and isinstance(n.value, int) and not isinstance(n.value, bool) and 0 <= n.value < 1000:
            return f"AInt {n.value}"
        if isinstance(n, ast.List):
            if not n.elts:
                return "ANil"
            if all(strconst(e) for e in n.elts):
                return "AStrList [" + "; ".join(lit(e.value) for e in n.elts) + "]"
            fail(n, "list literal")
        if isinstance(n, ast.BinOp) and isinstance(n.op, ast.Add):
            return f"AConcat ({self.ex(n.left)}) ({self.ex(n.right)})"
        if isinstance(n, ast.BinOp) and isinstance(n.op, ast.Sub):
            return f"ASub ({self.ex(n.left)}) ({self.ex(n.right)})"
        if isinstance(n, ast.Attribute) and self_attr(n) == "line":
            return "ASelfLine"
        if isinstance(n, ast.Call) and not n.keywords:
            f = n.func
            if is_name(f, "len") and len(n.args) == 1:
                return f"ALen ({self.ex(n.args[0])})"
            if isinstance(f, ast.Attribute):
                if f.attr == "join" and strconst(f.value) and len(n.args) == 1:
                    return f"AJoin {lit(f.value.value)} ({self.ex(n.args[0])})"
                if f.attr == "array_to_string" and is_name(f.value, "util") and len(n.args) == 1:
                    return f"AJoin {lit(', ')} ({self.ex(n.args[0])})"       # util.array_to_string(s) = ", ".join(s): checked below
                if f.attr == "rstrip" and len(n.args) == 1 and strconst(n.args[0]) and n.args[0].value == "\n":
                    return f"ARstripNl ({self.ex(f.value)})"
                if f.attr == "split" and len(n.args) == 1 and strconst(n.args[0]) and n.args[0].value == "\n":
                    return f"ASplitNl ({self.ex(f.value)})"
                if f.attr == "strip" and not n.args:
                    return f"AStrip ({self.ex(f.value)})"
                if f.attr == "decode" and not n.args:
                    return f"ADecode ({self.ex(f.value)})"
            fail(n, "call outside the subset")
        fail(n, "expression outside the subset")

    def test(self, n):
        if isinstance(n, ast.Compare) and len(n.ops) == 1:
            op, a, b = n.ops[0], n.left, n.comparators[0]
            if isinstance(op, (ast.In, ast.NotIn)) and isinstance(b, ast.Call) and isinstance(b.func, ast.Attribute) \
                    and b.func.attr == "keys" and not b.args and is_model(b.func.value):
                e = f"AHasSec ({self.ex(a)})"
                return e if isinstance(op, ast.In) else f"ANot ({e})"
            if isinstance(op, ast.Eq):
                return f"AEq ({self.ex(a)}) ({self.ex(b)})"
            if isinstance(op, ast.NotEq):
                return f"ANe ({self.ex(a)}) ({self.ex(b)})"
        fail(n, "test outside the subset")

    def block(self, stmts):
        out = []
        i = 0
        while i < len(stmts):
            s = stmts[i]
            # the read loop:  x = file.readline() ; while x: ... ; x = file.readline()
            if self.is_readline_assign(s) and i + 1 < len(stmts) and isinstance(stmts[i + 1], ast.While):
                w = stmts[i + 1]
                x = s.targets[0].id
                if w.orelse or not is_name(w.test, x) or not w.body or not self.is_readline_assign(w.body[-1]) or w.body[-1].targets[0].id != x:
                    fail(w, "read loop form")
                self.bound.add(x)
                out.append(f"AReadLoop {self.vid(x)} {self.block(w.body[:-1])}")
                i += 2
                continue
            t = self.st(s)
            if t is not None:
                out.append(t)
            i += 1
        return "[" + "; ".join(out) + "]"

    @staticmethod
    def is_readline_assign(s):
        return isinstance(s, ast.Assign) and len(s.targets) == 1 and isinstance(s.targets[0], ast.Name) and isinstance(s.value, ast.Call) \
            and isinstance(s.value.func, ast.Attribute) and s.value.func.attr == "readline" and is_name(s.value.func.value, "file") \
            and not s.value.args and not s.value.keywords

    def st(self, s):
        if isinstance(s, ast.Expr) and strconst(s.value):
            return None
        if isinstance(s, ast.Assign) and len(s.targets) == 1:
            t = s.targets[0]
            if self_attr(t) == "line":
                return f"ASetLine ({self.ex(s.value)})"
            if isinstance(t, ast.Name) and t.id not in ("self", "model", "file"):
                e = self.ex(s.value)
                self.bound.add(t.id)
                return f"AAssign {self.vid(t.id)} ({e})"
            fail(s, "assignment outside the subset")
        if isinstance(s, ast.AugAssign) and isinstance(s.op, ast.Add) and isinstance(s.target, ast.Subscript) and isinstance(s.target.value, ast.Name) \
                and not isinstance(s.target.slice, ast.Slice):
            self.var(s.target.value)
            return f"AIdxAdd {self.vid(s.target.value.id)} ({self.ex(s.target.slice)}) ({self.ex(s.value)})"
        if isinstance(s, ast.If):
            return f"AIf ({self.test(s.test)}) {self.block(s.body)} {self.block(s.orelse)}"
        if isinstance(s, ast.Continue):
            return "AContinue"
        if isinstance(s, ast.Raise):
            e = s.exc
            if s.cause is None and isinstance(e, ast.Call) and is_name(e.func, "RuntimeError") and len(e.args) == 1 and strconst(e.args[0]):
                return f"ARaise {ERUNTIME}"
            fail(s, "raise form")
        if isinstance(s, ast.For):
            if s.orelse:
                fail(s, "for-else")
            t, it = s.target, s.iter
            # for k, v in <model>[<sec>].items()
            if isinstance(t, ast.Tuple) and len(t.elts) == 2 and all(isinstance(x, ast.Name) for x in t.elts) and isinstance(it, ast.Call) \
                    and isinstance(it.func, ast.Attribute) and it.func.attr == "items" and not it.args and isinstance(it.func.value, ast.Subscript) \
                    and is_model(it.func.value.value):
                sec = self.ex(it.func.value.slice)
                k, v = t.elts[0].id, t.elts[1].id
                self.bound.update((k, v))
                return f"AForAsts {self.vid(k)} {self.vid(v)} ({sec}) {self.block(s.body)}"
            # for i, x in enumerate(l)
            if isinstance(t, ast.Tuple) and len(t.elts) == 2 and all(isinstance(x, ast.Name) for x in t.elts) and isinstance(it, ast.Call) \
                    and is_name(it.func, "enumerate") and len(it.args) == 1 and isinstance(it.args[0], ast.Name) and not it.keywords:
                self.var(it.args[0])
                i, x = t.elts[0].id, t.elts[1].id
                self.bound.update((i, x))
                return f"AForEnum {self.vid(i)} {self.vid(x)} {self.vid(it.args[0].id)} {self.block(s.body)}"
            if isinstance(t, ast.Name):
                # for x in v.policy
                if isinstance(it, ast.Attribute) and it.attr == "policy" and isinstance(it.value, ast.Name):
                    self.var(it.value)
                    self.bound.add(t.id)
                    return f"AForPolicy {self.vid(t.id)} {self.vid(it.value.id)} {self.block(s.body)}"
                e = self.ex(it)
                self.bound.add(t.id)
                return f"AForStrs {self.vid(t.id)} ({e}) {self.block(s.body)}"
            fail(s, "for form")
        if isinstance(s, ast.Expr) and isinstance(s.value, ast.Call) and not s.value.keywords:
            c = s.value
            f = c.func
            if is_name(f, "load_policy_line") and len(c.args) == 2 and is_name(c.args[1], "model"):
                return f"ALoadLine ({self.ex(c.args[0])})"
            if isinstance(f, ast.Attribute) and f.attr == "append" and isinstance(f.value, ast.Name) and len(c.args) == 1:
                self.var(f.value)
                return f"AAppend {self.vid(f.value.id)} ({self.ex(c.args[0])})"
            if isinstance(f, ast.Attribute) and f.attr == "writelines" and is_name(f.value, "file") and len(c.args) == 1:
                return f"AWriteLines ({self.ex(c.args[0])})"
            fail(s, "call statement outside the subset")
        fail(s, "statement outside the subset")


def method(cls, name):
    fns = [n for n in cls.body if isinstance(n, ast.FunctionDef) and n.name == name]
    if len(fns) != 1:
        fail(cls, f"{cls.name}.{name}: exactly one definition expected")
    fn = fns[0]
    a = fn.args
    if fn.decorator_list or a.defaults or a.kwonlyargs or a.kwarg or a.vararg or [x.arg for x in a.args] != ["self", "model"]:
        fail(fn, "signature must be (self, model)")
    return fn


def klass(mod, name):
    cs = [n for n in mod.body if isinstance(n, ast.ClassDef) and n.name == name]
    if len(cs) != 1:
        fail(mod, f"class {name}")
    return cs[0]


def file_body(fn, mode):
    """the method is one `with open(self._file_path, <mode>) as file:` block"""
    body = [s for s in fn.body if not (isinstance(s, ast.Expr) and strconst(s.value))]
    if len(body) != 1 or not isinstance(body[0], ast.With) or len(body[0].items) != 1:
        fail(fn, "the method must be one with-open block")
    it = body[0].items[0]
    c = it.context_expr
    if not (isinstance(c, ast.Call) and is_name(c.func, "open") and len(c.args) == 2 and not c.keywords and self_attr(c.args[0]) == "_file_path"
            and strconst(c.args[1]) and c.args[1].value == mode and is_name(it.optional_vars, "file")):
        fail(body[0], f'open(self._file_path, "{mode}") as file expected')
    return body[0].body


def translate(repo):
    base = repo / "casbin" / "persist" / "adapters"
    fmod = ast.parse((base / "file_adapter.py").read_text())
    smod = ast.parse((base / "string_adapter.py").read_text())
    amod = ast.parse((base / "asyncio" / "file_adapter.py").read_text())
    umod = ast.parse((repo / "casbin" / "util" / "util.py").read_text())
    fa, sa, aa = klass(fmod, "FileAdapter"), klass(smod, "StringAdapter"), klass(amod, "AsyncFileAdapter")
    # util.array_to_string(s) must be `return ", ".join(s)`
    ats = [n for n in umod.body if isinstance(n, ast.FunctionDef) and n.name == "array_to_string"]
    want = ast.dump(ast.parse('def array_to_string(s):\n    return ", ".join(s)').body[0].body[0])
    if len(ats) != 1 or [x.arg for x in ats[0].args.args] != ["s"] or \
            [ast.dump(x) for x in ats[0].body if not (isinstance(x, ast.Expr) and strconst(x.value))] != [want]:
        fail(umod, 'util.array_to_string must be `return ", ".join(s)`')
    for name in ("_load_policy_file", "_save_policy_file"):
        if ast.dump(method(fa, name)) != ast.dump(method(aa, name)):
            fail(method(aa, name), f"AsyncFileAdapter.{name} differs from FileAdapter.{name}")
    out = []
    for prefix, name, body in (("afl", "file_load", file_body(method(fa, "_load_policy_file"), "rb")),
                               ("afs", "file_save", file_body(method(fa, "_save_policy_file"), "w")),
                               ("asl", "string_load", method(sa, "load_policy").body),
                               ("ass", "string_save", method(sa, "save_policy").body)):
        f = Fn(prefix)
        out.append((name, f, f.block(body)))
    return out


def emit(methods):
    L = ["(* GENERATED by translators/adapters.py from casbin/persist/adapters/{file_adapter,string_adapter}.py — do not edit *)",
         "From Coq Require Import List NArith ZArith Bool.", "From PyCasbin Require Import Base Csv AdLang.", "Import ListNotations.",
         "Local Open Scope N_scope.", ""]
    for name, f, body in methods:
        for v, k in f.vars.items():
            L.append(f"Definition {f.prefix}_{v} : N := {k}.")
        L.append(f"Definition {name}_locals : list N := [{'; '.join(f.prefix + '_' + v for v in f.vars)}].")
        L.append(f"Definition {name}_gen : list ast_ :=")
        L.append(f"  {body}.")
        L.append("")
    return "\n".join(L)


def main():
    repo = Path(sys.argv[1] if len(sys.argv) > 1 else "/repo")
    out = Path(sys.argv[2]) if len(sys.argv) > 2 else Path(__file__).resolve().parent.parent / "coq" / "gen" / "AdaptersGen.v"
    try:
        methods = translate(repo)
    except (TranslationError, SyntaxError, OSError, KeyError, IndexError, AttributeError) as e:
        print(f"TRANSLATION-FAILED adapters: {e}")
        sys.exit(2)
    text = emit(methods)
    if not out.exists() or out.read_text() != text:
        out.write_text(text)
    print(f"translated FileAdapter._load_policy_file/_save_policy_file, StringAdapter.load_policy/save_policy -> {out}")


if __name__ == "__main__":
    main()
