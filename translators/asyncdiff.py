#!/usr/bin/env python3
"""Fail-closed translator for C18:  the sync and async enforcer class chains  -->  coq/gen/AsyncGen.v

    sync  chain: Enforcer > ManagementEnforcer > InternalEnforcer > CoreEnforcer
    async chain: AsyncEnforcer > AsyncManagementEnforcer > AsyncInternalEnforcer > CoreEnforcer

For every method name defined by one of the six non-shared classes, the name is resolved along both
chains (first class that defines it, exactly Python's MRO for single inheritance):
  * both chains resolve it, to different definitions  -> `shared` entry with BOTH ASTs
    (this covers the CoreEnforcer methods that AsyncInternalEnforcer overrides: load_policy, ...)
  * only one chain resolves it                        -> sync_only / async_only
CoreEnforcer methods that neither side overrides are literally the same code; those the async chain
inherits are emitted once (`core_inherited`) for the await-discipline check, as are the method
signatures of the four async adapter interfaces (`adapter_iface`) and the import tables.

The translator is deliberately dumb: it dumps Python `ast` nodes 1:1 into the generic tree type of
coq/theories/AsyncEq.v (encoding described there); every normalisation (async erasure, R1-R3) is a
Gallina function.  Tag numbers (T_*) and reserved interned texts (K_*) are READ FROM AsyncEq.v.
Only docstrings (first statement of a body when it is a string expression) are dropped.

Fails closed (exit 2, TRANSLATION-FAILED) when: a file does not parse; a class is missing or has
other bases than expected; a class body holds anything but methods / string expressions / pass; a
method is defined twice in one class or carries decorators other than staticmethod/classmethod; a
twin module has top-level statements other than imports, classes and string expressions; an AST
node class has no T_ tag in AsyncEq.v (match statements, type aliases, ...); a non-empty
type_comment / type_params appears.
"""
import ast
import re
import sys
from pathlib import Path

ROOT = Path(__file__).resolve().parent.parent
ASYNCEQ = ROOT / "coq" / "theories" / "AsyncEq.v"

SYNC_CHAIN = [("casbin/enforcer.py", "Enforcer", "ManagementEnforcer"),
              ("casbin/management_enforcer.py", "ManagementEnforcer", "InternalEnforcer"),
              ("casbin/internal_enforcer.py", "InternalEnforcer", "CoreEnforcer")]
ASYNC_CHAIN = [("casbin/async_enforcer.py", "AsyncEnforcer", "AsyncManagementEnforcer"),
               ("casbin/async_management_enforcer.py", "AsyncManagementEnforcer", "AsyncInternalEnforcer"),
               ("casbin/async_internal_enforcer.py", "AsyncInternalEnforcer", "CoreEnforcer")]
CORE = ("casbin/core_enforcer.py", "CoreEnforcer", None)
IFACES = [("casbin/persist/adapters/asyncio/adapter.py", "AsyncAdapter"),
          ("casbin/persist/adapters/asyncio/adapter_filtered.py", "AsyncFilteredAdapter"),
          ("casbin/persist/adapters/asyncio/batch_adapter.py", "AsyncBatchAdapter"),
          ("casbin/persist/adapters/asyncio/update_adapter.py", "AsyncUpdateAdapter")]
# module indices used in the generated table
MODULES = [c[0] for c in SYNC_CHAIN] + [c[0] for c in ASYNC_CHAIN] + [CORE[0]]

DROPPED_FIELDS = {"type_comment", "kind"}


class TranslationError(Exception):
    pass


def read_tables():
    """tag numbers and reserved interned texts, from AsyncEq.v (single source of truth)"""
    text = ASYNCEQ.read_text()
    tags = {m.group(1): int(m.group(2)) for m in re.finditer(r"^Definition T_(\w+) : N := (\d+)\.", text, re.M)}
    reserved = {}
    for m in re.finditer(r'^Definition K_\w+ : N := (\d+)\. \(\* ([sl]) "([^"]*)" \*\)', text, re.M):
        reserved[(m.group(2), m.group(3))] = int(m.group(1))
    if "seq" not in tags or "none" not in tags or "FunctionDef" not in tags or not reserved:
        raise TranslationError("cannot read T_/K_ tables from AsyncEq.v")
    if len(set(tags.values())) != len(tags) or len(set(reserved.values())) != len(reserved):
        raise TranslationError("duplicate numbers in the T_/K_ tables of AsyncEq.v")
    return tags, reserved


class Interner:
    """one table for identifiers and string constants (namespace 's'), one for other literals ('l');
    numbers are unique across both; reserved texts keep the numbers AsyncEq.v gives them."""

    def __init__(self, reserved):
        self.table = dict(reserved)
        self.next = max(reserved.values()) + 1

    def get(self, ns, text):
        k = (ns, text)
        if k not in self.table:
            self.table[k] = self.next
            self.next += 1
        return self.table[k]


class Encoder:
    def __init__(self, tags, interner):
        self.tags = tags
        self.intern = interner

    def tag(self, node):
        n = type(node).__name__
        if n not in self.tags:
            raise TranslationError(f"line {getattr(node, 'lineno', '?')}: AST node class {n} is outside the accepted subset")
        return self.tags[n]

    def field(self, node, name, v):
        if v is None:
            return ("N", self.tags["none"], [])
        if isinstance(v, list):
            return ("N", self.tags["seq"], [self.field(node, name, x) for x in v])
        if isinstance(v, ast.AST):
            return self.node(v)
        if isinstance(node, ast.Constant) and name == "value":
            if isinstance(v, str):
                return ("S", self.intern.get("s", v))
            return ("L", self.intern.get("l", f"{type(v).__name__}:{v!r}"))
        if isinstance(v, str):
            return ("I", self.intern.get("s", v))
        if isinstance(v, bool) or isinstance(v, int):
            return ("L", self.intern.get("l", f"{type(v).__name__}:{v!r}"))
        raise TranslationError(f"line {getattr(node, 'lineno', '?')}: field {type(node).__name__}.{name} has unsupported value {v!r}")

    def node(self, n):
        kids = []
        for f in n._fields:
            v = getattr(n, f, None)
            if f in DROPPED_FIELDS:
                if f == "type_comment" and v is not None:
                    raise TranslationError(f"line {n.lineno}: type_comment present")
                continue
            if f == "type_params":
                if v:
                    raise TranslationError(f"line {n.lineno}: type parameters present")
                continue
            if isinstance(n, ast.Constant) and f == "value" and v is None:
                kids.append(("L", self.intern.get("l", "NoneType:None")))
                continue
            kids.append(self.field(n, f, v))
        return ("N", self.tag(n), kids)

    def method(self, fn):
        """a (Async)FunctionDef with its docstring dropped"""
        body = list(fn.body)
        if body and isinstance(body[0], ast.Expr) and isinstance(body[0].value, ast.Constant) \
                and isinstance(body[0].value.value, str):
            body = body[1:]
        if not body:
            body = [ast.Pass()]
        clone = type(fn)(**{f: getattr(fn, f, None) for f in fn._fields})
        clone.body = body
        clone.lineno = fn.lineno
        return self.node(clone)


def is_str_expr(st):
    return isinstance(st, ast.Expr) and isinstance(st.value, ast.Constant) and isinstance(st.value.value, str)


def parse_module(repo, rel):
    p = repo / rel
    try:
        return ast.parse(p.read_text(), filename=str(p))
    except (SyntaxError, OSError, UnicodeDecodeError) as e:
        raise TranslationError(f"{rel}: cannot parse: {e}")


def class_methods(mod, rel, cname, base, strict_toplevel=True):
    """ordered dict name -> (Async)FunctionDef of class `cname` in module `mod`"""
    cls = None
    for st in mod.body:
        if isinstance(st, ast.ClassDef):
            if st.name == cname:
                if cls is not None:
                    raise TranslationError(f"{rel}: class {cname} defined twice")
                cls = st
        elif isinstance(st, (ast.Import, ast.ImportFrom)) or is_str_expr(st):
            pass
        elif strict_toplevel:
            raise TranslationError(f"{rel}: line {st.lineno}: unexpected top-level statement {type(st).__name__}")
    if cls is None:
        raise TranslationError(f"{rel}: class {cname} not found")
    if base is not None:
        if not (len(cls.bases) == 1 and isinstance(cls.bases[0], ast.Name) and cls.bases[0].id == base) or cls.keywords:
            raise TranslationError(f"{rel}: class {cname} must derive from {base} only")
    if cls.decorator_list:
        raise TranslationError(f"{rel}: class {cname} is decorated")
    methods = {}
    for st in cls.body:
        if isinstance(st, (ast.FunctionDef, ast.AsyncFunctionDef)):
            if st.name in methods:
                raise TranslationError(f"{rel}: {cname}.{st.name} defined twice")
            for d in st.decorator_list:
                if not (isinstance(d, ast.Name) and d.id in ("staticmethod", "classmethod", "abstractmethod")):
                    raise TranslationError(f"{rel}: {cname}.{st.name}: unsupported decorator")
            methods[st.name] = st
        elif is_str_expr(st) or isinstance(st, ast.Pass):
            continue
        elif base is None and isinstance(st, ast.Assign) and all(isinstance(t, ast.Name) for t in st.targets) \
                and isinstance(st.value, ast.Constant):
            continue     # CoreEnforcer's class-level defaults (shared by both chains)
        else:
            raise TranslationError(f"{rel}: line {st.lineno}: unexpected member of class {cname}: {type(st).__name__}")
    return methods


def module_bindings(mod, rel):
    """(bound name, origin) for imports and top-level classes"""
    out = []
    modname = rel[:-3].replace("/", ".")
    for st in mod.body:
        if isinstance(st, ast.Import):
            for a in st.names:
                out.append((a.asname or a.name.split(".")[0], a.name if a.asname else a.name.split(".")[0]))
        elif isinstance(st, ast.ImportFrom):
            if st.level:
                raise TranslationError(f"{rel}: relative import in a twin module")
            for a in st.names:
                if a.name == "*":
                    raise TranslationError(f"{rel}: star import")
                out.append((a.asname or a.name, f"{st.module}.{a.name}"))
        elif isinstance(st, ast.ClassDef):
            out.append((st.name, f"{modname}.{st.name}"))
    return out


def resolve(chain_methods, core_methods, name):
    """-> (module index, FunctionDef) or None, following the chain then CoreEnforcer"""
    for idx, methods in chain_methods:
        if name in methods:
            return idx, methods[name]
    if name in core_methods:
        return MODULES.index(CORE[0]), core_methods[name]
    return None


# ---------------------------------------------------------------------------------- public API
def collect(repo):
    """parse everything; returns a dict with python-level tables (trees as nested tuples)"""
    repo = Path(repo)
    tags, reserved = read_tables()
    interner = Interner(reserved)
    enc = Encoder(tags, interner)
    mods = {rel: parse_module(repo, rel) for rel in MODULES}
    sync_m = [(MODULES.index(rel), class_methods(mods[rel], rel, c, b)) for rel, c, b in SYNC_CHAIN]
    async_m = [(MODULES.index(rel), class_methods(mods[rel], rel, c, b)) for rel, c, b in ASYNC_CHAIN]
    core_m = class_methods(mods[CORE[0]], CORE[0], CORE[1], None, strict_toplevel=False)
    core_idx = MODULES.index(CORE[0])

    names = []
    for _, ms in sync_m + async_m:
        for n in ms:
            if n not in names:
                names.append(n)
    shared, sync_only, async_only = [], [], []
    for n in names:
        s = resolve(sync_m, core_m, n)
        a = resolve(async_m, core_m, n)
        if s and a:
            if s[1] is a[1]:
                continue
            shared.append(dict(name=n, sync_mod=s[0], sync=enc.method(s[1]), async_mod=a[0], async_=enc.method(a[1]),
                               sync_line=s[1].lineno, async_line=a[1].lineno))
        elif s:
            sync_only.append((n, enc.method(s[1])))
        else:
            async_only.append((n, enc.method(a[1])))
    async_defined = set()
    for _, ms in async_m:
        async_defined.update(ms)
    core_inherited = [(n, enc.method(f)) for n, f in core_m.items() if n not in async_defined]
    iface = []
    for rel, cname in IFACES:
        m = parse_module(repo, rel)
        for n, f in class_methods(m, rel, cname, None, strict_toplevel=False).items():
            iface.append((f"{cname}.{n}", enc.method(f)))
    imports = []
    for i, rel in enumerate(MODULES):
        imports.append((i, [(interner.get("s", b), o) for b, o in module_bindings(mods[rel], rel)]))
    return dict(shared=shared, sync_only=sync_only, async_only=async_only, core_inherited=core_inherited,
                iface=iface, imports=imports, interner=interner, tags=tags, core_idx=core_idx)


def to_wire(t):
    """tree (nested tuple) -> python value for harness.core.enc (AsyncEq.tree_of_val)"""
    if t[0] == "N":
        return [0, t[1], [to_wire(k) for k in t[2]]]
    return [{"I": 1, "S": 2, "L": 3}[t[0]], t[1]]


def to_coq(t):
    if t[0] == "N":
        return f"Node {t[1]} [" + ";".join(to_coq(k) for k in t[2]) + "]"
    return {"I": "Ident", "S": "Str", "L": "Lit"}[t[0]] + f" {t[1]}"


def size(t):
    return 1 + (sum(size(k) for k in t[2]) if t[0] == "N" else 0)


def coq_string(s):
    if any(ord(c) < 32 or ord(c) > 126 for c in s):
        raise TranslationError(f"non-printable character in a name: {s!r}")
    return '"' + s.replace('"', '""') + '"'


def translate(repo):
    d = collect(repo)
    out = []
    out.append("(* GENERATED by translators/asyncdiff.py from casbin/{,async_}{internal_,management_,}enforcer.py,")
    out.append("   casbin/core_enforcer.py and casbin/persist/adapters/asyncio/*.py — do not edit.")
    out.append("   Tree encoding: see coq/theories/AsyncEq.v.  Modules: " +
               ", ".join(f"{i}={m}" for i, m in enumerate(MODULES)) + " *)")
    out.append("From Coq Require Import List NArith String.")
    out.append("From PyCasbin Require Import Base AsyncEq.")
    out.append("Import ListNotations.")
    out.append("Local Open Scope N_scope.")
    out.append("Local Open Scope string_scope.")
    out.append("")
    out.append("(* interning table (number = text; s: identifier or string constant, l: other literal)")
    for (ns, text), k in sorted(d["interner"].table.items(), key=lambda kv: kv[1]):
        safe = repr(text).replace("(*", "( *").replace("*)", "* )")
        out.append(f"   {k} = {ns} {safe}")
    out.append("*)")
    out.append("")
    for i, m in enumerate(d["shared"]):
        out.append(f"(* {m['name']}: sync {MODULES[m['sync_mod']]}:{m['sync_line']}  async {MODULES[m['async_mod']]}:{m['async_line']} *)")
        out.append(f"Definition s_{i} : tree := {to_coq(m['sync'])}.")
        out.append(f"Definition a_{i} : tree := {to_coq(m['async_'])}.")
    out.append("")
    out.append("Definition shared : list method := [")
    out.append(";\n".join(f"  Method {coq_string(m['name'])} {m['sync_mod']} s_{i} {m['async_mod']} a_{i}"
                          for i, m in enumerate(d["shared"])))
    out.append("].")
    out.append("")
    for key in ("sync_only", "async_only", "core_inherited"):
        out.append(f"Definition {key} : list (string * tree) := [")
        out.append(";\n".join(f"  ({coq_string(n)}, {to_coq(t)})" for n, t in d[key]))
        out.append("].")
        out.append("")
    out.append("(* method signatures declared by the async adapter interfaces (bodies are `pass`) *)")
    out.append("Definition adapter_iface : list (string * tree) := [")
    out.append(";\n".join(f"  ({coq_string(n)}, {to_coq(t)})" for n, t in d["iface"]))
    out.append("].")
    out.append("")
    out.append("(* module index -> (bound identifier, origin): imports and top-level classes *)")
    out.append("Definition imports : imports_t := [")
    out.append(";\n".join(f"  ({i}, [" + "; ".join(f"({k}, {coq_string(o)})" for k, o in l) + "])" for i, l in d["imports"]))
    out.append("].")
    out.append("")
    return "\n".join(out)


def main():
    repo = Path(sys.argv[1] if len(sys.argv) > 1 else "/repo")
    dst = Path(sys.argv[2] if len(sys.argv) > 2 else ROOT / "coq" / "gen" / "AsyncGen.v")
    try:
        text = translate(repo)
    except (TranslationError, SyntaxError, OSError, KeyError, IndexError, AttributeError, RecursionError) as e:
        print(f"TRANSLATION-FAILED asyncdiff: {e}")
        sys.exit(2)
    if not dst.exists() or dst.read_text() != text:
        dst.parent.mkdir(parents=True, exist_ok=True)
        dst.write_text(text)
        print(f"regenerated {dst}")
    sys.exit(0)


if __name__ == "__main__":
    main()
