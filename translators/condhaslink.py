#!/usr/bin/env python3
"""Fail-closed translator: ConditionalRoleManager.has_link / _has_link (casbin/rbac/default_role_manager/role_manager.py)
   -->  coq/gen/CondHasLinkGen.v   (C03)

Renders the two methods as programs of the language of coq/theories/CRoleLang.v.  Purely syntactic; the meaning is the
interpreter in CRoleLang.v.  Anything outside the accepted subset aborts (exit 2, `TRANSLATION-FAILED`).

Accepted
  def m(self, <params>[, *rest]):   the rest-argument may not be used in the body
  statements:  "docstring" | x = <expr> | if <expr>: ... [else: ...] | for x in <expr>: ... | x.update(<expr>) | return <expr>
  expressions: locals, ints, True / False, a <= b, a < b, a == b, a or b / a and b (between boolean-valued operands), a - b,
               len(e), set(), set(e), list(e), [e, ...], e.name, e.roles, self._get_role(e), self.max_hierarchy_level,
               self.matching_func is not None, self._matching_fn(a, b), self.get_next_roles(a, b, domains),
               self._has_link(<exprs>, *domains)   (the rest-argument `domains` may only be passed on like this)
"""
import ast
import sys
from pathlib import Path

METHODS = ["_has_link", "has_link"]
PREFIX = {"_has_link": "cl", "has_link": "cp"}


class TranslationError(Exception):
    pass


def fail(node, msg):
    raise TranslationError(f"line {getattr(node, 'lineno', '?')}: {msg}: {ast.dump(node)[:200] if isinstance(node, ast.AST) else node}")


def is_name(n, s):
    return isinstance(n, ast.Name) and n.id == s


def self_attr(n):
    return n.attr if isinstance(n, ast.Attribute) and is_name(n.value, "self") else None


class Fn:
    def __init__(self, prefix, params, banned):
        self.prefix, self.vars, self.bound, self.banned = prefix, {}, set(), banned
        for p in params:
            self.vid(p)
            self.bound.add(p)

    def vid(self, name):
        if name not in self.vars:
            self.vars[name] = len(self.vars) + 1
        return f"{self.prefix}_{name}"

    def var(self, n):
        if n.id in self.banned or n.id not in self.bound:
            fail(n, f"unknown or unsupported name '{n.id}'")
        return f"RVar {self.vid(n.id)}"

    def ex(self, n):
        if isinstance(n, ast.Name):
            return self.var(n)
        if isinstance(n, ast.Constant):
            if isinstance(n.value, bool):
                return f"RBool {'true' if n.value else 'false'}"
            if isinstance(n.value, int) and 0 <= n.value < 1000:
                return f"RInt {n.value}"
            fail(n, "constant outside the subset")
        if isinstance(n, ast.Compare) and len(n.ops) == 1:
            op, a, b = n.ops[0], n.left, n.comparators[0]
            if isinstance(op, ast.IsNot) and self_attr(a) == "matching_func" and isinstance(b, ast.Constant) and b.value is None:
                return "RHasMf"
            k = {ast.LtE: "RLe", ast.Lt: "RLt", ast.Eq: "REq"}.get(type(op))
            if k is None:
                fail(n, "comparison outside the subset")
            return f"{k} ({self.ex(a)}) ({self.ex(b)})"
        if isinstance(n, ast.BoolOp):
            def boolish(v):
                return isinstance(v, (ast.Compare, ast.BoolOp)) or (isinstance(v, ast.Call) and self_attr(v.func) == "_matching_fn")
            if not all(boolish(v) for v in n.values):
                fail(n, "and/or between operands that are not boolean-valued")
            k = "ROr" if isinstance(n.op, ast.Or) else "RAnd"
            out = self.ex(n.values[-1])
            for v in reversed(n.values[:-1]):
                out = f"{k} ({self.ex(v)}) ({out})"
            return out
        if isinstance(n, ast.BinOp) and isinstance(n.op, ast.Sub):
            return f"RSub ({self.ex(n.left)}) ({self.ex(n.right)})"
        if isinstance(n, ast.List):
            return f"RListLit [{'; '.join(self.ex(e) for e in n.elts)}]"
        if isinstance(n, ast.Attribute):
            if self_attr(n) == "max_hierarchy_level":
                return "RMaxLevel"
            if isinstance(n.value, ast.Name) and n.value.id != "self":
                if n.attr == "name":
                    return f"RAttrName ({self.ex(n.value)})"
                if n.attr == "roles":
                    return f"RAttrRoles ({self.ex(n.value)})"
            fail(n, "attribute outside the subset")
        if isinstance(n, ast.Call) and not n.keywords:
            f = n.func
            if is_name(f, "len") and len(n.args) == 1:
                return f"RLen ({self.ex(n.args[0])})"
            if is_name(f, "set") and not n.args:
                return "RSetNew"
            if is_name(f, "set") and len(n.args) == 1:
                return f"RSetOf ({self.ex(n.args[0])})"
            if is_name(f, "list") and len(n.args) == 1:
                return f"RListOf ({self.ex(n.args[0])})"
            if self_attr(f) == "_get_role" and len(n.args) == 1:
                return f"RGetRole ({self.ex(n.args[0])})"
            if self_attr(f) == "_matching_fn" and len(n.args) == 2:
                return f"RMatchFn ({self.ex(n.args[0])}) ({self.ex(n.args[1])})"
            if self_attr(f) == "get_next_roles" and len(n.args) == 3 and is_name(n.args[2], "domains"):
                return f"RNextRoles ({self.ex(n.args[0])}) ({self.ex(n.args[1])})"
            if self_attr(f) == "_has_link":
                args = list(n.args)
                if not (args and isinstance(args[-1], ast.Starred) and is_name(args[-1].value, "domains")):
                    fail(n, "the rest-argument must be passed on as *domains")
                args = args[:-1]
                if any(isinstance(a, ast.Starred) for a in args):
                    fail(n, "starred argument")
                return f"RSelf [{'; '.join(self.ex(a) for a in args)}]"
            fail(n, "call outside the subset")
        fail(n, "expression outside the subset")

    def block(self, stmts):
        out = [x for x in (self.st(s) for s in stmts) if x is not None]
        return "[" + "; ".join(out) + "]"

    def st(self, s):
        if isinstance(s, ast.Expr) and isinstance(s.value, ast.Constant) and isinstance(s.value.value, str):
            return None
        if isinstance(s, ast.Assign) and len(s.targets) == 1 and isinstance(s.targets[0], ast.Name):
            name = s.targets[0].id
            if name == "self" or name in self.banned:
                fail(s, "rebinding")
            e = self.ex(s.value)
            self.bound.add(name)
            return f"RAssign {self.vid(name)} ({e})"
        if isinstance(s, ast.If):
            return f"RIf ({self.ex(s.test)}) {self.block(s.body)} {self.block(s.orelse)}"
        if isinstance(s, ast.For):
            if s.orelse or not isinstance(s.target, ast.Name):
                fail(s, "for form")
            it = self.ex(s.iter)
            self.bound.add(s.target.id)
            return f"RFor {self.vid(s.target.id)} ({it}) {self.block(s.body)}"
        if isinstance(s, ast.Expr) and isinstance(s.value, ast.Call):
            c = s.value
            if isinstance(c.func, ast.Attribute) and c.func.attr == "update" and isinstance(c.func.value, ast.Name) \
                    and len(c.args) == 1 and not c.keywords:
                self.var(c.func.value)
                return f"RUpdate {self.vid(c.func.value.id)} ({self.ex(c.args[0])})"
            fail(s, "call statement outside the subset")
        if isinstance(s, ast.Return):
            if s.value is None:
                fail(s, "bare return")
            return f"RReturn ({self.ex(s.value)})"
        fail(s, "statement outside the subset")


def translate(src):
    mod = ast.parse(src)
    cls = [n for n in mod.body if isinstance(n, ast.ClassDef) and n.name == "ConditionalRoleManager"]
    if len(cls) != 1:
        fail(mod, "exactly one class ConditionalRoleManager expected")
    fns = {}
    for n in cls[0].body:
        if isinstance(n, ast.FunctionDef):
            if n.name in fns:
                fail(n, "method defined twice")
            fns[n.name] = n
    out = []
    for m in METHODS:
        if m not in fns:
            fail(cls[0], f"ConditionalRoleManager.{m} not found")
        fn = fns[m]
        a = fn.args
        if fn.decorator_list or a.defaults or a.kwonlyargs or a.kw_defaults or a.kwarg or a.posonlyargs:
            fail(fn, "method signature")
        names = [x.arg for x in a.args]
        if names[:1] != ["self"]:
            fail(fn, "first parameter must be self")
        if not a.vararg or a.vararg.arg != "domains":
            fail(fn, "rest-argument *domains expected")
        f = Fn(PREFIX[m], names[1:], {"domains"})
        out.append((m, f, names[1:], f.block(fn.body)))
    return out


def emit(methods):
    L = ["(* GENERATED by translators/condhaslink.py from casbin/rbac/default_role_manager/role_manager.py (ConditionalRoleManager) — do not edit *)",
         "From Coq Require Import List NArith ZArith Bool.", "From PyCasbin Require Import Base CRoleLang.", "Import ListNotations.",
         "Local Open Scope N_scope.", ""]
    for m, f, params, body in methods:
        nm = "chas_link" if m == "has_link" else "chas_link_rec"
        for v, k in f.vars.items():
            L.append(f"Definition {f.prefix}_{v} : N := {k}.")
        L.append(f"(* ConditionalRoleManager.{m} *)")
        L.append(f"Definition {nm}_params : list N := [{'; '.join(f.prefix + '_' + p for p in params)}].")
        L.append(f"Definition {nm}_locals : list N := [{'; '.join(f.prefix + '_' + v for v in f.vars if v not in params)}].")
        L.append(f"Definition {nm}_gen : list rst :=")
        L.append(f"  {body}.")
        L.append("")
    return "\n".join(L)


def main():
    repo = Path(sys.argv[1] if len(sys.argv) > 1 else "/repo")
    out = Path(sys.argv[2]) if len(sys.argv) > 2 else Path(__file__).resolve().parent.parent / "coq" / "gen" / "CondHasLinkGen.v"
    try:
        methods = translate((repo / "casbin" / "rbac" / "default_role_manager" / "role_manager.py").read_text())
    except (TranslationError, SyntaxError, OSError, KeyError, IndexError, AttributeError) as e:
        print(f"TRANSLATION-FAILED role_manager.py: {e}")
        sys.exit(2)
    text = emit(methods)
    if not out.exists() or out.read_text() != text:
        out.write_text(text)
    print(f"translated ConditionalRoleManager._has_link, has_link -> {out}")


if __name__ == "__main__":
    main()
