#!/usr/bin/env python3
"""Fail-closed translator: casbin/effect/{default_effectors,__init__,effector}.py and
casbin/constant/constants.py  -->  coq/gen/EffectorsGen.v

Accepted Python (anything else aborts with TranslationError):
  * effector.py: class Effector with integer class constants ALLOW / INDETERMINATE / DENY
  * default_effectors.py: classes deriving from Effector, each with methods
    intermediate_effect(self, effects) / final_effect(self, effects) whose bodies are sequences of
        [docstring]
        if <cond>: <block>  [elif ...] [else: <block>]
        return Effector.<NAME>
    with <cond> ::= Effector.<NAME> in effects | Effector.<NAME> not in effects
                  | <cond> or <cond> | <cond> and <cond> | not <cond> | (<cond>)
  * effect/__init__.py: get_effector(expr) as an if/elif chain of  expr == CONST [or expr == CONST]
    returning  ClassName()  and ending in  raise RuntimeError(...);
    effect_to_bool(effect) as  if effect == Effector.X: return True/False ... raise
  * constants.py: NAME = "string literal"
"""
import ast
import sys
from pathlib import Path


class TranslationError(Exception):
    pass


def fail(node, msg):
    line = getattr(node, "lineno", "?")
    raise TranslationError(f"line {line}: {msg}: {ast.dump(node)[:200] if isinstance(node, ast.AST) else node}")


EFF_NAMES = {"ALLOW": "Allow", "INDETERMINATE": "Indet", "DENY": "Deny"}
HAS = {"ALLOW": "hasA", "INDETERMINATE": "hasI", "DENY": "hasD"}


def eff_attr(node):
    if isinstance(node, ast.Attribute) and isinstance(node.value, ast.Name) and node.value.id == "Effector" \
            and node.attr in EFF_NAMES:
        return node.attr
    fail(node, "expected Effector.<ALLOW|INDETERMINATE|DENY>")


def tr_cond(node, setname):
    if isinstance(node, ast.BoolOp):
        op = "||" if isinstance(node.op, ast.Or) else "&&"
        return "(" + f" {op} ".join(tr_cond(v, setname) for v in node.values) + ")"
    if isinstance(node, ast.UnaryOp) and isinstance(node.op, ast.Not):
        return f"(negb {tr_cond(node.operand, setname)})"
    if isinstance(node, ast.Compare) and len(node.ops) == 1 and isinstance(node.comparators[0], ast.Name) \
            and node.comparators[0].id == setname:
        e = eff_attr(node.left)
        if isinstance(node.ops[0], ast.In):
            return f"({HAS[e]} s)"
        if isinstance(node.ops[0], ast.NotIn):
            return f"(negb ({HAS[e]} s))"
    fail(node, "unsupported condition")


def strip_doc(body):
    if body and isinstance(body[0], ast.Expr) and isinstance(body[0].value, ast.Constant) \
            and isinstance(body[0].value.value, str):
        return body[1:]
    return body


def tr_block(stmts, setname, cont):
    """translate a statement list to a Coq expression of type eff; cont = translation of what follows
    (None if nothing follows, in which case falling off the end is an error)."""
    if not stmts:
        if cont is None:
            raise TranslationError("method can fall off the end without returning an effect")
        return cont
    s, rest = stmts[0], stmts[1:]
    if isinstance(s, ast.Return):
        if s.value is None:
            fail(s, "bare return")
        return EFF_NAMES[eff_attr(s.value)]
    if isinstance(s, ast.Pass):
        return tr_block(rest, setname, cont)
    if isinstance(s, ast.If):
        after = tr_block(rest, setname, cont) if (rest or cont is not None) else None
        then = tr_block(s.body, setname, after)
        els = tr_block(s.orelse, setname, after) if s.orelse else after
        if els is None:
            raise TranslationError(f"line {s.lineno}: if without else at the end of a method")
        return f"(if {tr_cond(s.test, setname)} then {then} else {els})"
    fail(s, "unsupported statement")


def parse_effector_consts(src):
    tree = ast.parse(src)
    vals = {}
    for node in tree.body:
        if isinstance(node, ast.ClassDef) and node.name == "Effector":
            for st in node.body:
                if isinstance(st, ast.Assign) and len(st.targets) == 1 and isinstance(st.targets[0], ast.Name) \
                        and isinstance(st.value, ast.Constant):
                    vals[st.targets[0].id] = st.value.value
    for k in EFF_NAMES:
        if k not in vals:
            raise TranslationError(f"Effector.{k} not found")
    if len({vals[k] for k in EFF_NAMES}) != 3:
        raise TranslationError("Effector.ALLOW/INDETERMINATE/DENY are not pairwise distinct")
    return vals


def parse_classes(src):
    tree = ast.parse(src)
    classes = {}
    for node in tree.body:
        if isinstance(node, (ast.Import, ast.ImportFrom)):
            continue
        if isinstance(node, ast.ClassDef):
            if not (len(node.bases) == 1 and isinstance(node.bases[0], ast.Name) and node.bases[0].id == "Effector"):
                fail(node, "effector class must derive from Effector only")
            methods = {}
            for st in strip_doc(node.body):
                if isinstance(st, ast.FunctionDef) and st.name in ("intermediate_effect", "final_effect"):
                    if len(st.args.args) != 2 or st.decorator_list:
                        fail(st, "unexpected signature")
                    setname = st.args.args[1].arg
                    methods[st.name] = tr_block(strip_doc(st.body), setname, None)
                else:
                    fail(st, "unexpected class member")
            for m in ("intermediate_effect", "final_effect"):
                if m not in methods:
                    raise TranslationError(f"class {node.name} lacks {m}")
            classes[node.name] = methods
            continue
        fail(node, "unexpected top-level statement in default_effectors.py")
    return classes


def parse_constants(src):
    tree = ast.parse(src)
    consts = {}
    for node in tree.body:
        if isinstance(node, ast.Assign) and len(node.targets) == 1 and isinstance(node.targets[0], ast.Name) \
                and isinstance(node.value, ast.Constant) and isinstance(node.value.value, str):
            consts[node.targets[0].id] = node.value.value
    return consts


def parse_init(src, consts, classes):
    tree = ast.parse(src)
    table = []      # (string, class)
    to_bool = None
    for node in tree.body:
        if isinstance(node, ast.FunctionDef) and node.name == "get_effector":
            arg = node.args.args[0].arg
            stmts = strip_doc(node.body)
            if len(stmts) != 1 or not isinstance(stmts[0], ast.If):
                fail(node, "get_effector must be a single if/elif chain")
            cur = stmts[0]
            while True:
                tests = cur.test.values if isinstance(cur.test, ast.BoolOp) and isinstance(cur.test.op, ast.Or) else [cur.test]
                if len(cur.body) != 1 or not isinstance(cur.body[0], ast.Return) or not isinstance(cur.body[0].value, ast.Call) \
                        or not isinstance(cur.body[0].value.func, ast.Name) or cur.body[0].value.args:
                    fail(cur, "branch must be `return ClassName()`")
                cls = cur.body[0].value.func.id
                if cls not in classes:
                    fail(cur, f"unknown effector class {cls}")
                for t in tests:
                    if not (isinstance(t, ast.Compare) and len(t.ops) == 1 and isinstance(t.ops[0], ast.Eq)
                            and isinstance(t.left, ast.Name) and t.left.id == arg):
                        fail(t, "test must be `expr == CONST`")
                    c = t.comparators[0]
                    if isinstance(c, ast.Name) and c.id in consts:
                        table.append((consts[c.id], cls))
                    elif isinstance(c, ast.Constant) and isinstance(c.value, str):
                        table.append((c.value, cls))
                    else:
                        fail(c, "unknown constant")
                if len(cur.orelse) == 1 and isinstance(cur.orelse[0], ast.If):
                    cur = cur.orelse[0]
                    continue
                if len(cur.orelse) == 1 and isinstance(cur.orelse[0], ast.Raise):
                    break
                fail(cur, "chain must end in `else: raise`")
        elif isinstance(node, ast.FunctionDef) and node.name == "effect_to_bool":
            arg = node.args.args[0].arg
            stmts = strip_doc(node.body)
            m = {}
            for st in stmts[:-1]:
                if not (isinstance(st, ast.If) and not st.orelse and isinstance(st.test, ast.Compare)
                        and isinstance(st.test.left, ast.Name) and st.test.left.id == arg
                        and len(st.test.ops) == 1 and isinstance(st.test.ops[0], ast.Eq)
                        and len(st.body) == 1 and isinstance(st.body[0], ast.Return)
                        and isinstance(st.body[0].value, ast.Constant) and isinstance(st.body[0].value.value, bool)):
                    fail(st, "effect_to_bool: unsupported statement")
                e = eff_attr(st.test.comparators[0])
                if e not in m:
                    m[e] = st.body[0].value.value
            if not isinstance(stmts[-1], ast.Raise):
                fail(stmts[-1], "effect_to_bool must end in raise")
            to_bool = m
        elif isinstance(node, (ast.Import, ast.ImportFrom)):
            continue
        else:
            fail(node, "unexpected top-level statement in effect/__init__.py")
    if not table or to_bool is None:
        raise TranslationError("get_effector / effect_to_bool not found")
    return table, to_bool


def coq_str(s):
    return "[" + "; ".join(str(ord(c)) for c in s) + "]%N"


def translate(repo: Path) -> str:
    eff = repo / "casbin" / "effect"
    parse_effector_consts((eff / "effector.py").read_text())
    classes = parse_classes((eff / "default_effectors.py").read_text())
    consts = parse_constants((repo / "casbin" / "constant" / "constants.py").read_text())
    table, to_bool = parse_init((eff / "__init__.py").read_text(), consts, classes)
    names = list(classes)
    out = []
    out.append("(* GENERATED by translators/effectors.py from casbin/effect/*.py — do not edit *)")
    out.append("From Coq Require Import List NArith Bool.")
    out.append("From PyCasbin Require Import Base Effect.")
    out.append("Import ListNotations.")
    out.append("")
    out.append("Inductive eclass := " + " | ".join("C_" + n for n in names) + ".")
    out.append("")
    for meth, fn in (("intermediate_effect", "intermediate_gen"), ("final_effect", "final_gen")):
        out.append(f"Definition {fn} (c : eclass) (s : effset) : eff :=")
        out.append("  match c with")
        for n in names:
            out.append(f"  | C_{n} => {classes[n][meth]}")
        out.append("  end.")
        out.append("")
    out.append("(* get_effector: first matching string wins *)")
    out.append("Definition effector_table : list (str * eclass) :=")
    out.append("  [ " + ";\n    ".join(f"({coq_str(s)}, C_{c})" for s, c in table) + " ].")
    out.append("")
    out.append("Definition effect_to_bool_gen (e : eff) : option bool :=")
    out.append("  match e with")
    for k, v in EFF_NAMES.items():
        if k in to_bool:
            out.append(f"  | {v} => Some {'true' if to_bool[k] else 'false'}")
        else:
            out.append(f"  | {v} => None")
    out.append("  end.")
    out.append("")
    out.append("(* the five documented effect expressions, as spelled in casbin/constant/constants.py *)")
    for k in ("ALLOW_OVERRIDE_EFFECT", "DENY_OVERRIDE_EFFECT", "ALLOW_AND_DENY_EFFECT", "PRIORITY_EFFECT",
              "SUBJECT_PRIORITY_EFFECT"):
        if k not in consts:
            raise TranslationError(f"constant {k} missing")
        out.append(f"Definition {k} : str := {coq_str(consts[k])}.")
    out.append("")
    return "\n".join(out)


def main():
    repo = Path(sys.argv[1] if len(sys.argv) > 1 else "/repo")
    dst = Path(sys.argv[2] if len(sys.argv) > 2 else Path(__file__).resolve().parent.parent / "coq" / "gen" / "EffectorsGen.v")
    try:
        text = translate(repo)
    except (TranslationError, SyntaxError, OSError, KeyError, IndexError, AttributeError) as e:
        print(f"TRANSLATION-FAILED effectors: {e}")
        sys.exit(2)
    if not dst.exists() or dst.read_text() != text:
        dst.parent.mkdir(parents=True, exist_ok=True)
        dst.write_text(text)
        print(f"regenerated {dst}")
    sys.exit(0)


if __name__ == "__main__":
    main()
