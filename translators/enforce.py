#!/usr/bin/env python3
"""Fail-closed translator: CoreEnforcer.enforce_ex (casbin/core_enforcer.py)  -->  coq/gen/EnforceGen.v   (C01, C08)

Renders the DECISION KERNEL of enforce_ex as a program of the language of coq/theories/EnfLang.v: disabled shortcut, model /
request-size checks, the loop over the rules (size check, classification of the matcher's value, the rule's effect, the effect
set, the effector's intermediate verdict, explain index, continue / break), the empty-policy branch, final effect, explanation.

ABSTRACTED, i.e. skipped (the value of `expression.eval(parameters)` per rule is an input of the interpreter, as the outcome
list is an input of Enforce.v): a statement is skipped iff it is
  * a docstring, or a call of self.logger.*;
  * an assignment all of whose targets are names in PLUMBING (or subscripts of such names);
  * an `if` / `for` all of whose nested statements are skipped by these rules.
Everything else must be in the accepted subset below, else the translation aborts (exit 2, `TRANSLATION-FAILED`).

Accepted statements: <local> = <expr> | policy_effects.add(Effector.X) | if / elif / else | continue | break |
  for i, pvals in enumerate(self.model["p"][ptype].policy) | raise RuntimeError("<known message>") |
  return [True, []] | return result, explain_rule
Accepted expressions: locals, integers, True/False, set(), [], not, and, == != < on integers / effects / strings,
  not self.enabled, "m" not in self.model.keys(), "m" not in self.model["m"].keys(), len(r_tokens) != len(rvals),
  len(p_tokens) != len(pvals), exp_has_eval, len(self.model["p"][ptype].policy), expression.eval(parameters),
  isinstance(x, bool|float), p_eft_key in parameters.keys(), parameters[p_eft_key], "allow" / "deny" literals, Effector.X,
  effector.intermediate_effect(s), effector.final_effect(s), effect_to_bool(e), self.model["p"][ptype].policy[i]
"""
import ast
import sys
from pathlib import Path

PLUMBING = {"rtype", "ptype", "etype", "mtype", "functions", "enforce_context", "rvals", "effector", "r_tokens", "p_tokens",
            "exp_string", "exp_has_eval", "expression", "r_parameters", "p_parameters", "parameters", "rule_names", "rules",
            "exp_with_rule", "p_eft_key", "req_str"}
RAISES = [("invalid request size", 1), ("invalid policy size", 2), ("matcher result should be", 3), ("model is undefined", 16),
          ("please make sure rule exists", 13)]
EFFS = {"ALLOW": "Allow", "DENY": "Deny", "INDETERMINATE": "Indet"}


class TranslationError(Exception):
    pass


def fail(node, msg):
    raise TranslationError(f"line {getattr(node, 'lineno', '?')}: {msg}: {ast.dump(node)[:200] if isinstance(node, ast.AST) else node}")


def is_name(n, s):
    return isinstance(n, ast.Name) and n.id == s


def dump(n):
    return ast.dump(n)


POLICY = ast.dump(ast.parse('self.model["p"][ptype].policy', mode="eval").body)
M_KEYS = ast.dump(ast.parse('self.model.keys()', mode="eval").body)
MM_KEYS = ast.dump(ast.parse('self.model["m"].keys()', mode="eval").body)
PARAM_KEYS = ast.dump(ast.parse('parameters.keys()', mode="eval").body)
EVAL = ast.dump(ast.parse('expression.eval(parameters)', mode="eval").body)
EFT_AT = ast.dump(ast.parse('parameters[p_eft_key]', mode="eval").body)


def len_of(n, name):
    return isinstance(n, ast.Call) and is_name(n.func, "len") and len(n.args) == 1 and is_name(n.args[0], name) and not n.keywords


class Tr:
    def __init__(self):
        self.vars = {}
        self.locals = set()
        self.skipped = []

    def vid(self, name):
        if name not in self.vars:
            self.vars[name] = len(self.vars) + 1
        return f"ev_{name}"

    # ---------------------------------------------------------------- skipping
    def skippable(self, s):
        if isinstance(s, ast.Expr):
            v = s.value
            if isinstance(v, ast.Constant) and isinstance(v.value, str):
                return True
            if isinstance(v, ast.Call) and isinstance(v.func, ast.Attribute) and isinstance(v.func.value, ast.Attribute) \
                    and is_name(v.func.value.value, "self") and v.func.value.attr == "logger":
                return True
            return False
        if isinstance(s, ast.Assign):
            for t in s.targets:
                base = t
                while isinstance(base, ast.Subscript):
                    base = base.value
                if not (isinstance(base, ast.Name) and base.id in PLUMBING):
                    return False
            return True
        if isinstance(s, ast.If):
            return all(self.skippable(x) for x in s.body + s.orelse)
        if isinstance(s, ast.For):
            return not s.orelse and all(self.skippable(x) for x in s.body)
        return False

    # ---------------------------------------------------------------- expressions
    def ex(self, n):
        d = dump(n)
        if isinstance(n, ast.Name):
            if n.id == "exp_has_eval":
                return "EHasEval"
            if n.id not in self.locals:
                fail(n, f"unknown name '{n.id}'")
            return f"EVar {self.vid(n.id)}"
        if isinstance(n, ast.Constant):
            v = n.value
            if isinstance(v, bool):
                return f"EBool {'true' if v else 'false'}"
            if isinstance(v, int):
                return f"EInt ({v})%Z"
            if v == "allow":
                return "EStrLit (Some EAllow)"
            if v == "deny":
                return "EStrLit (Some EDeny)"
            fail(n, "constant outside the subset")
        if isinstance(n, ast.UnaryOp) and isinstance(n.op, ast.USub) and isinstance(n.operand, ast.Constant) and isinstance(n.operand.value, int):
            return f"EInt (-{n.operand.value})%Z"
        if isinstance(n, ast.UnaryOp) and isinstance(n.op, ast.Not):
            if isinstance(n.operand, ast.Attribute) and is_name(n.operand.value, "self") and n.operand.attr == "enabled":
                return "ENot EEnabled"
            return f"ENot ({self.ex(n.operand)})"
        if isinstance(n, ast.BoolOp) and isinstance(n.op, ast.And):
            out = self.ex(n.values[-1])
            for v in reversed(n.values[:-1]):
                out = f"EAnd ({self.ex(v)}) ({out})"
            return out
        if isinstance(n, ast.List) and not n.elts:
            return "EEmptyList"
        if isinstance(n, ast.Call):
            if is_name(n.func, "set") and not n.args and not n.keywords:
                return "EEmptySet"
            if d == EVAL:
                return "EEvalRule"
            if is_name(n.func, "len") and len(n.args) == 1 and dump(n.args[0]) == POLICY:
                return "EPolicyLen"
            if is_name(n.func, "isinstance") and len(n.args) == 2 and isinstance(n.args[1], ast.Name) and n.args[1].id in ("bool", "float"):
                return f"{'EIsBool' if n.args[1].id == 'bool' else 'EIsFloat'} ({self.ex(n.args[0])})"
            if is_name(n.func, "effect_to_bool") and len(n.args) == 1:
                return f"EToBool ({self.ex(n.args[0])})"
            if isinstance(n.func, ast.Attribute) and is_name(n.func.value, "effector") and len(n.args) == 1 and not n.keywords \
                    and n.func.attr in ("intermediate_effect", "final_effect"):
                return f"{'EIntermediate' if n.func.attr == 'intermediate_effect' else 'EFinal'} ({self.ex(n.args[0])})"
            fail(n, "call outside the subset")
        if isinstance(n, ast.Attribute) and is_name(n.value, "Effector") and n.attr in EFFS:
            return f"EEffConst {EFFS[n.attr]}"
        if isinstance(n, ast.Subscript):
            if d == EFT_AT:
                return "EEft"
            if dump(n.value) == POLICY:
                return f"EPolicyAt ({self.ex(n.slice)})"
            fail(n, "subscript outside the subset")
        if isinstance(n, ast.Compare) and len(n.ops) == 1:
            op, a, b = n.ops[0], n.left, n.comparators[0]
            if isinstance(op, ast.NotIn) and isinstance(a, ast.Constant) and a.value == "m" and dump(b) in (M_KEYS, MM_KEYS):
                return "EModelUndefined"
            if isinstance(op, ast.In) and is_name(a, "p_eft_key") and dump(b) == PARAM_KEYS:
                return "EHasEft"
            if isinstance(op, ast.NotEq) and len_of(a, "r_tokens") and len_of(b, "rvals"):
                return "EArityMismatch"
            if isinstance(op, ast.NotEq) and len_of(a, "p_tokens") and len_of(b, "pvals"):
                return "ESizeMismatch"
            k = {ast.Eq: "KEq", ast.NotEq: "KNe", ast.Lt: "KLt"}.get(type(op))
            if k is None:
                fail(n, "comparison operator")
            return f"ECmp {k} ({self.ex(a)}) ({self.ex(b)})"
        fail(n, "expression outside the subset")

    # ---------------------------------------------------------------- statements
    def block(self, stmts):
        out = []
        for s in stmts:
            if self.skippable(s):
                self.skipped.append(getattr(s, "lineno", 0))
                continue
            out.append(self.st(s))
        return "[" + "; ".join(out) + "]"

    def st(self, s):
        if isinstance(s, ast.Continue):
            return "SContinue"
        if isinstance(s, ast.Break):
            return "SBreak"
        if isinstance(s, ast.Raise):
            e = s.exc
            if isinstance(e, ast.Call) and is_name(e.func, "RuntimeError") and len(e.args) == 1 and isinstance(e.args[0], ast.Constant):
                for txt, code in RAISES:
                    if txt in str(e.args[0].value):
                        return f"SRaise {code}"
            fail(s, "raise outside the subset")
        if isinstance(s, ast.Return):
            v = s.value
            if isinstance(v, (ast.List, ast.Tuple)) and len(v.elts) == 2:
                return f"SReturn (ETuple ({self.ex(v.elts[0])}) ({self.ex(v.elts[1])}))"
            fail(s, "return form")
        if isinstance(s, ast.Assign) and len(s.targets) == 1 and isinstance(s.targets[0], ast.Name):
            name = s.targets[0].id
            e = self.ex(s.value)
            self.locals.add(name)
            return f"SAssign {self.vid(name)} ({e})"
        if isinstance(s, ast.Expr) and isinstance(s.value, ast.Call):
            c = s.value
            if isinstance(c.func, ast.Attribute) and c.func.attr == "add" and isinstance(c.func.value, ast.Name) \
                    and c.func.value.id in self.locals and len(c.args) == 1:
                return f"SSetAdd {self.vid(c.func.value.id)} ({self.ex(c.args[0])})"
            fail(s, "call statement outside the subset")
        if isinstance(s, ast.If):
            return f"SIf ({self.ex(s.test)}) {self.block(s.body)} {self.block(s.orelse)}"
        if isinstance(s, ast.For):
            it, t = s.iter, s.target
            if not s.orelse and isinstance(it, ast.Call) and is_name(it.func, "enumerate") and len(it.args) == 1 and dump(it.args[0]) == POLICY \
                    and isinstance(t, ast.Tuple) and len(t.elts) == 2 and isinstance(t.elts[0], ast.Name) and is_name(t.elts[1], "pvals"):
                self.locals.add(t.elts[0].id)
                return f"SForRules {self.vid(t.elts[0].id)} {self.block(s.body)}"
            fail(s, "for statement outside the subset")
        fail(s, "statement outside the subset")


def translate(src):
    mod = ast.parse(src)
    cls = [n for n in mod.body if isinstance(n, ast.ClassDef) and n.name == "CoreEnforcer"]
    if len(cls) != 1:
        fail(mod, "class CoreEnforcer expected")
    fns = [n for n in cls[0].body if isinstance(n, ast.FunctionDef) and n.name == "enforce_ex"]
    if len(fns) != 1:
        fail(cls[0], "exactly one enforce_ex expected")
    fn = fns[0]
    a = fn.args
    if fn.decorator_list or [x.arg for x in a.args] != ["self"] or not a.vararg or a.vararg.arg != "rvals" or a.kwarg or a.kwonlyargs:
        fail(fn, "signature must be enforce_ex(self, *rvals)")
    # enforce() must be enforce_ex()[0]
    en = [n for n in cls[0].body if isinstance(n, ast.FunctionDef) and n.name == "enforce"]
    if len(en) != 1:
        fail(cls[0], "exactly one enforce expected")
    body = [x for x in en[0].body if not (isinstance(x, ast.Expr) and isinstance(x.value, ast.Constant))]
    want = ast.dump(ast.parse("result, _ = self.enforce_ex(*rvals)\nreturn result").body[0]), ast.dump(ast.parse("result, _ = self.enforce_ex(*rvals)\nreturn result").body[1])
    if len(body) != 2 or (ast.dump(body[0]), ast.dump(body[1])) != want:
        fail(en[0], "enforce must be `result, _ = self.enforce_ex(*rvals); return result`")
    tr = Tr()
    return tr, tr.block(fn.body)


def emit(tr, body):
    L = ["(* GENERATED by translators/enforce.py from casbin/core_enforcer.py (CoreEnforcer.enforce_ex) — do not edit *)",
         "From Coq Require Import List NArith ZArith Bool.", "From PyCasbin Require Import Base Effect EnfLang.", "Import ListNotations.",
         "Local Open Scope N_scope.", "", "(* local variables *)"]
    for name, k in tr.vars.items():
        L.append(f"Definition ev_{name} : N := {k}.")
    L += ["", f"(* statements skipped as matcher plumbing / logging: source lines {sorted(set(tr.skipped))} *)",
          f"Definition enforce_kernel_locals : list N := [{'; '.join('ev_' + n for n in tr.vars)}].", "",
          "Definition enforce_kernel_gen : list est :=", f"  {body}."]
    return "\n".join(L) + "\n"


def main():
    repo = Path(sys.argv[1] if len(sys.argv) > 1 else "/repo")
    out = Path(sys.argv[2]) if len(sys.argv) > 2 else Path(__file__).resolve().parent.parent / "coq" / "gen" / "EnforceGen.v"
    try:
        tr, body = translate((repo / "casbin" / "core_enforcer.py").read_text())
    except (TranslationError, SyntaxError, OSError, KeyError, IndexError, AttributeError) as e:
        print(f"TRANSLATION-FAILED core_enforcer.py: {e}")
        sys.exit(2)
    text = emit(tr, body)
    if not out.exists() or out.read_text() != text:
        out.write_text(text)
    print(f"translated enforce_ex -> {out}")


if __name__ == "__main__":
    main()
