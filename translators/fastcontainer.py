#!/usr/bin/env python3
"""Fail-closed translator: the container methods of FastPolicy (casbin/model/policy_fast.py: __contains__, append, remove,
__get_policy; __init__, __iter__, __len__ and in_cache compared with their recognised bodies)  -->  coq/gen/FastContGen.v   (C19)

Every statement must be, as a syntax tree, one of the recognised steps (see coq/theories/FContLang.v for what each means);
anything else aborts (exit 2, `TRANSLATION-FAILED`).
"""
import ast
import sys
from pathlib import Path


class TranslationError(Exception):
    pass


def fail(node, msg):
    raise TranslationError(f"line {getattr(node, 'lineno', '?')}: {msg}: {ast.dump(node)[:200] if isinstance(node, ast.AST) else node}")


def D(src):
    return ast.dump(ast.parse(src).body[0])


def E(src):
    return ast.dump(ast.parse(src, mode="eval").body)


def nodoc(stmts):
    return [s for s in stmts if not (isinstance(s, ast.Expr) and isinstance(s.value, ast.Constant) and isinstance(s.value.value, str))]


def strip(fn):
    fn = ast.parse(ast.unparse(fn)).body[0]
    fn.returns = None
    for a in fn.args.args + fn.args.kwonlyargs + ([fn.args.vararg] if fn.args.vararg else []):
        a.annotation = None
    return fn


SIMPLE = {
    "__contains__": {D("return False"): "CReturnBool false", D("keys = [item[x] for x in self._cache_key_order]"): "CKeys",
                     D("exists = in_cache(self._cache, keys)"): "CLookup", D("return tuple(item) in exists"): "CReturnIn"},
    "remove": {D("keys = [policy[x] for x in self._cache_key_order]"): "CKeys", D("exists = in_cache(self._cache, keys)"): "CLookup",
               D("return True"): "CReturnBool true", D("exists.remove(tuple(policy))"): "CRemoveFromExists"},
    "append": {D("cache = self._cache"): "CCursorRoot", D("keys = [item[x] for x in self._cache_key_order]"): "CKeys",
               D("cache[key] = dict()"): "CNewDict", D("cache = cache[key]"): "CDescend", D("cache[keys[-1]] = set()"): "CNewSet",
               D("cache[keys[-1]].add(tuple(item))"): "CAddToBucket"},
    "_FastPolicy__get_policy": {D("return (list(x) for x in self._current_filter)"): "CReturnFilterList",
                                D("return (list(v2) for v in self._cache.values() for v1 in v.values() for v2 in v1)"): "CReturnAllList"},
}
IFS = {E("not isinstance(item, (list, tuple)) or any((x >= len(item) for x in self._cache_key_order))"): "CIfNotSeqOrKeyBeyond",
       E("not exists"): "CIfNotExists", E("key not in cache"): "CIfKeyMissing", E("keys[-1] not in cache"): "CIfLastMissing"}
IF_FILTER = E("self._current_filter is not None")
FOR_KEYS = (E("key"), E("keys[:-1]"))
SIGS = {"__contains__": ["self", "item"], "remove": ["self", "policy"], "append": ["self", "item"], "_FastPolicy__get_policy": ["self"]}
SAME = {
    "__init__": "def __init__(self, cache_key_order):\n    self._cache = {}\n    self._current_filter = None\n    self._cache_key_order = cache_key_order\n",
    "__iter__": "def __iter__(self):\n    yield from self.__get_policy()\n",
    "__len__": "def __len__(self):\n    return len(list(self.__get_policy()))\n",
}
IN_CACHE = '''def in_cache(cache, keys):
    if keys[0] in cache:
        if len(keys) > 1:
            return in_cache(cache[keys[-0]], keys[1:])
        return cast(Set[Sequence[str]], cache[keys[0]])
    else:
        return None
'''


def target(t):
    return ast.dump(ast.parse(ast.unparse(t), mode="eval").body)


def block(stmts, table):
    out = []
    for s in nodoc(stmts):
        d = ast.dump(s)
        if d in table:
            out.append(table[d])
        elif isinstance(s, ast.If) and not s.orelse and ast.dump(s.test) in IFS:
            out.append(f"{IFS[ast.dump(s.test)]} {block(s.body, table)}")
        elif isinstance(s, ast.If) and s.orelse and ast.dump(s.test) == IF_FILTER:
            out.append(f"CIfFilterSet {block(s.body, table)} {block(s.orelse, table)}")
        elif isinstance(s, ast.For) and not s.orelse and (target(s.target), ast.dump(s.iter)) == FOR_KEYS:
            out.append(f"CForKeysButLast {block(s.body, table)}")
        else:
            fail(s, "statement outside the recognised steps")
    return "[" + "; ".join(out) + "]"


def same(fn, src, what):
    w = ast.parse(src).body[0]
    f = strip(fn)
    if f.decorator_list or [ast.dump(x) for x in nodoc(f.body)] != [ast.dump(x) for x in nodoc(w.body)] or ast.dump(f.args) != ast.dump(w.args):
        fail(fn, f"{what} is not the recognised function")


def one(body, name, kind=ast.FunctionDef):
    xs = [n for n in body if isinstance(n, kind) and n.name == name]
    if len(xs) != 1:
        fail(body[0] if body else None, f"exactly one {name}")
    return xs[0]


def main():
    repo = Path(sys.argv[1] if len(sys.argv) > 1 else "/repo")
    out = Path(sys.argv[2]) if len(sys.argv) > 2 else Path(__file__).resolve().parent.parent / "coq" / "gen" / "FastContGen.v"
    try:
        mod = ast.parse((repo / "casbin" / "model" / "policy_fast.py").read_text())
        same(one(mod.body, "in_cache"), IN_CACHE, "in_cache")
        fp = one(mod.body, "FastPolicy", ast.ClassDef)
        for name, src in SAME.items():
            same(one(fp.body, name), src.replace("self.__get_policy", "self.__get_policy"), f"FastPolicy.{name}")
        progs = []
        for name, params in SIGS.items():
            pyname = "__get_policy" if name == "_FastPolicy__get_policy" else name
            fn = strip(one(fp.body, pyname))
            a = fn.args
            if fn.decorator_list or [x.arg for x in a.args] != params or a.vararg or a.kwarg or a.kwonlyargs or a.defaults:
                fail(fn, f"signature of {pyname}")
            progs.append((pyname.strip("_"), block(fn.body, SIMPLE[name])))
    except (TranslationError, SyntaxError, OSError, KeyError, IndexError, AttributeError) as e:
        print(f"TRANSLATION-FAILED policy_fast.py FastPolicy container methods: {e}")
        sys.exit(2)
    L = ["(* GENERATED by translators/fastcontainer.py from casbin/model/policy_fast.py — do not edit *)",
         "From Coq Require Import List NArith Bool.", "From PyCasbin Require Import Base FContLang.", "Import ListNotations.", ""]
    for name, body in progs:
        L += [f"Definition fp_{name}_gen : list cstmt :=", f"  {body}.", ""]
    text = "\n".join(L)
    if not out.exists() or out.read_text() != text:
        out.write_text(text)
    print(f"translated {len(progs)} FastPolicy methods -> {out}")


if __name__ == "__main__":
    main()
