#!/usr/bin/env python3
"""Fail-closed translator: FastEnforcer.enforce (casbin/fast_enforcer.py) and the filter around it
   (casbin/model/policy_fast.py: fast_policy_filter, FastPolicy.apply_filter, clear_filter, in_cache)  -->  coq/gen/FastGen.v   (C19)

Every statement must be, as a syntax tree, one of the recognised steps (see coq/theories/FastLang.v for what each means);
anything else aborts (exit 2, `TRANSLATION-FAILED`).
"""
import ast
import sys
from pathlib import Path


class TranslationError(Exception):
    pass


def fail(node, msg):
    raise TranslationError(f"line {getattr(node, 'lineno', '?')}: {msg}: {ast.dump(node)[:200] if isinstance(node, ast.AST) else node}")


def D(src):
    return ast.dump(ast.parse(src).body[0])


def nodoc(stmts):
    return [s for s in stmts if not (isinstance(s, ast.Expr) and isinstance(s.value, ast.Constant) and isinstance(s.value.value, str))]


TEST = ast.dump(ast.parse("self._cache_key_order is None or any(x >= len(rvals) for x in self._cache_key_order)", mode="eval").body)
WITH_ITEM = ast.dump(ast.parse('fast_policy_filter(self.model.model["p"]["p"].policy, *keys)', mode="eval").body)
SIMPLE = {D("result, _ = self.enforce_ex(*rvals)"): "HEnforceEx",
          D("keys = [rvals[x] for x in self._cache_key_order]"): "HKeys",
          D("return result"): "HReturnResult"}
FILTER = '''def fast_policy_filter(policy, *keys):
    try:
        policy.apply_filter(*keys)
        yield
    finally:
        policy.clear_filter()
'''
APPLY = {D("value = in_cache(self._cache, keys)"): "AFLookup", D("self._current_filter = value or set()"): "AFSetFilter"}
CLEAR = '''def clear_filter(self):
    self._current_filter = None
'''
IN_CACHE = '''def in_cache(cache, keys):
    if keys[0] in cache:
        if len(keys) > 1:
            return in_cache(cache[keys[-0]], keys[1:])
        return cast(Set[Sequence[str]], cache[keys[0]])
    else:
        return None
'''


def block(stmts):
    out = []
    for s in nodoc(stmts):
        d = ast.dump(s)
        if d in SIMPLE:
            out.append(SIMPLE[d])
        elif isinstance(s, ast.If) and ast.dump(s.test) == TEST:
            out.append(f"HIfKeyBeyondRequest {block(s.body)} {block(s.orelse)}")
        elif isinstance(s, ast.With) and len(s.items) == 1 and s.items[0].optional_vars is None and ast.dump(s.items[0].context_expr) == WITH_ITEM:
            out.append(f"HWithFilter {block(s.body)}")
        else:
            fail(s, "statement outside the recognised steps")
    return "[" + "; ".join(out) + "]"


def strip_annotations(fn):
    fn = ast.parse(ast.unparse(fn)).body[0]
    fn.returns = None
    for a in fn.args.args + fn.args.kwonlyargs + ([fn.args.vararg] if fn.args.vararg else []):
        a.annotation = None
    return fn


def same(fn, src, what, keep_decorators=False):
    w = ast.parse(src).body[0]
    f = strip_annotations(fn)
    if [ast.dump(x) for x in nodoc(f.body)] != [ast.dump(x) for x in nodoc(w.body)] or ast.dump(f.args) != ast.dump(w.args):
        fail(fn, f"{what} is not the recognised function")


def find(body, name, kind=ast.FunctionDef):
    xs = [n for n in body if isinstance(n, kind) and n.name == name]
    if len(xs) != 1:
        fail(body[0] if body else None, f"exactly one {name}")
    return xs[0]


def translate(repo):
    emod = ast.parse((repo / "casbin" / "fast_enforcer.py").read_text())
    pmod = ast.parse((repo / "casbin" / "model" / "policy_fast.py").read_text())
    fe = find(emod.body, "FastEnforcer", ast.ClassDef)
    enforce = find(fe.body, "enforce")
    a = enforce.args
    if enforce.decorator_list or [x.arg for x in a.args] != ["self"] or not a.vararg or a.vararg.arg != "rvals" or a.kwarg or a.kwonlyargs or a.defaults:
        fail(enforce, "signature must be enforce(self, *rvals)")
    fpf = find(pmod.body, "fast_policy_filter")
    if [ast.dump(d) for d in fpf.decorator_list] != [ast.dump(ast.parse("contextmanager", mode="eval").body)]:
        fail(fpf, "fast_policy_filter must be decorated with contextmanager only")
    same(fpf, FILTER, "fast_policy_filter")
    same(find(pmod.body, "in_cache"), IN_CACHE, "in_cache")
    fp = find(pmod.body, "FastPolicy", ast.ClassDef)
    same(find(fp.body, "clear_filter"), CLEAR, "FastPolicy.clear_filter")
    ap = strip_annotations(find(fp.body, "apply_filter"))
    if [x.arg for x in ap.args.args] != ["self"] or not ap.args.vararg or ap.args.vararg.arg != "keys":
        fail(ap, "signature must be apply_filter(self, *keys)")
    apply_body = []
    for s in nodoc(ap.body):
        d = ast.dump(s)
        if d not in APPLY:
            fail(s, "apply_filter: statement outside the recognised steps")
        apply_body.append(APPLY[d])
    return block(enforce.body), "[" + "; ".join(apply_body) + "]"


def main():
    repo = Path(sys.argv[1] if len(sys.argv) > 1 else "/repo")
    out = Path(sys.argv[2]) if len(sys.argv) > 2 else Path(__file__).resolve().parent.parent / "coq" / "gen" / "FastGen.v"
    try:
        enforce, apply_body = translate(repo)
    except (TranslationError, SyntaxError, OSError, KeyError, IndexError, AttributeError) as e:
        print(f"TRANSLATION-FAILED FastEnforcer.enforce / policy_fast.py: {e}")
        sys.exit(2)
    text = "\n".join(["(* GENERATED by translators/fastenforce.py from casbin/fast_enforcer.py and casbin/model/policy_fast.py — do not edit *)",
                      "From Coq Require Import List NArith Bool.", "From PyCasbin Require Import Base FastLang.", "Import ListNotations.", "",
                      "Definition fast_enforce_gen : list hstmt :=", f"  {enforce}.", "",
                      "Definition apply_filter_gen : list afstmt :=", f"  {apply_body}.", ""])
    if not out.exists() or out.read_text() != text:
        out.write_text(text)
    print(f"translated FastEnforcer.enforce and the filter steps -> {out}")


if __name__ == "__main__":
    main()
