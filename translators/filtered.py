#!/usr/bin/env python3
"""Fail-closed translator: the control skeletons behind C12  -->  coq/gen/FilteredGen.v

  casbin/persist/adapters/filtered_file_adapter.py   FilteredFileAdapter.load_policy, load_filtered_policy, save_policy;
                                                     load_filtered_policy_file must be the recognised loop
  casbin/core_enforcer.py                            CoreEnforcer.load_filtered_policy, load_increment_filtered_policy, save_policy;
                                                     is_filtered must be the recognised expression

Each statement must be, as a syntax tree, one of the recognised steps (see coq/theories/FlagLang.v for what each means);
anything else aborts (exit 2, `TRANSLATION-FAILED`).
"""
import ast
import sys
from pathlib import Path


class TranslationError(Exception):
    pass


def fail(node, msg):
    raise TranslationError(f"line {getattr(node, 'lineno', '?')}: {msg}: {ast.dump(node)[:200] if isinstance(node, ast.AST) else node}")


def D(src):
    return ast.dump(ast.parse(src).body[0])


CHECK_FILE = 'if not os.path.isfile(self._file_path):\n    raise RuntimeError("invalid file path, file path cannot be empty")'
TRY = '''try:
    filter_value = [filter.__dict__["P"]] + [filter.__dict__["G"]]
    is_empty_filter = all(not f for f in filter_value) or all(
        all(not x.strip() for x in f) if f else True for f in filter_value
    )
    if is_empty_filter:
        return self.load_policy(model)
except:
    raise RuntimeError("invalid filter type")'''
ADAPTER = {
    D(CHECK_FILE): "GCheckFile",
    D("self.filtered = False"): "GSetFlag false",
    D("self.filtered = True"): "GSetFlag true",
    D("self._load_policy_file(model)"): "GLoadAll",
    D("if filter == None:\n    return self.load_policy(model)"): "GIfNoneFilter",
    D(TRY): "GTryEmpty",
    D("self.load_filtered_policy_file(model, filter_value, persist.load_policy_line)"): "GLoadKept",
    D('if self.filtered:\n    raise RuntimeError("cannot save a filtered policy")'): "GRaiseIfFlag",
    D("self._save_policy_file(model)"): "GSaveAll",
}
NEEDS = 'if not hasattr(self.adapter, "is_filtered"):\n    raise ValueError("filtered policies are not supported by this adapter")'
WATCHER = '''if self.watcher:
    if callable(getattr(self.watcher, "update_for_save_policy", None)):
        self.watcher.update_for_save_policy(self.model)
    else:
        self.watcher.update()'''
ENFORCER = {
    D("self.model.clear_policy()"): "GClearPolicy",
    D(NEEDS): "GNeedsFilteredAdapter",
    D("self.adapter.load_filtered_policy(self.model, filter)"): "GAdapterLoadFiltered",
    D("self.model.sort_policies_by_subject_hierarchy()"): "GSort",
    D("self.model.sort_policies_by_priority()"): "GSort",
    D("self.model.print_policy()"): "GPrint",
    D("self.init_rm_map()"): "GInitRmMap",
    D("if self.auto_build_role_links:\n    self.build_role_links()"): "GIfAutoBuild [GBuildRoleLinks]",
    D('if self.is_filtered():\n    raise RuntimeError("cannot save a filtered policy")'): "GRaiseIfFiltered",
    D("self.adapter.save_policy(self.model)"): "GAdapterSave",
    D(WATCHER): "GWatcher",
}
FILE_LOOP = '''def load_filtered_policy_file(self, model, filter, handler):
    with open(self._file_path, "rb") as file:
        for line in file:
            line = line.decode().strip()
            if not line or line == "\\n":
                continue

            if filter_line(line, filter):
                continue

            handler(line, model)
'''
IS_FILTERED = '''def is_filtered(self):
    return hasattr(self.adapter, "is_filtered") and self.adapter.is_filtered()
'''
AD_IS_FILTERED = '''def is_filtered(self):
    return self.filtered
'''


def nodoc(stmts):
    return [s for s in stmts if not (isinstance(s, ast.Expr) and isinstance(s.value, ast.Constant) and isinstance(s.value.value, str))]


def method(cls, name, params):
    fns = [n for n in cls.body if isinstance(n, ast.FunctionDef) and n.name == name]
    if len(fns) != 1:
        fail(cls, f"exactly one {cls.name}.{name}")
    fn = fns[0]
    a = fn.args
    if fn.decorator_list or [x.arg for x in a.args] != params or a.vararg or a.kwarg or a.defaults or a.kwonlyargs:
        fail(fn, f"signature must be {name}({', '.join(params)})")
    return fn


def block(stmts, table):
    out = []
    for s in nodoc(stmts):
        d = ast.dump(s)
        if d not in table:
            fail(s, "statement outside the recognised steps")
        out.append(table[d])
    return "[" + "; ".join(out) + "]"


def same_body(fn, src, what):
    want = [ast.dump(x) for x in nodoc(ast.parse(src).body[0].body)]
    got = [ast.dump(x) for x in nodoc(fn.body)]
    if got != want:
        fail(fn, f"{what} is not the recognised body")


def klass(mod, name):
    cs = [n for n in mod.body if isinstance(n, ast.ClassDef) and n.name == name]
    if len(cs) != 1:
        fail(mod, f"class {name}")
    return cs[0]


def translate(repo):
    amod = ast.parse((repo / "casbin" / "persist" / "adapters" / "filtered_file_adapter.py").read_text())
    emod = ast.parse((repo / "casbin" / "core_enforcer.py").read_text())
    ad, en = klass(amod, "FilteredFileAdapter"), klass(emod, "CoreEnforcer")
    same_body(method(ad, "load_filtered_policy_file", ["self", "model", "filter", "handler"]), FILE_LOOP, "FilteredFileAdapter.load_filtered_policy_file")
    same_body(method(ad, "is_filtered", ["self"]), AD_IS_FILTERED, "FilteredFileAdapter.is_filtered")
    same_body(method(en, "is_filtered", ["self"]), IS_FILTERED, "CoreEnforcer.is_filtered")
    out = [("ad_load_policy", block(method(ad, "load_policy", ["self", "model"]).body, ADAPTER)),
           ("ad_load_filtered_policy", block(method(ad, "load_filtered_policy", ["self", "model", "filter"]).body, ADAPTER)),
           ("ad_save_policy", block(method(ad, "save_policy", ["self", "model"]).body, ADAPTER)),
           ("en_load_filtered_policy", block(method(en, "load_filtered_policy", ["self", "filter"]).body, ENFORCER)),
           ("en_load_increment_filtered_policy", block(method(en, "load_increment_filtered_policy", ["self", "filter"]).body, ENFORCER)),
           ("en_save_policy", block(method(en, "save_policy", ["self"]).body, ENFORCER))]
    return out


def main():
    repo = Path(sys.argv[1] if len(sys.argv) > 1 else "/repo")
    out = Path(sys.argv[2]) if len(sys.argv) > 2 else Path(__file__).resolve().parent.parent / "coq" / "gen" / "FilteredGen.v"
    try:
        progs = translate(repo)
    except (TranslationError, SyntaxError, OSError, KeyError, IndexError, AttributeError) as e:
        print(f"TRANSLATION-FAILED filtered loading skeletons: {e}")
        sys.exit(2)
    L = ["(* GENERATED by translators/filtered.py from casbin/persist/adapters/filtered_file_adapter.py and casbin/core_enforcer.py — do not edit *)",
         "From Coq Require Import List NArith Bool.", "From PyCasbin Require Import Base FlagLang.", "Import ListNotations.", ""]
    for name, body in progs:
        L += [f"Definition {name}_gen : list gstmt :=", f"  {body}.", ""]
    text = "\n".join(L)
    if not out.exists() or out.read_text() != text:
        out.write_text(text)
    print(f"translated the filtered-loading skeletons (adapter: 3 methods, enforcer: 3 methods) -> {out}")


if __name__ == "__main__":
    main()
