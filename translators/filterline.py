#!/usr/bin/env python3
"""Fail-closed translator: casbin/persist/adapters/filtered_file_adapter.py  -->  coq/gen/FilterGen.v   (C12)

Renders filter_line, filter_words and the `is_empty_filter` expression of FilteredFileAdapter.load_filtered_policy as
programs of the language of coq/theories/FiltLang.v.  Purely syntactic; the meaning is the interpreter in FiltLang.v.
Anything outside the accepted subset aborts (exit 2, `TRANSLATION-FAILED`).

Accepted
  def f(<params>):  no decorators / defaults / *args
  statements:  "docstring" | x = <expr> | if / elif / else | for i, v in enumerate(<expr>) | break | return <expr>
  expressions: locals, "text", [], True / False, small ints, e == None, e.split(","), len(e), ==, !=, <, +, e[<expr>],
               e.strip(), a if c else b, all(<c> for x in <expr>), filter_words(<exprs>),
               not / and / or  (only where their TRUTH VALUE is used: tests, operands of not/and/or, all() elements, or
               between operands that are syntactically boolean)
  load_filtered_policy: inside its try block, exactly
               filter_value = [filter.__dict__["P"]] + [filter.__dict__["G"]]
               is_empty_filter = <expr over filter_value>
               if is_empty_filter: return self.load_policy(model)
"""
import ast
import sys
from pathlib import Path

FUNCS = ["filter_words", "filter_line"]          # callee first
PREFIX = {"filter_words": "fw", "filter_line": "fl", "is_empty_filter": "fe"}


class TranslationError(Exception):
    pass


def fail(node, msg):
    raise TranslationError(f"line {getattr(node, 'lineno', '?')}: {msg}: {ast.dump(node)[:200] if isinstance(node, ast.AST) else node}")


def is_name(n, s):
    return isinstance(n, ast.Name) and n.id == s


def boolish(n):
    """syntactically boolean-valued"""
    if isinstance(n, ast.Constant) and isinstance(n.value, bool):
        return True
    if isinstance(n, ast.UnaryOp) and isinstance(n.op, ast.Not):
        return True
    if isinstance(n, ast.Compare):
        return True
    if isinstance(n, ast.Call) and is_name(n.func, "all"):
        return True
    if isinstance(n, ast.BoolOp):
        return all(boolish(v) for v in n.values)
    return False


class Fn:
    def __init__(self, prefix, params, callable_names):
        self.prefix = prefix
        self.vars = {}
        self.bound = set()
        self.callable = callable_names
        for p in params:
            self.vid(p)
            self.bound.add(p)

    def vid(self, name):
        if name not in self.vars:
            self.vars[name] = len(self.vars) + 1
        return f"{self.prefix}_{name}"

    def var(self, n):
        if n.id not in self.bound:
            fail(n, f"unknown name '{n.id}'")
        return f"FVar {self.vid(n.id)}"

    def lit(self, s):
        return "FStr [" + "; ".join(str(ord(ch)) for ch in s) + "]"

    def truth(self, n):
        """expression whose truth value is what matters"""
        if isinstance(n, ast.BoolOp):
            op = "FOr" if isinstance(n.op, ast.Or) else "FAnd"
            out = self.truth(n.values[-1])
            for v in reversed(n.values[:-1]):
                out = f"{op} ({self.truth(v)}) ({out})"
            return out
        if isinstance(n, ast.UnaryOp) and isinstance(n.op, ast.Not):
            return f"FNot ({self.truth(n.operand)})"
        return self.ex(n)

    def ex(self, n):
        if isinstance(n, ast.Name):
            return self.var(n)
        if isinstance(n, ast.Constant):
            if isinstance(n.value, bool):
                return f"FBool {'true' if n.value else 'false'}"
            if isinstance(n.value, str):
                return self.lit(n.value)
            if isinstance(n.value, int) and 0 <= n.value < 100:
                return f"FInt {n.value}"
            fail(n, "constant outside the subset")
        if isinstance(n, ast.List) and not n.elts:
            return "FNil"
        if isinstance(n, ast.UnaryOp) and isinstance(n.op, ast.Not):
            return f"FNot ({self.truth(n.operand)})"
        if isinstance(n, ast.BoolOp):
            if not boolish(n):
                fail(n, "and/or used for its operand value")
            return self.truth(n)
        if isinstance(n, ast.Compare) and len(n.ops) == 1:
            op, a, b = n.ops[0], n.left, n.comparators[0]
            if isinstance(op, ast.Eq) and isinstance(b, ast.Constant) and b.value is None:
                return f"FIsNone ({self.ex(a)})"
            k = {ast.Eq: "FEq", ast.NotEq: "FNe", ast.Lt: "FLt"}.get(type(op))
            if k is None:
                fail(n, "comparison outside the subset")
            return f"{k} ({self.ex(a)}) ({self.ex(b)})"
        if isinstance(n, ast.BinOp) and isinstance(n.op, ast.Add):
            return f"FAdd ({self.ex(n.left)}) ({self.ex(n.right)})"
        if isinstance(n, ast.Subscript):
            if isinstance(n.slice, ast.Slice):
                fail(n, "slice")
            return f"FIdx ({self.ex(n.value)}) ({self.ex(n.slice)})"
        if isinstance(n, ast.IfExp):
            return f"FIfExp ({self.truth(n.test)}) ({self.ex(n.body)}) ({self.ex(n.orelse)})"
        if isinstance(n, ast.Call) and not n.keywords:
            f = n.func
            if is_name(f, "len") and len(n.args) == 1:
                return f"FLen ({self.ex(n.args[0])})"
            if is_name(f, "all") and len(n.args) == 1 and isinstance(n.args[0], ast.GeneratorExp):
                g = n.args[0]
                if len(g.generators) != 1 or g.generators[0].ifs or g.generators[0].is_async or not isinstance(g.generators[0].target, ast.Name):
                    fail(n, "generator form")
                it = self.ex(g.generators[0].iter)
                x = g.generators[0].target.id
                fresh = x not in self.bound
                self.bound.add(x)
                c = self.truth(g.elt)
                if fresh:
                    self.bound.discard(x)
                return f"FAll {self.vid(x)} ({it}) ({c})"
            if isinstance(f, ast.Attribute) and f.attr == "strip" and not n.args:
                return f"FStrip ({self.ex(f.value)})"
            if isinstance(f, ast.Attribute) and f.attr == "split" and len(n.args) == 1 and isinstance(n.args[0], ast.Constant) and n.args[0].value == ",":
                return f"FSplitComma ({self.ex(f.value)})"
            if isinstance(f, ast.Name) and f.id in self.callable:
                return f"FCall fn_{f.id} [{'; '.join(self.ex(a) for a in n.args)}]"
            fail(n, "call outside the subset")
        fail(n, "expression outside the subset")

    def block(self, stmts):
        out = [x for x in (self.st(s) for s in stmts) if x is not None]
        return "[" + "; ".join(out) + "]"

    def st(self, s):
        if isinstance(s, ast.Expr) and isinstance(s.value, ast.Constant) and isinstance(s.value.value, str):
            return None
        if isinstance(s, ast.Assign) and len(s.targets) == 1 and isinstance(s.targets[0], ast.Name):
            e = self.ex(s.value)
            self.bound.add(s.targets[0].id)
            return f"FAssign {self.vid(s.targets[0].id)} ({e})"
        if isinstance(s, ast.If):
            return f"FIf ({self.truth(s.test)}) {self.block(s.body)} {self.block(s.orelse)}"
        if isinstance(s, ast.For):
            t, it = s.target, s.iter
            if s.orelse or not (isinstance(t, ast.Tuple) and len(t.elts) == 2 and all(isinstance(x, ast.Name) for x in t.elts)) \
                    or not (isinstance(it, ast.Call) and is_name(it.func, "enumerate") and len(it.args) == 1 and not it.keywords):
                fail(s, "for form")
            e = self.ex(it.args[0])
            i, v = t.elts[0].id, t.elts[1].id
            self.bound.update((i, v))
            return f"FForEnum {self.vid(i)} {self.vid(v)} ({e}) {self.block(s.body)}"
        if isinstance(s, ast.Break):
            return "FBreak"
        if isinstance(s, ast.Return):
            if s.value is None:
                fail(s, "bare return")
            return f"FReturn ({self.ex(s.value)})"
        fail(s, "statement outside the subset")


def render_function(fn, callable_names):
    a = fn.args
    if fn.decorator_list or a.defaults or a.kwonlyargs or a.kw_defaults or a.kwarg or a.vararg or a.posonlyargs:
        fail(fn, "function signature")
    params = [x.arg for x in a.args]
    f = Fn(PREFIX[fn.name], params, callable_names)
    body = f.block(fn.body)
    return f, params, body


EXPECT_VALUE = ast.dump(ast.parse('filter_value = [filter.__dict__["P"]] + [filter.__dict__["G"]]').body[0])
EXPECT_IF = ast.dump(ast.parse("if is_empty_filter:\n    return self.load_policy(model)").body[0])


def render_is_empty(mod):
    cls = [n for n in mod.body if isinstance(n, ast.ClassDef) and n.name == "FilteredFileAdapter"]
    if len(cls) != 1:
        fail(mod, "class FilteredFileAdapter")
    fns = [n for n in cls[0].body if isinstance(n, ast.FunctionDef) and n.name == "load_filtered_policy"]
    if len(fns) != 1:
        fail(cls[0], "load_filtered_policy")
    tries = [n for n in fns[0].body if isinstance(n, ast.Try)]
    if len(tries) != 1:
        fail(fns[0], "one try block expected")
    body = tries[0].body
    if len(body) != 3 or ast.dump(body[0]) != EXPECT_VALUE or ast.dump(body[2]) != EXPECT_IF:
        fail(tries[0], "try body must be: filter_value = [P] + [G]; is_empty_filter = ...; if is_empty_filter: return self.load_policy(model)")
    s = body[1]
    if not (isinstance(s, ast.Assign) and len(s.targets) == 1 and is_name(s.targets[0], "is_empty_filter")):
        fail(s, "is_empty_filter assignment")
    f = Fn(PREFIX["is_empty_filter"], ["filter_value"], set())
    return f, f.ex(s.value)


def translate(src):
    mod = ast.parse(src)
    fns = {}
    for n in mod.body:
        if isinstance(n, ast.FunctionDef):
            if n.name in fns:
                fail(n, "function defined twice")
            fns[n.name] = n
    out = []
    known = set()
    for name in FUNCS:
        if name not in fns:
            fail(mod, f"function {name} not found")
        f, params, body = render_function(fns[name], set(known))
        out.append((name, f, params, body))
        known.add(name)
    fe, expr = render_is_empty(mod)
    return out, fe, expr


def emit(funcs, fe, expr):
    L = ["(* GENERATED by translators/filterline.py from casbin/persist/adapters/filtered_file_adapter.py — do not edit *)",
         "From Coq Require Import List NArith Bool.", "From PyCasbin Require Import Base Csv FiltLang.", "Import ListNotations.",
         "Local Open Scope N_scope.", ""]
    for k, (name, _, _, _) in enumerate(funcs, 1):
        L.append(f"Definition fn_{name} : N := {k}.")
    L.append("")
    for name, f, params, body in funcs:
        for v, k in f.vars.items():
            L.append(f"Definition {f.prefix}_{v} : N := {k}.")
        L.append(f"Definition {name}_params : list N := [{'; '.join(f.prefix + '_' + p for p in params)}].")
        L.append(f"Definition {name}_locals : list N := [{'; '.join(f.prefix + '_' + v for v in f.vars if v not in params)}].")
        L.append(f"Definition {name}_gen : list fst_ :=")
        L.append(f"  {body}.")
        L.append("")
    for v, k in fe.vars.items():
        L.append(f"Definition {fe.prefix}_{v} : N := {k}.")
    L.append("Definition is_empty_filter_gen : fex :=")
    L.append(f"  {expr}.")
    return "\n".join(L) + "\n"


def main():
    repo = Path(sys.argv[1] if len(sys.argv) > 1 else "/repo")
    out = Path(sys.argv[2]) if len(sys.argv) > 2 else Path(__file__).resolve().parent.parent / "coq" / "gen" / "FilterGen.v"
    try:
        funcs, fe, expr = translate((repo / "casbin" / "persist" / "adapters" / "filtered_file_adapter.py").read_text())
    except (TranslationError, SyntaxError, OSError, KeyError, IndexError, AttributeError) as e:
        print(f"TRANSLATION-FAILED filtered_file_adapter.py: {e}")
        sys.exit(2)
    text = emit(funcs, fe, expr)
    if not out.exists() or out.read_text() != text:
        out.write_text(text)
    print(f"translated filter_words, filter_line, is_empty_filter -> {out}")


if __name__ == "__main__":
    main()
