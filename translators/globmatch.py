#!/usr/bin/env python3
"""Fail-closed translator: glob_match (casbin/util/builtin_operators.py)  -->  coq/gen/GlobMatchGen.v   (C13)

Renders the function as a program of the language of coq/theories/GlobLang.v.  Purely syntactic; the meaning is the
interpreter in GlobLang.v.  Anything outside the accepted subset aborts (exit 2, `TRANSLATION-FAILED`).

Accepted: def glob_match(string, pattern) with
  statements:  "docstring" | x = <expr> | x += <expr> | if / elif / else | while <expr>: ... | break | continue | return <expr>
  expressions: locals, ints (also -1), "text", True, False, len(e), e[i], e[i:], e.find("c", i), a == b, a != b, a and b,
               a or b, a + b, range_match(p, i, c), glob_match(s, p)
"""
import ast
import sys
from pathlib import Path


class TranslationError(Exception):
    pass


def fail(node, msg):
    raise TranslationError(f"line {getattr(node, 'lineno', '?')}: {msg}: {ast.dump(node)[:200] if isinstance(node, ast.AST) else node}")


class Fn:
    def __init__(self, params):
        self.vars, self.bound = {}, set(params)
        for p in params:
            self.vid(p)

    def vid(self, name):
        if name not in self.vars:
            self.vars[name] = len(self.vars) + 1
        return f"gm_{name}"

    def ex(self, n):
        if isinstance(n, ast.Name):
            if n.id not in self.bound:
                fail(n, f"unknown name '{n.id}'")
            return f"GVar {self.vid(n.id)}"
        if isinstance(n, ast.Constant) and (n.value is True or n.value is False):
            return f"GBool {'true' if n.value else 'false'}"
        if isinstance(n, ast.Subscript) and isinstance(n.slice, ast.Slice) and n.slice.lower is not None and n.slice.upper is None and n.slice.step is None:
            return f"GSliceFrom ({self.ex(n.value)}) ({self.ex(n.slice.lower)})"
        if (isinstance(n, ast.Call) and isinstance(n.func, ast.Attribute) and n.func.attr == "find" and len(n.args) == 2 and not n.keywords
                and isinstance(n.args[0], ast.Constant) and isinstance(n.args[0].value, str) and len(n.args[0].value) == 1):
            return f"GFind ({self.ex(n.func.value)}) [{ord(n.args[0].value)}] ({self.ex(n.args[1])})"
        if isinstance(n, ast.Call) and isinstance(n.func, ast.Name) and n.func.id == "range_match" and len(n.args) == 3 and not n.keywords:
            return "GCallRange " + " ".join(f"({self.ex(a)})" for a in n.args)
        if isinstance(n, ast.Call) and isinstance(n.func, ast.Name) and n.func.id == "glob_match" and len(n.args) == 2 and not n.keywords:
            return "GCallSelf " + " ".join(f"({self.ex(a)})" for a in n.args)
        if isinstance(n, ast.Constant) and isinstance(n.value, str):
            return "GStr [" + "; ".join(str(ord(c)) for c in n.value) + "]"
        if isinstance(n, ast.Constant) and isinstance(n.value, int) and not isinstance(n.value, bool) and 0 <= n.value < 1000:
            return f"GInt {n.value}"
        if isinstance(n, ast.UnaryOp) and isinstance(n.op, ast.USub) and isinstance(n.operand, ast.Constant) and n.operand.value == 1:
            return "GInt (-1)"
        if isinstance(n, ast.BoolOp):
            k = "GAnd" if isinstance(n.op, ast.And) else "GOr"
            out = self.ex(n.values[-1])
            for v in reversed(n.values[:-1]):
                out = f"{k} ({self.ex(v)}) ({out})"
            return out
        if isinstance(n, ast.Compare):
            ks = {ast.Eq: "GEq", ast.NotEq: "GNe"}
            terms = [n.left] + list(n.comparators)
            if any(type(o) not in ks for o in n.ops):
                fail(n, "comparison outside the subset")
            if len(n.ops) > 1 and not all(isinstance(t, (ast.Name, ast.Constant)) for t in terms[1:-1]):
                fail(n, "chained comparison whose middle term is not a plain name")
            parts = [f"{ks[type(o)]} ({self.ex(a)}) ({self.ex(b)})" for o, a, b in zip(n.ops, terms, terms[1:])]
            out = parts[-1]
            for p in reversed(parts[:-1]):
                out = f"GAnd ({p}) ({out})"
            return out
        if isinstance(n, ast.BinOp) and isinstance(n.op, ast.Add):
            return f"GAdd ({self.ex(n.left)}) ({self.ex(n.right)})"
        if isinstance(n, ast.Subscript) and not isinstance(n.slice, ast.Slice):
            return f"GIdx ({self.ex(n.value)}) ({self.ex(n.slice)})"
        if isinstance(n, ast.Call) and isinstance(n.func, ast.Name) and n.func.id == "len" and len(n.args) == 1 and not n.keywords:
            return f"GLen ({self.ex(n.args[0])})"
        fail(n, "expression outside the subset")

    def block(self, stmts):
        out = [x for x in (self.st(s) for s in stmts) if x is not None]
        return "[" + "; ".join(out) + "]"

    def st(self, s):
        if isinstance(s, ast.Expr) and isinstance(s.value, ast.Constant) and isinstance(s.value.value, str):
            return None
        if isinstance(s, ast.Assign) and len(s.targets) == 1 and isinstance(s.targets[0], ast.Name):
            e = self.ex(s.value)
            self.bound.add(s.targets[0].id)
            return f"GAssign {self.vid(s.targets[0].id)} ({e})"
        if isinstance(s, ast.AugAssign) and isinstance(s.op, ast.Add) and isinstance(s.target, ast.Name):
            if s.target.id not in self.bound:
                fail(s, "unknown name")
            return f"GAug {self.vid(s.target.id)} ({self.ex(s.value)})"
        if isinstance(s, ast.If):
            return f"GIf ({self.ex(s.test)}) {self.block(s.body)} {self.block(s.orelse)}"
        if isinstance(s, ast.While) and not s.orelse:
            return f"GWhile ({self.ex(s.test)}) {self.block(s.body)}"
        if isinstance(s, ast.Break):
            return "GBreak"
        if isinstance(s, ast.Continue):
            return "GContinue"
        if isinstance(s, ast.Return) and s.value is not None:
            return f"GReturn ({self.ex(s.value)})"
        fail(s, "statement outside the subset")


def main():
    repo = Path(sys.argv[1] if len(sys.argv) > 1 else "/repo")
    out = Path(sys.argv[2]) if len(sys.argv) > 2 else Path(__file__).resolve().parent.parent / "coq" / "gen" / "GlobMatchGen.v"
    try:
        mod = ast.parse((repo / "casbin" / "util" / "builtin_operators.py").read_text())
        fns = [n for n in mod.body if isinstance(n, ast.FunctionDef) and n.name == "glob_match"]
        if len(fns) != 1:
            fail(mod, "exactly one glob_match")
        fn = fns[0]
        a = fn.args
        params = [x.arg for x in a.args]
        if fn.decorator_list or params != ["string", "pattern"] or a.vararg or a.kwarg or a.defaults or a.kwonlyargs:
            fail(fn, "signature must be glob_match(string, pattern)")
        f = Fn(params)
        body = f.block(fn.body)
    except (TranslationError, SyntaxError, OSError, KeyError, IndexError, AttributeError) as e:
        print(f"TRANSLATION-FAILED builtin_operators.py glob_match: {e}")
        sys.exit(2)
    L = ["(* GENERATED by translators/globmatch.py from casbin/util/builtin_operators.py (glob_match) — do not edit *)",
         "From Coq Require Import List NArith ZArith Bool.", "From PyCasbin Require Import Base IdxLang GlobLang.", "Import ListNotations.",
         "Local Open Scope N_scope.", ""]
    for v, k in f.vars.items():
        L.append(f"Definition gm_{v} : N := {k}.")
    L.append(f"Definition glob_match_params : list N := [{'; '.join('gm_' + p for p in params)}].")
    L.append(f"Definition glob_match_locals : list N := [{'; '.join('gm_' + v for v in f.vars if v not in params)}].")
    L.append("Definition glob_match_gen : list gst :=")
    L.append(f"  {body}.")
    L.append("")
    text = "\n".join(L)
    if not out.exists() or out.read_text() != text:
        out.write_text(text)
    print(f"translated glob_match -> {out}")


if __name__ == "__main__":
    main()
