#!/usr/bin/env python3
"""Fail-closed translator: the grouping wrappers of casbin/management_enforcer.py  -->  coq/gen/GroupingGen.v   (C04)

  ManagementEnforcer.add_named_grouping_policy, add_named_grouping_policies, remove_named_grouping_policy,
  remove_named_grouping_policies, remove_filtered_named_grouping_policy
  + CoreEnforcer._build_incremental_role_links and Policy.build_incremental_role_links must be the recognised bodies.

Renders each wrapper as a program of the language of coq/theories/GrpLang.v; anything outside the accepted shapes aborts
(exit 2, `TRANSLATION-FAILED`).

Single-rule wrappers must have the shape
    [rules = []]
    if len(params) == 1 and isinstance(params[0], list):
        str_slice = params[0]
        <block on str_slice>
    else:
        <the same block on list(params)>
    <tail>
(the two blocks are compared after replacing `str_slice` / `list(params)` by one placeholder).
Statements of a block / tail:  x = self._<internal>("g", ptype, <the rule | rules | field_index, *field_values>) | rules.append(<the rule>)
    | rules = list(rules) | if self.auto_build_role_links and x: self._build_incremental_role_links(PolicyOp.Policy_add|remove, ptype, rules|x) | return x
"""
import ast
import copy
import sys
from pathlib import Path

METHODS = [("add_named_grouping_policy", "single"), ("add_named_grouping_policies", "batch"), ("remove_named_grouping_policy", "single"),
           ("remove_named_grouping_policies", "batch"), ("remove_filtered_named_grouping_policy", "filtered")]
INTERNAL = {"_add_policy": "IAdd", "_add_policies": "IAddMany", "_remove_policy": "IRemove", "_remove_policies": "IRemoveMany",
            "_remove_filtered_policy_returns_effects": "IRemoveFilteredEff"}
CORE_INCR = '''def _build_incremental_role_links(self, op, ptype, rules):
    if ptype in self.rm_map:
        self.model.build_incremental_role_links(self.rm_map[ptype], op, "g", ptype, rules)
    if ptype in self.cond_rm_map:
        self.model.build_incremental_conditional_role_links(self.cond_rm_map[ptype], op, "g", ptype, rules)
'''
POLICY_INCR = '''def build_incremental_role_links(self, rm, op, sec, ptype, rules):
    if sec == "g":
        self[sec].get(ptype).build_incremental_role_links(rm, op, rules)
'''
TEST = "len(params) == 1 and isinstance(params[0], list)"


class TranslationError(Exception):
    pass


def fail(node, msg):
    raise TranslationError(f"line {getattr(node, 'lineno', '?')}: {msg}: {ast.dump(node)[:200] if isinstance(node, ast.AST) else node}")


def nodoc(stmts):
    return [s for s in stmts if not (isinstance(s, ast.Expr) and isinstance(s.value, ast.Constant) and isinstance(s.value.value, str))]


def D(n):
    return ast.dump(n)


E = lambda src: ast.dump(ast.parse(src, mode="eval").body)
RULE = "__THE_RULE__"


class Subst(ast.NodeTransformer):
    """replace `str_slice` and `list(params)` by the placeholder name"""
    def visit_Name(self, n):
        return ast.Name(id=RULE, ctx=ast.Load()) if n.id == "str_slice" else n

    def visit_Call(self, n):
        if D(n) == E("list(params)"):
            return ast.Name(id=RULE, ctx=ast.Load())
        return self.generic_visit(n)


class Wr:
    def __init__(self, kind):
        self.kind, self.res = kind, None

    def st(self, s):
        if isinstance(s, ast.Assign) and len(s.targets) == 1 and isinstance(s.targets[0], ast.Name):
            x, v = s.targets[0].id, s.value
            if x == "rules" and D(v) == E("[]"):
                return "GRulesInit"
            if x == "rules" and D(v) == E("list(rules)") and self.kind == "batch":
                return "GRulesCopy"
            if isinstance(v, ast.Call) and isinstance(v.func, ast.Attribute) and isinstance(v.func.value, ast.Name) and v.func.value.id == "self" \
                    and v.func.attr in INTERNAL and not v.keywords and len(v.args) >= 3 and D(v.args[0]) == E('"g"') and D(v.args[1]) == E("ptype"):
                rest = v.args[2:]
                if len(rest) == 1 and D(rest[0]) == E(RULE) and self.kind == "single":
                    a = "GTheRule"
                elif len(rest) == 1 and D(rest[0]) == E("rules") and self.kind == "batch":
                    a = "GRulesParam"
                elif len(rest) == 2 and D(rest[0]) == E("field_index") and isinstance(rest[1], ast.Starred) and D(rest[1].value) == E("field_values") \
                        and self.kind == "filtered":
                    a = "GFilter"
                else:
                    fail(s, "arguments of the internal call")
                if self.res not in (None, x):
                    fail(s, "two result variables")
                self.res = x
                return f"GCall {INTERNAL[v.func.attr]} {a}"
            fail(s, "assignment outside the subset")
        if isinstance(s, ast.Expr) and D(s.value) == E(f"rules.append({RULE})"):
            return "GRulesAppendRule"
        if isinstance(s, ast.If) and not s.orelse and len(s.body) == 1 and self.res is not None \
                and D(s.test) == E(f"self.auto_build_role_links and {self.res}"):
            c = s.body[0]
            for opn, flag in (("Policy_add", "true"), ("Policy_remove", "false")):
                for srcn, src in (("rules", "GRulesLocal"), (self.res, "GResult")):
                    if D(c) == ast.dump(ast.parse(f"self._build_incremental_role_links(PolicyOp.{opn}, ptype, {srcn})").body[0]):
                        return f"GIfAutoAndResult {flag} {src}"
            fail(s, "link maintenance call")
        if isinstance(s, ast.Return) and self.res is not None and D(s.value) == E(self.res):
            return "GReturnResult"
        fail(s, "statement outside the subset")


def method(cls, name):
    fns = [n for n in cls.body if isinstance(n, ast.FunctionDef) and n.name == name]
    if len(fns) != 1:
        fail(cls, f"exactly one {cls.name}.{name}")
    return fns[0]


def same_body(fn, src, what):
    w = ast.parse(src).body[0]
    if [D(x) for x in nodoc(fn.body)] != [D(x) for x in nodoc(w.body)] or D(fn.args) != D(w.args):
        fail(fn, f"{what} is not the recognised function")


def klass(mod, name):
    cs = [n for n in mod.body if isinstance(n, ast.ClassDef) and n.name == name]
    if len(cs) != 1:
        fail(mod, f"class {name}")
    return cs[0]


def translate(repo):
    mmod = ast.parse((repo / "casbin" / "management_enforcer.py").read_text())
    cmod = ast.parse((repo / "casbin" / "core_enforcer.py").read_text())
    pmod = ast.parse((repo / "casbin" / "model" / "policy.py").read_text())
    same_body(method(klass(cmod, "CoreEnforcer"), "_build_incremental_role_links"), CORE_INCR, "CoreEnforcer._build_incremental_role_links")
    same_body(method(klass(pmod, "Policy"), "build_incremental_role_links"), POLICY_INCR, "Policy.build_incremental_role_links")
    me = klass(mmod, "ManagementEnforcer")
    out = []
    for name, kind in METHODS:
        fn = method(me, name)
        a = fn.args
        want = {"single": (["self", "ptype"], "params"), "batch": (["self", "ptype", "rules"], None),
                "filtered": (["self", "ptype", "field_index"], "field_values")}[kind]
        if fn.decorator_list or [x.arg for x in a.args] != want[0] or (a.vararg.arg if a.vararg else None) != want[1] or a.defaults or a.kwonlyargs or a.kwarg:
            fail(fn, "signature")
        body = nodoc(fn.body)
        w = Wr(kind)
        prog = []
        if kind == "single":
            i = next((k for k, s in enumerate(body) if isinstance(s, ast.If) and D(s.test) == E(TEST)), None)
            if i is None:
                fail(fn, "the one-list / separate-arguments test is missing")
            iff = body[i]
            b1 = nodoc(iff.body)
            if not b1 or D(b1[0]) != ast.dump(ast.parse("str_slice = params[0]").body[0]):
                fail(iff, "first branch must start with str_slice = params[0]")
            n1 = [D(Subst().visit(copy.deepcopy(s))) for s in b1[1:]]
            n2 = [D(Subst().visit(copy.deepcopy(s))) for s in nodoc(iff.orelse)]
            if n1 != n2:
                fail(iff, "the two branches differ beyond the spelling of the rule")
            stmts = body[:i] + [Subst().visit(copy.deepcopy(s)) for s in nodoc(iff.orelse)] + body[i + 1:]
        else:
            stmts = body
        for s in stmts:
            prog.append(w.st(s))
        out.append((name, "[" + "; ".join(prog) + "]"))
    return out


def main():
    repo = Path(sys.argv[1] if len(sys.argv) > 1 else "/repo")
    out = Path(sys.argv[2]) if len(sys.argv) > 2 else Path(__file__).resolve().parent.parent / "coq" / "gen" / "GroupingGen.v"
    try:
        ms = translate(repo)
    except (TranslationError, SyntaxError, OSError, KeyError, IndexError, AttributeError) as e:
        print(f"TRANSLATION-FAILED management_enforcer.py grouping wrappers: {e}")
        sys.exit(2)
    L = ["(* GENERATED by translators/grouping.py from casbin/management_enforcer.py — do not edit *)",
         "From Coq Require Import List NArith Bool.", "From PyCasbin Require Import Base GrpLang.", "Import ListNotations.", ""]
    for name, body in ms:
        L += [f"Definition {name}_gen : list gpst :=", f"  {body}.", ""]
    text = "\n".join(L)
    if not out.exists() or out.read_text() != text:
        out.write_text(text)
    print(f"translated {len(ms)} grouping wrappers -> {out}")


if __name__ == "__main__":
    main()
