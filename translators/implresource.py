#!/usr/bin/env python3
"""Fail-closed translator: Enforcer.get_implicit_users_for_resource and get_implicit_users_for_resource_by_domain
(casbin/enforcer.py)  -->  coq/gen/ImplResourceGen.v   (C15)

Every statement must be, as a syntax tree, one of the recognised steps (see coq/theories/RsrcLang.v for what each means);
the methods they call (get_all_roles_by_domain, get_all_roles, get_all_named_roles, get_policy, get_role_manager) must be the
recognised functions; anything else aborts (exit 2, `TRANSLATION-FAILED`).
"""
import ast
import sys
from pathlib import Path


class TranslationError(Exception):
    pass


def fail(node, msg):
    raise TranslationError(f"line {getattr(node, 'lineno', '?')}: {msg}: {ast.dump(node)[:200] if isinstance(node, ast.AST) else node}")


def D(src):
    return ast.dump(ast.parse(src).body[0])


def E(src):
    return ast.dump(ast.parse(src, mode="eval").body)


def nodoc(stmts):
    return [s for s in stmts if not (isinstance(s, ast.Expr) and isinstance(s.value, ast.Constant) and isinstance(s.value.value, str))]


SIMPLE = {D("permissions = dict()"): "RInitPerms",
          D('subject_index = self.get_field_index("p", "sub")'): "RSubIdx",
          D('object_index = self.get_field_index("p", "obj")'): "RObjIdx",
          D('dom_index = self.get_field_index("p", "dom")'): "RDomIdx",
          D("rm = self.get_role_manager()"): "RGetRm",
          D("roles = self.get_all_roles()"): "RAllRoles",
          D("roles = self.get_all_roles_by_domain(domain)"): "RRolesByDomain",
          D("sub = rule[subject_index]"): "RSub",
          D("permissions[tuple(rule)] = True"): "RKeepRule",
          D("users = rm.get_users(sub)"): "RGetUsers",
          D("users = rm.get_users(sub, domain)"): "RGetUsersDom",
          D("implicit_rule = rule.copy()"): "RCopy",
          D("implicit_rule[subject_index] = user"): "RSetSub",
          D("permissions[tuple(implicit_rule)] = True"): "RKeepImplicit",
          D("permissions = [list(t) for t in (list(key) for key in permissions.keys())]"): "RListPerms",
          D("return permissions"): "RReturn"}
SKIP = D("if domain != rule[dom_index]:\n    continue")
FOR_RULE = (E("rule"), E("self.get_policy()"))
FOR_USER = (E("user"), E("users"))
IF_OBJ = E("rule[object_index] == resource")
IF_NOT_ROLE = E("sub not in roles")
RECOGNISED = {
    ("enforcer.py", "Enforcer", "get_all_roles_by_domain"):
        'def get_all_roles_by_domain(self, domain):\n    g = self.model.model["g"]["g"]\n    policies = g.policy\n    roles = set()\n'
        '    for policy in policies:\n        if policy[len(policy) - 1] == domain:\n            role = policy[len(policy) - 2]\n'
        '            if role not in roles:\n                roles.add(role)\n    return list(roles)\n',
    ("management_enforcer.py", "ManagementEnforcer", "get_all_roles"): 'def get_all_roles(self):\n    return self.get_all_named_roles("g")\n',
    ("management_enforcer.py", "ManagementEnforcer", "get_all_named_roles"):
        'def get_all_named_roles(self, ptype):\n    return self.model.get_values_for_field_in_policy("g", ptype, 1)\n',
    ("management_enforcer.py", "ManagementEnforcer", "get_policy"): 'def get_policy(self):\n    return self.get_named_policy("p")\n',
    ("core_enforcer.py", "CoreEnforcer", "get_role_manager"): 'def get_role_manager(self):\n    return self.rm_map["g"]\n',
}


def target(t):
    return ast.dump(ast.parse(ast.unparse(t), mode="eval").body)


def block(stmts):
    out = []
    for s in nodoc(stmts):
        d = ast.dump(s)
        if d in SIMPLE:
            out.append(SIMPLE[d])
        elif d == SKIP:
            out.append("RSkipOtherDomain")
        elif isinstance(s, ast.For) and not s.orelse and (target(s.target), ast.dump(s.iter)) == FOR_RULE:
            out.append(f"RForRule {block(s.body)}")
        elif isinstance(s, ast.For) and not s.orelse and (target(s.target), ast.dump(s.iter)) == FOR_USER:
            out.append(f"RForUser {block(s.body)}")
        elif isinstance(s, ast.If) and not s.orelse and ast.dump(s.test) == IF_OBJ:
            out.append(f"RIfObj {block(s.body)}")
        elif isinstance(s, ast.If) and s.orelse and ast.dump(s.test) == IF_NOT_ROLE:
            out.append(f"RIfNotRole {block(s.body)} {block(s.orelse)}")
        else:
            fail(s, "statement outside the recognised steps")
    return "[" + "; ".join(out) + "]"


def one(body, name, kind=ast.FunctionDef):
    xs = [n for n in body if isinstance(n, kind) and n.name == name]
    if len(xs) != 1:
        fail(body[0] if body else None, f"exactly one {name}")
    return xs[0]


def same(fn, src, what):
    w = ast.parse(src).body[0]
    if fn.decorator_list or [ast.dump(x) for x in nodoc(fn.body)] != [ast.dump(x) for x in nodoc(w.body)] or ast.dump(fn.args) != ast.dump(w.args):
        fail(fn, f"{what} is not the recognised function")


def main():
    repo = Path(sys.argv[1] if len(sys.argv) > 1 else "/repo")
    out = Path(sys.argv[2]) if len(sys.argv) > 2 else Path(__file__).resolve().parent.parent / "coq" / "gen" / "ImplResourceGen.v"
    try:
        mods = {}
        for (fname, cls, meth), src in RECOGNISED.items():
            if fname not in mods:
                mods[fname] = ast.parse((repo / "casbin" / fname).read_text())
            same(one(one(mods[fname].body, cls, ast.ClassDef).body, meth), src, f"{cls}.{meth}")
        enf = one(mods["enforcer.py"].body, "Enforcer", ast.ClassDef)
        bodies = []
        for name, params in (("get_implicit_users_for_resource", ["self", "resource"]),
                             ("get_implicit_users_for_resource_by_domain", ["self", "resource", "domain"])):
            fn = one(enf.body, name)
            a = fn.args
            if fn.decorator_list or [x.arg for x in a.args] != params or a.vararg or a.kwarg or a.kwonlyargs or a.defaults:
                fail(fn, f"signature must be {name}({', '.join(params)})")
            bodies.append(block(fn.body))
    except (TranslationError, SyntaxError, OSError, KeyError, IndexError, AttributeError) as e:
        print(f"TRANSLATION-FAILED enforcer.py get_implicit_users_for_resource[_by_domain]: {e}")
        sys.exit(2)
    text = "\n".join(["(* GENERATED by translators/implresource.py from casbin/enforcer.py (get_implicit_users_for_resource, _by_domain) — do not edit *)",
                      "From Coq Require Import List NArith Bool.", "From PyCasbin Require Import Base RsrcLang.", "Import ListNotations.", "",
                      "Definition users_for_resource_gen : list rstmt :=", f"  {bodies[0]}.", "",
                      "Definition users_for_resource_by_domain_gen : list rstmt :=", f"  {bodies[1]}.", ""])
    if not out.exists() or out.read_text() != text:
        out.write_text(text)
    print(f"translated get_implicit_users_for_resource, _by_domain -> {out}")


if __name__ == "__main__":
    main()
