#!/usr/bin/env python3
"""Fail-closed translator: Enforcer.get_implicit_users_for_permission (casbin/enforcer.py) and the three helpers it calls
(casbin/util/util.py: array_remove_duplicates, set_subtract, join_slice)  -->  coq/gen/ImplUsersGen.v   (C15)

Every statement must be, as a syntax tree, one of the recognised steps (see coq/theories/ImplUsersLang.v for what each means);
the helpers must be the recognised functions; anything else aborts (exit 2, `TRANSLATION-FAILED`).
"""
import ast
import sys
from pathlib import Path


class TranslationError(Exception):
    pass


def fail(node, msg):
    raise TranslationError(f"line {getattr(node, 'lineno', '?')}: {msg}: {ast.dump(node)[:200] if isinstance(node, ast.AST) else node}")


def D(src):
    return ast.dump(ast.parse(src).body[0])


def E(src):
    return ast.dump(ast.parse(src, mode="eval").body)


def nodoc(stmts):
    return [s for s in stmts if not (isinstance(s, ast.Expr) and isinstance(s.value, ast.Constant) and isinstance(s.value.value, str))]


SIMPLE = {D("p_subjects = self.get_all_subjects()"): "UPSubjects",
          D('g_inherit = self.model.get_values_for_field_in_policy("g", "g", 1)'): "UGInherit",
          D('g_subjects = self.model.get_values_for_field_in_policy("g", "g", 0)'): "UGSubjects",
          D("subjects = array_remove_duplicates(g_subjects + p_subjects)"): "USubjectsDedup",
          D("res = list()"): "UInitRes",
          D("subjects = set_subtract(subjects, g_inherit)"): "USubjectsSubtract",
          D("req = join_slice(user, *permission)"): "UReq",
          D("allowed = self.enforce(*req)"): "UEnforce",
          D("res.append(user)"): "UAppendUser",
          D("return res"): "UReturnRes"}
FOR_USER = (E("user"), E("subjects"))
IF_ALLOWED = E("allowed")
HELPERS = {"array_remove_duplicates": "def array_remove_duplicates(s):\n    return list(OrderedDict.fromkeys(s))\n",
           "set_subtract": "def set_subtract(a, b):\n    return [i for i in a if i not in b]\n",
           "join_slice": "def join_slice(a, *b):\n    res = [a]\n    res.extend(b)\n    return res\n"}
GET_ALL_SUBJECTS = 'def get_all_subjects(self):\n    return self.get_all_named_subjects("p")\n'


def target(t):
    return ast.dump(ast.parse(ast.unparse(t), mode="eval").body)


def block(stmts):
    out = []
    for s in nodoc(stmts):
        d = ast.dump(s)
        if d in SIMPLE:
            out.append(SIMPLE[d])
        elif isinstance(s, ast.For) and not s.orelse and (target(s.target), ast.dump(s.iter)) == FOR_USER:
            out.append(f"UForUser {block(s.body)}")
        elif isinstance(s, ast.If) and not s.orelse and ast.dump(s.test) == IF_ALLOWED:
            out.append(f"UIfAllowed {block(s.body)}")
        else:
            fail(s, "statement outside the recognised steps")
    return "[" + "; ".join(out) + "]"


def same(fn, src, what):
    w = ast.parse(src).body[0]
    if fn.decorator_list or [ast.dump(x) for x in nodoc(fn.body)] != [ast.dump(x) for x in nodoc(w.body)] or ast.dump(fn.args) != ast.dump(w.args):
        fail(fn, f"{what} is not the recognised function")


def one(body, name, kind=ast.FunctionDef):
    xs = [n for n in body if isinstance(n, kind) and n.name == name]
    if len(xs) != 1:
        fail(body[0] if body else None, f"exactly one {name}")
    return xs[0]


def main():
    repo = Path(sys.argv[1] if len(sys.argv) > 1 else "/repo")
    out = Path(sys.argv[2]) if len(sys.argv) > 2 else Path(__file__).resolve().parent.parent / "coq" / "gen" / "ImplUsersGen.v"
    try:
        mod = ast.parse((repo / "casbin" / "enforcer.py").read_text())
        fn = one(one(mod.body, "Enforcer", ast.ClassDef).body, "get_implicit_users_for_permission")
        a = fn.args
        if (fn.decorator_list or [x.arg for x in a.args] != ["self"] or not a.vararg or a.vararg.arg != "permission" or a.kwarg
                or a.kwonlyargs or a.defaults):
            fail(fn, "signature must be get_implicit_users_for_permission(self, *permission)")
        body = block(fn.body)
        umod = ast.parse((repo / "casbin" / "util" / "util.py").read_text())
        for name, src in HELPERS.items():
            same(one(umod.body, name), src, f"util.{name}")
        mmod = ast.parse((repo / "casbin" / "management_enforcer.py").read_text())
        same(one(one(mmod.body, "ManagementEnforcer", ast.ClassDef).body, "get_all_subjects"), GET_ALL_SUBJECTS, "get_all_subjects")
        imports = [n for n in mod.body if isinstance(n, ast.ImportFrom) and n.module == "casbin.util"]
        names = {al.name for n in imports for al in n.names if al.asname is None}
        if not {"join_slice", "array_remove_duplicates", "set_subtract"} <= names:
            fail(mod, "enforcer.py must import the three helpers from casbin.util under their own names")
    except (TranslationError, SyntaxError, OSError, KeyError, IndexError, AttributeError) as e:
        print(f"TRANSLATION-FAILED enforcer.py get_implicit_users_for_permission: {e}")
        sys.exit(2)
    text = "\n".join(["(* GENERATED by translators/implusers.py from casbin/enforcer.py (get_implicit_users_for_permission) — do not edit *)",
                      "From Coq Require Import List NArith Bool.", "From PyCasbin Require Import Base ImplUsersLang.", "Import ListNotations.", "",
                      "Definition implicit_users_gen : list ustmt :=", f"  {body}.", ""])
    if not out.exists() or out.read_text() != text:
        out.write_text(text)
    print(f"translated get_implicit_users_for_permission -> {out}")


if __name__ == "__main__":
    main()
