#!/usr/bin/env python3
"""Fail-closed translator: casbin/internal_enforcer.py  -->  coq/gen/InternalGen.v   (properties C09, C20)

Renders the internal API methods of class InternalEnforcer listed in METHODS (change the model, tell the adapter, notify the
watcher) as programs of the language of coq/theories/IntLang.v.  Purely syntactic: one Python construct, one constructor;
the meaning is the interpreter in IntLang.v.  Anything outside the accepted subset aborts (exit 2, `TRANSLATION-FAILED`).
(_update_filtered_policies is not translated: its behaviour is the listed finding C09/update-filtered-policies and is
covered by the differential correspondence only.)

Accepted Python
  def _m(self, sec, ptype, <params>, [*vararg]):   no decorators / defaults / keyword-only arguments
  statements:  "docstring" | <local> = <expr> | if <expr>: ... [else: ...] | return <expr>
               | self.watcher.<cb>(sec, ptype, <exprs>) | self.watcher.<cb>(<exprs>)   (cb: update, update_for_*)
  expressions: locals, parameters, True / False, not E, A and B, E is False, len(E) == 0, list(E),
               self.adapter | self.auto_save | self.watcher | self.auto_notify_watcher           (used as truth values)
               hasattr(self.adapter, "<m>"), callable(getattr(self.watcher, "<cb>", None)),
               self.model.<m>(sec, ptype, <exprs>), self.adapter.<m>(sec, ptype, <exprs>)         (*vararg passed on as is)
"""
import ast
import sys
from pathlib import Path

METHODS = ["_add_policy", "_add_policies", "_update_policy", "_update_policies", "_remove_policy", "_remove_policies",
           "_remove_filtered_policy", "_remove_filtered_policy_returns_effects"]
MODEL_M = {"add_policy", "add_policies", "update_policy", "update_policies", "remove_policy", "remove_policies",
           "remove_filtered_policy", "remove_filtered_policy_returns_effects"}
ADAPTER_M = {"add_policy", "add_policies", "update_policy", "update_policies", "remove_policy", "remove_policies",
             "remove_filtered_policy"}
WATCHER_M = {"update", "update_for_add_policy", "update_for_add_policies", "update_for_update_policy",
             "update_for_update_policies", "update_for_remove_policy", "update_for_remove_policies",
             "update_for_remove_filtered_policy"}
SELF_FLAGS = {"adapter": "IAdapter", "auto_save": "IAutoSave", "watcher": "IWatcher", "auto_notify_watcher": "IAutoNotify"}


class TranslationError(Exception):
    pass


def fail(node, msg):
    raise TranslationError(f"line {getattr(node, 'lineno', '?')}: {msg}: {ast.dump(node)[:200] if isinstance(node, ast.AST) else node}")


def is_name(n, s):
    return isinstance(n, ast.Name) and n.id == s


def self_attr(n):
    return n.attr if isinstance(n, ast.Attribute) and is_name(n.value, "self") else None


class Method:
    def __init__(self, tr, fn):
        self.tr, self.fn, self.locals = tr, fn, set()

    def var(self, n):
        if n.id not in self.locals:
            fail(n, f"unknown name '{n.id}'")
        return f"IVar {self.tr.vid(n.id)}"

    def passthrough(self, call):
        a = call.args
        if call.keywords or len(a) < 2 or not is_name(a[0], "sec") or not is_name(a[1], "ptype"):
            fail(call, "call must pass sec, ptype through")
        return [self.arg(x) for x in a[2:]]

    def arg(self, x):
        if isinstance(x, ast.Starred):
            if not isinstance(x.value, ast.Name):
                fail(x, "starred argument")
            return self.var(x.value)
        return self.ex(x)

    def ex(self, n):
        if isinstance(n, ast.Name):
            return self.var(n)
        if isinstance(n, ast.Constant) and n.value in (True, False) and isinstance(n.value, bool):
            return f"IB {'true' if n.value else 'false'}"
        if isinstance(n, ast.UnaryOp) and isinstance(n.op, ast.Not):
            return f"INot ({self.ex(n.operand)})"
        if isinstance(n, ast.BoolOp) and isinstance(n.op, ast.And):
            out = self.ex(n.values[-1])
            for v in reversed(n.values[:-1]):
                out = f"IAnd ({self.ex(v)}) ({out})"
            return out
        if isinstance(n, ast.Compare) and len(n.ops) == 1:
            op, a, b = n.ops[0], n.left, n.comparators[0]
            if isinstance(op, ast.Is) and isinstance(b, ast.Constant) and b.value is False:
                return f"IIsFalse ({self.ex(a)})"
            if isinstance(op, ast.Eq) and isinstance(b, ast.Constant) and b.value == 0 and isinstance(a, ast.Call) \
                    and is_name(a.func, "len") and len(a.args) == 1 and not a.keywords:
                return f"ILenIsZero ({self.ex(a.args[0])})"
            fail(n, "comparison outside the subset")
        if isinstance(n, ast.Attribute):
            f = self_attr(n)
            if f in SELF_FLAGS:
                return SELF_FLAGS[f]
            fail(n, "attribute outside the subset")
        if isinstance(n, ast.Call):
            f = n.func
            if is_name(f, "list") and len(n.args) == 1 and not n.keywords:
                return f"IListCopy ({self.ex(n.args[0])})"
            if is_name(f, "hasattr") and len(n.args) == 2 and self_attr(n.args[0]) == "adapter" and isinstance(n.args[1], ast.Constant) \
                    and n.args[1].value in ADAPTER_M:
                return f"IAdapterHas A_{n.args[1].value}"
            if is_name(f, "callable") and len(n.args) == 1 and isinstance(n.args[0], ast.Call) and is_name(n.args[0].func, "getattr"):
                g = n.args[0]
                if len(g.args) == 3 and self_attr(g.args[0]) == "watcher" and isinstance(g.args[1], ast.Constant) \
                        and g.args[1].value in WATCHER_M and isinstance(g.args[2], ast.Constant) and g.args[2].value is None:
                    return f"IWatcherOffers W_{g.args[1].value}"
                fail(n, "getattr form")
            if isinstance(f, ast.Attribute) and self_attr(f.value) == "model" and f.attr in MODEL_M:
                return f"IModel M_{f.attr} [{'; '.join(self.passthrough(n))}]"
            if isinstance(f, ast.Attribute) and self_attr(f.value) == "adapter" and f.attr in ADAPTER_M:
                return f"IACall A_{f.attr} [{'; '.join(self.passthrough(n))}]"
            fail(n, "call outside the subset")
        fail(n, "expression outside the subset")

    def block(self, stmts):
        out = [x for x in (self.st(s) for s in stmts) if x is not None]
        return "[" + "; ".join(out) + "]"

    def st(self, s):
        if isinstance(s, ast.Expr) and isinstance(s.value, ast.Constant) and isinstance(s.value.value, str):
            return None
        if isinstance(s, ast.Assign) and len(s.targets) == 1 and isinstance(s.targets[0], ast.Name):
            name = s.targets[0].id
            if name in ("self", "sec", "ptype"):
                fail(s, "rebinding")
            e = self.ex(s.value)
            self.locals.add(name)
            return f"ISAssign {self.tr.vid(name)} ({e})"
        if isinstance(s, ast.If):
            return f"ISIf ({self.ex(s.test)}) {self.block(s.body)} {self.block(s.orelse)}"
        if isinstance(s, ast.Return):
            if s.value is None:
                fail(s, "bare return")
            return f"ISReturn ({self.ex(s.value)})"
        if isinstance(s, ast.Expr) and isinstance(s.value, ast.Call):
            c = s.value
            f = c.func
            if isinstance(f, ast.Attribute) and self_attr(f.value) == "watcher" and f.attr in WATCHER_M and not c.keywords:
                a = c.args
                sp = len(a) >= 2 and is_name(a[0], "sec") and is_name(a[1], "ptype")
                rest = a[2:] if sp else a
                return f"ISWatcher W_{f.attr} {'true' if sp else 'false'} [{'; '.join(self.arg(x) for x in rest)}]"
            fail(s, "call statement outside the subset")
        fail(s, "statement outside the subset")

    def render(self):
        fn = self.fn
        a = fn.args
        if fn.decorator_list or a.defaults or a.kwonlyargs or a.kw_defaults or a.kwarg or a.posonlyargs:
            fail(fn, "method signature")
        names = [x.arg for x in a.args]
        if names[:3] != ["self", "sec", "ptype"]:
            fail(fn, "method must start (self, sec, ptype, ...)")
        params = names[3:] + ([a.vararg.arg] if a.vararg else [])
        self.locals.update(params)
        for p in params:
            self.tr.vid(p)
        return params, self.block(fn.body)


class Translator:
    def __init__(self):
        self.vars = {}

    def vid(self, name):
        if name not in self.vars:
            self.vars[name] = len(self.vars) + 1
        return f"iv_{name}"


def translate(src):
    mod = ast.parse(src)
    cls = [n for n in mod.body if isinstance(n, ast.ClassDef) and n.name == "InternalEnforcer"]
    if len(cls) != 1:
        fail(mod, "exactly one class InternalEnforcer expected")
    fns = {}
    for n in cls[0].body:
        if isinstance(n, ast.FunctionDef):
            if n.name in fns:
                fail(n, "method defined twice")
            fns[n.name] = n
    tr = Translator()
    out = []
    for m in METHODS:
        if m not in fns:
            fail(cls[0], f"method InternalEnforcer.{m} not found")
        params, body = Method(tr, fns[m]).render()
        out.append((m, params, body))
    return tr, out


def emit(tr, methods):
    L = ["(* GENERATED by translators/internal.py from casbin/internal_enforcer.py — do not edit *)",
         "From Coq Require Import List NArith Bool.", "From PyCasbin Require Import Base IntLang.", "Import ListNotations.",
         "Local Open Scope N_scope.", "", "(* local variables and parameters *)"]
    for name, k in tr.vars.items():
        L.append(f"Definition iv_{name} : N := {k}.")
    L += ["", "(* methods *)"]
    for k, (m, _, _) in enumerate(methods, 1):
        L.append(f"Definition im{m} : N := {k}.")
    L.append("")
    for m, params, body in methods:
        L.append(f"(* InternalEnforcer.{m}(self, sec, ptype{''.join(', ' + p for p in params)}) *)")
        L.append(f"Definition gen{m} : imeth :=")
        L.append(f"  {{| im_params := [{'; '.join('iv_' + p for p in params)}];")
        L.append(f"     im_body := {body} |}}.")
        L.append("")
    L.append("Definition internal_gen : iprog :=")
    L.append("  [ " + ";\n    ".join(f"(im{m}, gen{m})" for m, _, _ in methods) + " ].")
    return "\n".join(L) + "\n"


def main():
    repo = Path(sys.argv[1] if len(sys.argv) > 1 else "/repo")
    out = Path(sys.argv[2]) if len(sys.argv) > 2 else Path(__file__).resolve().parent.parent / "coq" / "gen" / "InternalGen.v"
    try:
        tr, methods = translate((repo / "casbin" / "internal_enforcer.py").read_text())
    except (TranslationError, SyntaxError, OSError, KeyError, IndexError, AttributeError) as e:
        print(f"TRANSLATION-FAILED internal_enforcer.py: {e}")
        sys.exit(2)
    text = emit(tr, methods)
    if not out.exists() or out.read_text() != text:
        out.write_text(text)
    print(f"translated {len(methods)} methods of InternalEnforcer -> {out}")


if __name__ == "__main__":
    main()
