#!/usr/bin/env python3
"""Fail-closed translator: key_match, key_get (casbin/util/builtin_operators.py)  -->  coq/gen/KeyMatchGen.v   (C13)

Renders the two functions as programs of the language of coq/theories/StrLang.v.  Purely syntactic; the meaning is the
interpreter in StrLang.v.  Anything outside the accepted subset aborts (exit 2, `TRANSLATION-FAILED`).

Accepted: def f(key1, key2) with
  statements:  "docstring" | x = <expr> | if <expr>: ... [else: ...] | return <expr>
  expressions: locals, "text", ints (also -1), e.find("<one character>"), len(e), a == b, a > b, e[:i], e[i:]
"""
import ast
import sys
from pathlib import Path

FUNCS = ["key_match", "key_get"]
PREFIX = {"key_match": "km", "key_get": "kg"}


class TranslationError(Exception):
    pass


def fail(node, msg):
    raise TranslationError(f"line {getattr(node, 'lineno', '?')}: {msg}: {ast.dump(node)[:200] if isinstance(node, ast.AST) else node}")


class Fn:
    def __init__(self, prefix, params):
        self.prefix, self.vars, self.bound = prefix, {}, set(params)
        for p in params:
            self.vid(p)

    def vid(self, name):
        if name not in self.vars:
            self.vars[name] = len(self.vars) + 1
        return f"{self.prefix}_{name}"

    def ex(self, n):
        if isinstance(n, ast.Name):
            if n.id not in self.bound:
                fail(n, f"unknown name '{n.id}'")
            return f"SVar {self.vid(n.id)}"
        if isinstance(n, ast.Constant) and isinstance(n.value, str):
            return "SStr [" + "; ".join(str(ord(c)) for c in n.value) + "]"
        if isinstance(n, ast.Constant) and isinstance(n.value, int) and not isinstance(n.value, bool) and 0 <= n.value < 1000:
            return f"SInt {n.value}"
        if isinstance(n, ast.UnaryOp) and isinstance(n.op, ast.USub) and isinstance(n.operand, ast.Constant) and n.operand.value == 1:
            return "SInt (-1)"
        if isinstance(n, ast.Compare) and len(n.ops) == 1:
            k = {ast.Eq: "SEq", ast.Gt: "SGt"}.get(type(n.ops[0]))
            if k is None:
                fail(n, "comparison outside the subset")
            return f"{k} ({self.ex(n.left)}) ({self.ex(n.comparators[0])})"
        if isinstance(n, ast.Subscript) and isinstance(n.slice, ast.Slice) and n.slice.step is None:
            sl = n.slice
            if sl.lower is None and sl.upper is not None:
                return f"SSliceTo ({self.ex(n.value)}) ({self.ex(sl.upper)})"
            if sl.upper is None and sl.lower is not None:
                return f"SSliceFrom ({self.ex(n.value)}) ({self.ex(sl.lower)})"
            fail(n, "slice form")
        if isinstance(n, ast.Call) and not n.keywords:
            f = n.func
            if isinstance(f, ast.Name) and f.id == "len" and len(n.args) == 1:
                return f"SLen ({self.ex(n.args[0])})"
            if isinstance(f, ast.Attribute) and f.attr == "find" and len(n.args) == 1 and isinstance(n.args[0], ast.Constant) \
                    and isinstance(n.args[0].value, str) and len(n.args[0].value) == 1:
                return f"SFind ({self.ex(f.value)}) {ord(n.args[0].value)}"
            fail(n, "call outside the subset")
        fail(n, "expression outside the subset")

    def block(self, stmts):
        out = [x for x in (self.st(s) for s in stmts) if x is not None]
        return "[" + "; ".join(out) + "]"

    def st(self, s):
        if isinstance(s, ast.Expr) and isinstance(s.value, ast.Constant) and isinstance(s.value.value, str):
            return None
        if isinstance(s, ast.Assign) and len(s.targets) == 1 and isinstance(s.targets[0], ast.Name):
            e = self.ex(s.value)
            self.bound.add(s.targets[0].id)
            return f"SAssign {self.vid(s.targets[0].id)} ({e})"
        if isinstance(s, ast.If):
            return f"SIf ({self.ex(s.test)}) {self.block(s.body)} {self.block(s.orelse)}"
        if isinstance(s, ast.Return) and s.value is not None:
            return f"SReturn ({self.ex(s.value)})"
        fail(s, "statement outside the subset")


def translate(src):
    mod = ast.parse(src)
    fns = {}
    for n in mod.body:
        if isinstance(n, ast.FunctionDef):
            if n.name in fns:
                fail(n, "function defined twice")
            fns[n.name] = n
    out = []
    for name in FUNCS:
        if name not in fns:
            fail(mod, f"{name} not found")
        fn = fns[name]
        a = fn.args
        params = [x.arg for x in a.args]
        if fn.decorator_list or a.defaults or a.vararg or a.kwarg or a.kwonlyargs or len(params) != 2:
            fail(fn, "signature")
        f = Fn(PREFIX[name], params)
        out.append((name, f, params, f.block(fn.body)))
    return out


def main():
    repo = Path(sys.argv[1] if len(sys.argv) > 1 else "/repo")
    out = Path(sys.argv[2]) if len(sys.argv) > 2 else Path(__file__).resolve().parent.parent / "coq" / "gen" / "KeyMatchGen.v"
    try:
        fns = translate((repo / "casbin" / "util" / "builtin_operators.py").read_text())
    except (TranslationError, SyntaxError, OSError, KeyError, IndexError, AttributeError) as e:
        print(f"TRANSLATION-FAILED builtin_operators.py key_match/key_get: {e}")
        sys.exit(2)
    L = ["(* GENERATED by translators/keymatch.py from casbin/util/builtin_operators.py (key_match, key_get) — do not edit *)",
         "From Coq Require Import List NArith ZArith Bool.", "From PyCasbin Require Import Base StrLang.", "Import ListNotations.",
         "Local Open Scope N_scope.", ""]
    for name, f, params, body in fns:
        for v, k in f.vars.items():
            L.append(f"Definition {f.prefix}_{v} : N := {k}.")
        L.append(f"Definition {name}_params : list N := [{'; '.join(f.prefix + '_' + p for p in params)}].")
        L.append(f"Definition {name}_locals : list N := [{'; '.join(f.prefix + '_' + v for v in f.vars if v not in params)}].")
        L.append(f"Definition {name}_gen : list sst :=")
        L.append(f"  {body}.")
        L.append("")
    text = "\n".join(L)
    if not out.exists() or out.read_text() != text:
        out.write_text(text)
    print(f"translated key_match, key_get -> {out}")


if __name__ == "__main__":
    main()
