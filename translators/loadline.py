#!/usr/bin/env python3
"""Fail-closed translator: load_policy_line (casbin/persist/adapter.py)  -->  coq/gen/LoadLineGen.v   (C10, C12)

Renders the function as a program of the language of coq/theories/LineLang.v.  Purely syntactic; the meaning is the
interpreter in LineLang.v.  Anything outside the accepted subset aborts (exit 2, `TRANSLATION-FAILED`).

Accepted: def load_policy_line(line, model) with
  statements: "docstring" | x = <expr> | x.append(<expr>) | x.pop() | x[-1] += <expr> | if/elif/else | for c in <expr> | return
              | model.model[sec][key].policy.append(<expr>)
  expressions: locals, "text" literals, [], a == b, a or b, a and b, len(x) == 0, x[:1], x[0], x[1:], [v.strip() for v in x],
               sec not in model.model.keys(), key not in model.model[sec].keys()
"""
import ast
import sys
from pathlib import Path


class TranslationError(Exception):
    pass


def fail(node, msg):
    raise TranslationError(f"line {getattr(node, 'lineno', '?')}: {msg}: {ast.dump(node)[:200] if isinstance(node, ast.AST) else node}")


def is_name(n, s):
    return isinstance(n, ast.Name) and n.id == s


D = lambda src: ast.dump(ast.parse(src, mode="eval").body)
MODEL_KEYS = D("model.model.keys()")


class Tr:
    def __init__(self):
        self.vars = {"line": 1}
        self.locals = {"line"}

    def vid(self, name):
        if name not in self.vars:
            self.vars[name] = len(self.vars) + 1
        return f"lv_{name}"

    def var(self, n):
        if n.id not in self.locals:
            fail(n, f"unknown name '{n.id}'")
        return f"LVar {self.vid(n.id)}"

    def lit(self, s):
        return "LStr [" + "; ".join(str(ord(ch)) for ch in s) + "]"

    def ex(self, n):
        if isinstance(n, ast.Name):
            return self.var(n)
        if isinstance(n, ast.Constant) and isinstance(n.value, str):
            return self.lit(n.value)
        if isinstance(n, ast.List) and not n.elts:
            return "LNil"
        if isinstance(n, ast.BoolOp):
            op = "LOrE" if isinstance(n.op, ast.Or) else "LAndE"
            out = self.ex(n.values[-1])
            for v in reversed(n.values[:-1]):
                out = f"{op} ({self.ex(v)}) ({out})"
            return out
        if isinstance(n, ast.Compare) and len(n.ops) == 1:
            op, a, b = n.ops[0], n.left, n.comparators[0]
            if isinstance(op, ast.Eq):
                if isinstance(a, ast.Call) and is_name(a.func, "len") and len(a.args) == 1 and isinstance(b, ast.Constant) and b.value == 0:
                    return f"LLenIsZero ({self.ex(a.args[0])})"
                return f"LEqE ({self.ex(a)}) ({self.ex(b)})"
            if isinstance(op, ast.NotIn):
                if ast.dump(b) == MODEL_KEYS:
                    return f"LSecMissing ({self.ex(a)})"
                # model.model[<sec>].keys()
                if isinstance(b, ast.Call) and isinstance(b.func, ast.Attribute) and b.func.attr == "keys" and not b.args \
                        and isinstance(b.func.value, ast.Subscript) and ast.dump(b.func.value.value) == D("model.model"):
                    return f"LKeyMissing ({self.ex(b.func.value.slice)}) ({self.ex(a)})"
            fail(n, "comparison outside the subset")
        if isinstance(n, ast.Subscript):
            sl = n.slice
            if isinstance(sl, ast.Slice):
                if sl.lower is None and sl.step is None and isinstance(sl.upper, ast.Constant) and sl.upper.value == 1:
                    return f"LSliceTo1 ({self.ex(n.value)})"
                if sl.upper is None and sl.step is None and isinstance(sl.lower, ast.Constant) and sl.lower.value == 1:
                    return f"LSliceFrom1 ({self.ex(n.value)})"
                fail(n, "slice form")
            if isinstance(sl, ast.Constant) and sl.value == 0:
                return f"LIdx0 ({self.ex(n.value)})"
            fail(n, "subscript form")
        if isinstance(n, ast.ListComp):
            g = n.generators
            if len(g) == 1 and not g[0].ifs and isinstance(g[0].target, ast.Name) and isinstance(n.elt, ast.Call) \
                    and isinstance(n.elt.func, ast.Attribute) and n.elt.func.attr == "strip" and not n.elt.args \
                    and is_name(n.elt.func.value, g[0].target.id):
                return f"LStripAll ({self.ex(g[0].iter)})"
            fail(n, "comprehension form")
        fail(n, "expression outside the subset")

    def block(self, stmts):
        out = [x for x in (self.st(s) for s in stmts) if x is not None]
        return "[" + "; ".join(out) + "]"

    def st(self, s):
        if isinstance(s, ast.Expr) and isinstance(s.value, ast.Constant) and isinstance(s.value.value, str):
            return None
        if isinstance(s, ast.Return):
            if s.value is not None:
                fail(s, "return with a value")
            return "LReturn"
        if isinstance(s, ast.Assign) and len(s.targets) == 1 and isinstance(s.targets[0], ast.Name):
            name = s.targets[0].id
            if name in ("line", "model"):
                fail(s, "parameter rebound")
            e = self.ex(s.value)
            self.locals.add(name)
            return f"LAssign {self.vid(name)} ({e})"
        if isinstance(s, ast.AugAssign) and isinstance(s.op, ast.Add) and isinstance(s.target, ast.Subscript) \
                and isinstance(s.target.value, ast.Name) and isinstance(s.target.slice, ast.UnaryOp) and isinstance(s.target.slice.op, ast.USub) \
                and isinstance(s.target.slice.operand, ast.Constant) and s.target.slice.operand.value == 1:
            return f"LLastAdd {self.vid(self._loc(s.target.value))} ({self.ex(s.value)})"
        if isinstance(s, ast.Expr) and isinstance(s.value, ast.Call):
            c = s.value
            f = c.func
            if isinstance(f, ast.Attribute) and isinstance(f.value, ast.Name) and not c.keywords:
                if f.attr == "append" and len(c.args) == 1:
                    return f"LAppend {self.vid(self._loc(f.value))} ({self.ex(c.args[0])})"
                if f.attr == "pop" and not c.args:
                    return f"LPop {self.vid(self._loc(f.value))}"
            # model.model[sec][key].policy.append(e)
            if isinstance(f, ast.Attribute) and f.attr == "append" and len(c.args) == 1 and isinstance(f.value, ast.Attribute) \
                    and f.value.attr == "policy" and isinstance(f.value.value, ast.Subscript) and isinstance(f.value.value.value, ast.Subscript) \
                    and ast.dump(f.value.value.value.value) == D("model.model"):
                return f"LModelAppend ({self.ex(f.value.value.value.slice)}) ({self.ex(f.value.value.slice)}) ({self.ex(c.args[0])})"
            fail(s, "call statement outside the subset")
        if isinstance(s, ast.If):
            return f"LIf ({self.ex(s.test)}) {self.block(s.body)} {self.block(s.orelse)}"
        if isinstance(s, ast.For):
            if s.orelse or not isinstance(s.target, ast.Name):
                fail(s, "for form")
            it = self.ex(s.iter)
            self.locals.add(s.target.id)
            return f"LForChars {self.vid(s.target.id)} ({it}) {self.block(s.body)}"
        fail(s, "statement outside the subset")

    def _loc(self, n):
        if n.id not in self.locals:
            fail(n, f"unknown name '{n.id}'")
        return n.id


def translate(src):
    mod = ast.parse(src)
    fns = [n for n in mod.body if isinstance(n, ast.FunctionDef) and n.name == "load_policy_line"]
    if len(fns) != 1:
        fail(mod, "exactly one load_policy_line expected")
    fn = fns[0]
    a = fn.args
    if fn.decorator_list or [x.arg for x in a.args] != ["line", "model"] or a.vararg or a.kwarg or a.defaults or a.kwonlyargs:
        fail(fn, "signature must be load_policy_line(line, model)")
    tr = Tr()
    return tr, tr.block(fn.body)


def emit(tr, body):
    L = ["(* GENERATED by translators/loadline.py from casbin/persist/adapter.py (load_policy_line) — do not edit *)",
         "From Coq Require Import List NArith Bool.", "From PyCasbin Require Import Base Csv LineLang.", "Import ListNotations.",
         "Local Open Scope N_scope.", ""]
    for name, k in tr.vars.items():
        L.append(f"Definition lv_{name} : N := {k}.")
    L += ["", f"Definition load_line_locals : list N := [{'; '.join('lv_' + n for n in tr.vars if n != 'line')}].", "",
          "Definition load_line_gen : list lst :=", f"  {body}."]
    return "\n".join(L) + "\n"


def main():
    repo = Path(sys.argv[1] if len(sys.argv) > 1 else "/repo")
    out = Path(sys.argv[2]) if len(sys.argv) > 2 else Path(__file__).resolve().parent.parent / "coq" / "gen" / "LoadLineGen.v"
    try:
        tr, body = translate((repo / "casbin" / "persist" / "adapter.py").read_text())
    except (TranslationError, SyntaxError, OSError, KeyError, IndexError, AttributeError) as e:
        print(f"TRANSLATION-FAILED persist/adapter.py: {e}")
        sys.exit(2)
    text = emit(tr, body)
    if not out.exists() or out.read_text() != text:
        out.write_text(text)
    print(f"translated load_policy_line -> {out}")


if __name__ == "__main__":
    main()
