#!/usr/bin/env python3
"""Fail-closed translator: CoreEnforcer.load_policy (casbin/core_enforcer.py)  -->  coq/gen/LoadPolicyGen.v   (C11)

Renders the CONTROL SKELETON of the method as a program of the language of coq/theories/LoadLang.v: every statement must be
one of the recognised steps below (compared as syntax trees); anything else aborts (exit 2, `TRANSLATION-FAILED`).

  need_to_rebuild = True | False                                              SNeed
  new_model = copy.deepcopy(self.model) ; new_model.clear_policy()            SNewModel      (the two statements together)
  self.adapter.load_policy(new_model)                                         SAdapterLoad
  new_model.sort_policies_by_subject_hierarchy()                              SSortHier
  new_model.sort_policies_by_priority()                                       SSortPrio
  new_model.print_policy()                                                    SPrint
  for rm in self.rm_map.values(): rm.clear()                                  SClearRms
  for crm in self.cond_rm_map.values(): crm.clear()                           SClearCondRms
  new_model.build_role_links(self.rm_map)                                     SBuildNew
  new_model.build_conditional_role_links(self.cond_rm_map)                    SBuildCondNew
  self.model = new_model                                                      SCommit
  self.build_role_links()                                                     SSelfBuild
  self.model.build_role_links(self.rm_map)                                    SBuildOwn   (CoreEnforcer.build_role_links; Policy.build_role_links
                                                                                          must be the recognised loop over self["g"].items())
  if <cond>: ... [else: ...]                                                  SIfL
       <cond> ::= self.auto_build_role_links | need_to_rebuild | len(self.rm_map) != 0 | len(self.cond_rm_map) != 0 | c and c
  try: ... except Exception as e: ... ; raise e                               STryL
"""
import ast
import sys
from pathlib import Path


class TranslationError(Exception):
    pass


def fail(node, msg):
    raise TranslationError(f"line {getattr(node, 'lineno', '?')}: {msg}: {ast.dump(node)[:200] if isinstance(node, ast.AST) else node}")


def D(src):
    return ast.dump(ast.parse(src).body[0])


SIMPLE = {
    D("self.adapter.load_policy(new_model)"): "SAdapterLoad",
    D("new_model.sort_policies_by_subject_hierarchy()"): "SSortHier",
    D("new_model.sort_policies_by_priority()"): "SSortPrio",
    D("new_model.print_policy()"): "SPrint",
    D("for rm in self.rm_map.values():\n    rm.clear()"): "SClearRms",
    D("for crm in self.cond_rm_map.values():\n    crm.clear()"): "SClearCondRms",
    D("new_model.build_role_links(self.rm_map)"): "SBuildNew",
    D("new_model.build_conditional_role_links(self.cond_rm_map)"): "SBuildCondNew",
    D("self.model = new_model"): "SCommit",
    D("self.build_role_links()"): "SSelfBuild",
    D("self.model.build_role_links(self.rm_map)"): "SBuildOwn",
    D("need_to_rebuild = True"): "SNeed true",
    D("need_to_rebuild = False"): "SNeed false",
}
DEEPCOPY = D("new_model = copy.deepcopy(self.model)")
CLEAR = D("new_model.clear_policy()")
RAISE_E = D("raise e")
CONDS = {ast.dump(ast.parse(s, mode="eval").body): c for s, c in [
    ("self.auto_build_role_links", "CAutoBuild"), ("need_to_rebuild", "CNeed"),
    ("len(self.rm_map) != 0", "CRmMapNonEmpty"), ("len(self.cond_rm_map) != 0", "CCondMapNonEmpty")]}


def cond(n):
    d = ast.dump(n)
    if d in CONDS:
        return CONDS[d]
    if isinstance(n, ast.BoolOp) and isinstance(n.op, ast.And):
        out = cond(n.values[-1])
        for v in reversed(n.values[:-1]):
            out = f"CAndC ({cond(v)}) ({out})"
        return out
    fail(n, "condition outside the subset")


def block(stmts):
    out = []
    i = 0
    while i < len(stmts):
        s = stmts[i]
        d = ast.dump(s)
        if isinstance(s, ast.Expr) and isinstance(s.value, ast.Constant) and isinstance(s.value.value, str):
            i += 1
            continue
        if d == DEEPCOPY:
            if i + 1 >= len(stmts) or ast.dump(stmts[i + 1]) != CLEAR:
                fail(s, "deepcopy must be followed by new_model.clear_policy()")
            out.append("SNewModel")
            i += 2
            continue
        if d in SIMPLE:
            out.append(SIMPLE[d])
        elif isinstance(s, ast.If):
            c = cond(s.test)
            out.append(f"SIfL ({c}) {block(s.body)} {block(s.orelse)}")
        elif isinstance(s, ast.Try):
            if s.orelse or s.finalbody or len(s.handlers) != 1:
                fail(s, "try form")
            h = s.handlers[0]
            if not (isinstance(h.type, ast.Name) and h.type.id == "Exception" and h.name == "e" and h.body and ast.dump(h.body[-1]) == RAISE_E):
                fail(h, "handler must be `except Exception as e: ...; raise e`")
            out.append(f"STryL {block(s.body)} {block(h.body[:-1])}")
        else:
            fail(s, "statement outside the recognised steps")
        i += 1
    return "[" + "; ".join(out) + "]"


POLICY_BUILD = """def build_role_links(self, rm_map):
    if "g" not in self.keys():
        return
    for ptype, ast in self["g"].items():
        rm = rm_map.get(ptype)
        if rm:
            ast.build_role_links(rm)
"""


def method(cls, name, params):
    fns = [n for n in cls.body if isinstance(n, ast.FunctionDef) and n.name == name]
    if len(fns) != 1:
        fail(cls, f"exactly one {name}")
    fn = fns[0]
    a = fn.args
    if fn.decorator_list or [x.arg for x in a.args] != params or a.vararg or a.kwarg or a.defaults or a.kwonlyargs:
        fail(fn, f"signature must be {name}({', '.join(params)})")
    return fn


def nodoc(stmts):
    return [s for s in stmts if not (isinstance(s, ast.Expr) and isinstance(s.value, ast.Constant) and isinstance(s.value.value, str))]


def translate(src, policy_src):
    mod = ast.parse(src)
    cls = [n for n in mod.body if isinstance(n, ast.ClassDef) and n.name == "CoreEnforcer"]
    if len(cls) != 1:
        fail(mod, "class CoreEnforcer")
    load = block(method(cls[0], "load_policy", ["self"]).body)
    build = block(method(cls[0], "build_role_links", ["self"]).body)
    # Policy.build_role_links (casbin/model/policy.py): what SBuildNew / SBuildOwn mean rests on this exact loop
    pmod = ast.parse(policy_src)
    pcls = [n for n in pmod.body if isinstance(n, ast.ClassDef) and n.name == "Policy"]
    if len(pcls) != 1:
        fail(pmod, "class Policy")
    got = [ast.dump(x) for x in nodoc(method(pcls[0], "build_role_links", ["self", "rm_map"]).body)]
    want = [ast.dump(x) for x in nodoc(ast.parse(POLICY_BUILD).body[0].body)]
    if got != want:
        fail(pcls[0], "Policy.build_role_links is not the recognised loop over self['g'].items()")
    return load, build


def main():
    repo = Path(sys.argv[1] if len(sys.argv) > 1 else "/repo")
    out = Path(sys.argv[2]) if len(sys.argv) > 2 else Path(__file__).resolve().parent.parent / "coq" / "gen" / "LoadPolicyGen.v"
    try:
        body, build = translate((repo / "casbin" / "core_enforcer.py").read_text(), (repo / "casbin" / "model" / "policy.py").read_text())
    except (TranslationError, SyntaxError, OSError, KeyError, IndexError, AttributeError) as e:
        print(f"TRANSLATION-FAILED core_enforcer.py load_policy: {e}")
        sys.exit(2)
    text = "\n".join(["(* GENERATED by translators/loadpolicy.py from casbin/core_enforcer.py (CoreEnforcer.load_policy) — do not edit *)",
                      "From Coq Require Import List NArith Bool.", "From PyCasbin Require Import Base LoadLang.", "Import ListNotations.", "",
                      "Definition load_policy_gen : list lstmt :=", f"  {body}.", "",
                      "(* CoreEnforcer.build_role_links; Policy.build_role_links was checked to be the recognised loop *)",
                      "Definition build_role_links_gen : list lstmt :=", f"  {build}.", ""])
    if not out.exists() or out.read_text() != text:
        out.write_text(text)
    print(f"translated CoreEnforcer.load_policy, build_role_links -> {out}")


if __name__ == "__main__":
    main()
