#!/usr/bin/env python3
"""Fail-closed translator: casbin/model/policy.py  -->  coq/gen/PolicyGen.v   (properties C06, C07, C09)

Renders the methods of class Policy that work on ONE assertion's rule list (METHODS below) as programs of the small
imperative language of coq/theories/PolLang.v.  The rendering is purely syntactic: one Python construct, one
constructor; what the constructors MEAN is fixed by the interpreter in PolLang.v.  Anything outside the accepted subset
aborts with TranslationError (exit 2, `TRANSLATION-FAILED`).

Accepted Python
  def m(self, sec, ptype, <params>, [*vararg]):   no decorators, no defaults, no keyword-only arguments
  statements
    "docstring"                                          dropped
    <name> = self[sec][ptype]                            SBindAst        (the name becomes an alias of the assertion)
    <local> = <expr>                                     SAssign
    <local>.append(<expr>)                               SLocAppend
    <A>.policy.append(<expr>) | .remove(<expr>)          SPolAppend | SPolRemove      (<A> = self[sec][ptype] or an alias)
    <A>.policy[<expr>] = <expr>                          SPolSet
    <A>.policy_map[<anything>] = <anything>              SNop            (never read by the translated methods; a READ is rejected)
    if / else, for x in E, for i, x in enumerate(E), for a, b in zip(E1, E2), for i in range(E, 0, -1), break, pass
    return [<expr>], raise Exception("<text>")           SRaise 4 if the text mentions "same priority", else 16
    try: <block> except Exception as e: print(e)         STry
    self.<m>(sec, ptype, <exprs>)                        SCall           (<m> one of METHODS)
  expressions
    locals and parameters, True/False/None, integers, "" , []
    x in E, x not in E, not, and, or, == != < <= > >=, E[i], E[:i], len(E), int(E), E + E, E - E, E.index(x)
    all(<expr> for i, v in enumerate(E)), [x for x in E if <expr>]
    <A>.policy, <A>.priority_index, "p_priority" in <A>.tokens, <A>.tokens.index("p_priority")
    sec in / not in self.keys(), ptype in / not in self[sec], sec == "p"
    callable(v), and  callable(v) and v(<anything>)   (the call itself becomes XUnsupported: unreachable for strings)
    self.<m>(sec, ptype, <exprs>)                        XCall
"""
import ast
import sys
from pathlib import Path

METHODS = ["get_policy", "get_filtered_policy", "has_policy", "add_policy", "add_policies", "update_policy", "update_policies",
           "remove_policy", "remove_policies", "remove_policies_with_effected", "remove_filtered_policy_returns_effects",
           "remove_filtered_policy", "get_values_for_field_in_policy"]


class TranslationError(Exception):
    pass


def fail(node, msg):
    line = getattr(node, "lineno", "?")
    raise TranslationError(f"line {line}: {msg}: {ast.dump(node)[:200] if isinstance(node, ast.AST) else node}")


CMP = {ast.Eq: "CEq", ast.NotEq: "CNe", ast.Lt: "CLt", ast.LtE: "CLe", ast.Gt: "CGt", ast.GtE: "CGe"}


def is_name(n, s):
    return isinstance(n, ast.Name) and n.id == s


def is_self_sec(n):
    """self[sec]"""
    return isinstance(n, ast.Subscript) and is_name(n.value, "self") and is_name(n.slice, "sec")


class Method:
    def __init__(self, tr, fn):
        self.tr = tr
        self.fn = fn
        self.aliases = set()
        self.locals = set()
        self.order = []          # every name the method binds, in order of first binding (parameters first)

    # ---------------------------------------------------------------- assertion handle
    def is_ast(self, n):
        if isinstance(n, ast.Name) and n.id in self.aliases:
            return True
        return isinstance(n, ast.Subscript) and is_self_sec(n.value) and is_name(n.slice, "ptype")

    def ast_attr(self, n, attr):
        return isinstance(n, ast.Attribute) and n.attr == attr and self.is_ast(n.value)

    # ---------------------------------------------------------------- expressions
    def var(self, name, node):
        if name in ("self", "sec", "ptype"):
            fail(node, f"'{name}' used outside the recognised forms")
        if name not in self.locals:
            fail(node, f"unknown name '{name}'")
        return f"XVar {self.tr.vid(name)}"

    def ex(self, n):
        if isinstance(n, ast.Name):
            return self.var(n.id, n)
        if isinstance(n, ast.Constant):
            v = n.value
            if v is True or v is False:
                return f"XB {'true' if v else 'false'}"
            if v is None:
                return "XNoneLit"
            if isinstance(v, int):
                return f"XI ({v})%Z"
            if v == "":
                return "XS 0"
            fail(n, "constant outside the subset")
        if isinstance(n, ast.List) and not n.elts:
            return "XNilLit"
        if isinstance(n, ast.UnaryOp) and isinstance(n.op, ast.Not):
            return f"XNot ({self.ex(n.operand)})"
        if isinstance(n, ast.UnaryOp) and isinstance(n.op, ast.USub) and isinstance(n.operand, ast.Constant) \
                and isinstance(n.operand.value, int):
            return f"XI (-{n.operand.value})%Z"
        if isinstance(n, ast.BoolOp):
            op = "XAnd" if isinstance(n.op, ast.And) else "XOr"
            vals = list(n.values)
            # callable(v) and v(...)
            if isinstance(n.op, ast.And) and len(vals) == 2 and isinstance(vals[0], ast.Call) and is_name(vals[0].func, "callable") \
                    and len(vals[0].args) == 1 and isinstance(vals[0].args[0], ast.Name) and isinstance(vals[1], ast.Call) \
                    and is_name(vals[1].func, vals[0].args[0].id):
                return f"XAnd (XCallable ({self.ex(vals[0].args[0])})) XUnsupported"
            out = self.ex(vals[-1])
            for v in reversed(vals[:-1]):
                out = f"{op} ({self.ex(v)}) ({out})"
            return out
        if isinstance(n, ast.Compare):
            if len(n.ops) != 1:
                fail(n, "chained comparison")
            op, a, b = n.ops[0], n.left, n.comparators[0]
            if isinstance(op, (ast.In, ast.NotIn)):
                neg = isinstance(op, ast.NotIn)
                core = None
                if is_name(a, "sec") and isinstance(b, ast.Call) and isinstance(b.func, ast.Attribute) and b.func.attr == "keys" \
                        and is_name(b.func.value, "self") and not b.args and not b.keywords:
                    core = "XSecOk"
                elif is_name(a, "ptype") and is_self_sec(b):
                    core = "XPtypeOk"
                elif isinstance(a, ast.Constant) and a.value == "p_priority" and self.ast_attr(b, "tokens"):
                    core = "XHasPrioTok"
                else:
                    core = f"XIn ({self.ex(a)}) ({self.ex(b)})"
                return f"XNot ({core})" if neg else core
            if type(op) not in CMP:
                fail(n, "comparison operator")
            if isinstance(op, ast.Eq) and is_name(a, "sec") and isinstance(b, ast.Constant) and b.value == "p":
                return "XSecIsP"
            return f"XCmp {CMP[type(op)]} ({self.ex(a)}) ({self.ex(b)})"
        if isinstance(n, ast.Attribute):
            if self.ast_attr(n, "policy"):
                return "XPol"
            if self.ast_attr(n, "priority_index"):
                return "XPrioIndex"
            fail(n, "attribute outside the subset")
        if isinstance(n, ast.Subscript):
            if isinstance(n.slice, ast.Slice):
                sl = n.slice
                if sl.lower is None and sl.step is None and sl.upper is not None:
                    return f"XSliceTo ({self.ex(n.value)}) ({self.ex(sl.upper)})"
                fail(n, "slice form")
            return f"XIdx ({self.ex(n.value)}) ({self.ex(n.slice)})"
        if isinstance(n, ast.BinOp) and isinstance(n.op, (ast.Add, ast.Sub)):
            return f"{'XAdd' if isinstance(n.op, ast.Add) else 'XSub'} ({self.ex(n.left)}) ({self.ex(n.right)})"
        if isinstance(n, ast.Call):
            if n.keywords:
                fail(n, "keyword arguments")
            f = n.func
            if isinstance(f, ast.Name) and f.id in ("len", "int", "callable") and len(n.args) == 1:
                return f"{ {'len': 'XLen', 'int': 'XInt', 'callable': 'XCallable'}[f.id]} ({self.ex(n.args[0])})"
            if isinstance(f, ast.Name) and f.id == "all" and len(n.args) == 1 and isinstance(n.args[0], ast.GeneratorExp):
                g = n.args[0]
                if len(g.generators) != 1:
                    fail(n, "generator form")
                c = g.generators[0]
                if c.ifs or c.is_async or not (isinstance(c.iter, ast.Call) and is_name(c.iter.func, "enumerate") and len(c.iter.args) == 1
                                               and isinstance(c.target, ast.Tuple) and len(c.target.elts) == 2
                                               and all(isinstance(e, ast.Name) for e in c.target.elts)):
                    fail(n, "generator form")
                lst = self.ex(c.iter.args[0])
                i, v = (e.id for e in c.target.elts)
                return self.scoped([i, v], lambda: f"XAllEnum {self.tr.vid(i)} {self.tr.vid(v)} ({lst}) ({self.ex(g.elt)})")
            if isinstance(f, ast.Attribute) and f.attr == "index" and len(n.args) == 1:
                if self.ast_attr(f.value, "tokens") and isinstance(n.args[0], ast.Constant) and n.args[0].value == "p_priority":
                    return "XPrioTokIdx"
                return f"XIndexOf ({self.ex(f.value)}) ({self.ex(n.args[0])})"
            if isinstance(f, ast.Attribute) and is_name(f.value, "self") and f.attr in METHODS:
                return f"XCall {self.tr.mid(f.attr)} [{'; '.join(self.call_args(n))}]"
            fail(n, "call outside the subset")
        if isinstance(n, ast.ListComp):
            if len(n.generators) != 1:
                fail(n, "comprehension form")
            c = n.generators[0]
            if c.is_async or len(c.ifs) != 1 or not isinstance(c.target, ast.Name) or not is_name(n.elt, c.target.id):
                fail(n, "comprehension form")
            lst = self.ex(c.iter)
            x = c.target.id
            return self.scoped([x], lambda: f"XFilterComp {self.tr.vid(x)} ({lst}) ({self.ex(c.ifs[0])})")
        fail(n, "expression outside the subset")

    def scoped(self, names, k):
        new = [x for x in names if x not in self.locals]
        for x in names:
            if x in ("self", "sec", "ptype"):
                fail(self.fn, f"'{x}' rebound")
        self.locals.update(new)
        for x in names:
            if x not in self.order:
                self.order.append(x)
        try:
            return k()
        finally:
            self.locals.difference_update(new)

    def call_args(self, n):
        if len(n.args) < 2 or not is_name(n.args[0], "sec") or not is_name(n.args[1], "ptype"):
            fail(n, "a call of a sibling method must pass sec, ptype through")
        for a in n.args:
            if isinstance(a, ast.Starred):
                fail(n, "starred argument")
        return [f"({self.ex(a)})" for a in n.args[2:]]

    # ---------------------------------------------------------------- statements
    def bind(self, name, node):
        if name in ("self", "sec", "ptype") or name in self.aliases:
            fail(node, f"'{name}' rebound")
        self.locals.add(name)
        if name not in self.order:
            self.order.append(name)
        return self.tr.vid(name)

    def block(self, stmts):
        out = []
        for s in stmts:
            r = self.st(s)
            if r is not None:
                out.append(r)
        return "[" + "; ".join(out) + "]"

    def st(self, s):
        if isinstance(s, ast.Expr) and isinstance(s.value, ast.Constant) and isinstance(s.value.value, str):
            return None
        if isinstance(s, ast.Pass):
            return "SNop"
        if isinstance(s, ast.Break):
            return "SBreak"
        if isinstance(s, ast.Return):
            return f"SReturn ({self.ex(s.value) if s.value is not None else 'XNoneLit'})"
        if isinstance(s, ast.Raise):
            e = s.exc
            if s.cause is None and isinstance(e, ast.Call) and is_name(e.func, "Exception") and len(e.args) == 1 \
                    and isinstance(e.args[0], ast.Constant) and isinstance(e.args[0].value, str):
                return f"SRaise {4 if 'same priority' in e.args[0].value else 16}"
            fail(s, "raise form")
        if isinstance(s, ast.Assign):
            if len(s.targets) != 1:
                fail(s, "multiple targets")
            t = s.targets[0]
            if isinstance(t, ast.Name):
                if self.is_ast(s.value) and not isinstance(s.value, ast.Name):
                    if t.id in self.locals or t.id in ("self", "sec", "ptype"):
                        fail(s, "alias name already in use")
                    self.aliases.add(t.id)
                    return "SBindAst"
                e = self.ex(s.value)
                return f"SAssign {self.bind(t.id, s)} ({e})"
            if isinstance(t, ast.Subscript):
                if self.ast_attr(t.value, "policy_map"):
                    return "SNop"
                if self.ast_attr(t.value, "policy") and not isinstance(t.slice, ast.Slice):
                    return f"SPolSet ({self.ex(t.slice)}) ({self.ex(s.value)})"
            fail(s, "assignment target")
        if isinstance(s, ast.Expr) and isinstance(s.value, ast.Call):
            c = s.value
            f = c.func
            if c.keywords:
                fail(s, "keyword arguments")
            if isinstance(f, ast.Attribute) and f.attr in ("append", "remove") and len(c.args) == 1:
                if self.ast_attr(f.value, "policy"):
                    return f"{'SPolAppend' if f.attr == 'append' else 'SPolRemove'} ({self.ex(c.args[0])})"
                if f.attr == "append" and isinstance(f.value, ast.Name) and f.value.id in self.locals:
                    return f"SLocAppend {self.tr.vid(f.value.id)} ({self.ex(c.args[0])})"
            if isinstance(f, ast.Attribute) and is_name(f.value, "self") and f.attr in METHODS:
                return f"SCall {self.tr.mid(f.attr)} [{'; '.join(self.call_args(c))}]"
            fail(s, "call statement outside the subset")
        if isinstance(s, ast.If):
            c = self.ex(s.test)
            return f"SIf ({c}) {self.block(s.body)} {self.block(s.orelse)}"
        if isinstance(s, ast.For):
            if s.orelse:
                fail(s, "for-else")
            it, t = s.iter, s.target
            if isinstance(it, ast.Call) and is_name(it.func, "enumerate") and len(it.args) == 1 and not it.keywords:
                if not (isinstance(t, ast.Tuple) and len(t.elts) == 2 and all(isinstance(e, ast.Name) for e in t.elts)):
                    fail(s, "enumerate target")
                lst = self.ex(it.args[0])
                i, x = self.bind(t.elts[0].id, s), self.bind(t.elts[1].id, s)
                return f"SForEnum {i} {x} ({lst}) {self.block(s.body)}"
            if isinstance(it, ast.Call) and is_name(it.func, "zip") and len(it.args) == 2 and not it.keywords:
                if not (isinstance(t, ast.Tuple) and len(t.elts) == 2 and all(isinstance(e, ast.Name) for e in t.elts)):
                    fail(s, "zip target")
                l1, l2 = self.ex(it.args[0]), self.ex(it.args[1])
                a, b = self.bind(t.elts[0].id, s), self.bind(t.elts[1].id, s)
                return f"SForZip {a} {b} ({l1}) ({l2}) {self.block(s.body)}"
            if isinstance(it, ast.Call) and is_name(it.func, "range") and not it.keywords:
                a = it.args
                if len(a) == 3 and isinstance(a[1], ast.Constant) and a[1].value == 0 and isinstance(a[2], ast.UnaryOp) \
                        and isinstance(a[2].op, ast.USub) and isinstance(a[2].operand, ast.Constant) and a[2].operand.value == 1 \
                        and isinstance(t, ast.Name):
                    frm = self.ex(a[0])
                    return f"SForDown {self.bind(t.id, s)} ({frm}) {self.block(s.body)}"
                fail(s, "range form")
            if not isinstance(t, ast.Name):
                fail(s, "for target")
            lst = self.ex(it)
            return f"SFor {self.bind(t.id, s)} ({lst}) {self.block(s.body)}"
        if isinstance(s, ast.Try):
            if s.orelse or s.finalbody or len(s.handlers) != 1:
                fail(s, "try form")
            h = s.handlers[0]
            ok = is_name(h.type, "Exception") and h.name and len(h.body) == 1 and isinstance(h.body[0], ast.Expr) \
                and isinstance(h.body[0].value, ast.Call) and is_name(h.body[0].value.func, "print") \
                and len(h.body[0].value.args) == 1 and is_name(h.body[0].value.args[0], h.name)
            if not ok:
                fail(s, "except handler form")
            return f"STry {self.block(s.body)}"
        fail(s, "statement outside the subset")

    def render(self):
        fn = self.fn
        a = fn.args
        if fn.decorator_list or a.defaults or a.kwonlyargs or a.kw_defaults or a.kwarg or a.posonlyargs:
            fail(fn, "method signature")
        names = [x.arg for x in a.args]
        if names[:3] != ["self", "sec", "ptype"]:
            fail(fn, "method must start (self, sec, ptype, ...)")
        params = names[3:] + ([a.vararg.arg] if a.vararg else [])
        for p in params:
            self.bind(p, fn)
        body = self.block(fn.body)
        return params, [x for x in self.order if x not in params], body


class Translator:
    def __init__(self):
        self.vars = {}

    def vid(self, name):
        if name not in self.vars:
            self.vars[name] = len(self.vars) + 1
        return f"v_{name}"

    def mid(self, name):
        return f"m_{name}"


def check_no_policy_map_reads(cls):
    for fn in cls.body:
        if not isinstance(fn, ast.FunctionDef):
            continue
        stores = set()
        for n in ast.walk(fn):
            if isinstance(n, ast.Assign):
                for t in n.targets:
                    if isinstance(t, ast.Subscript) and isinstance(t.value, ast.Attribute) and t.value.attr == "policy_map":
                        stores.add(id(t.value))
        for n in ast.walk(fn):
            if isinstance(n, ast.Attribute) and n.attr == "policy_map" and id(n) not in stores:
                fail(n, f"policy_map is read in Policy.{fn.name} (the translation drops its writes)")


def translate(src):
    mod = ast.parse(src)
    cls = [n for n in mod.body if isinstance(n, ast.ClassDef) and n.name == "Policy"]
    if len(cls) != 1:
        fail(mod, "exactly one class Policy expected")
    cls = cls[0]
    check_no_policy_map_reads(cls)
    fns = {}
    for n in cls.body:
        if isinstance(n, ast.FunctionDef):
            if n.name in fns:
                fail(n, "method defined twice")
            fns[n.name] = n
    tr = Translator()
    out = []
    for m in METHODS:
        if m not in fns:
            fail(cls, f"method Policy.{m} not found")
        params, locs, body = Method(tr, fns[m]).render()
        out.append((m, params, locs, body))
    return tr, out


def emit(tr, methods):
    L = ["(* GENERATED by translators/policy.py from casbin/model/policy.py — do not edit *)",
         "From Coq Require Import List NArith ZArith Bool.", "From PyCasbin Require Import Base PolLang.", "Import ListNotations.",
         "Local Open Scope N_scope.", "", "(* local variables and parameters *)"]
    for name, k in tr.vars.items():
        L.append(f"Definition v_{name} : N := {k}.")
    L += ["", "(* methods *)"]
    for k, (m, _, _, _) in enumerate(methods, 1):
        L.append(f"Definition m_{m} : N := {k}.")
    L.append("")
    for m, params, locs, body in methods:
        L.append(f"(* Policy.{m}(self, sec, ptype{''.join(', ' + p for p in params)}) *)")
        L.append(f"Definition {m}_gen : meth :=")
        L.append(f"  {{| m_params := [{'; '.join('v_' + p for p in params)}];")
        L.append(f"     m_locals := [{'; '.join('v_' + p for p in locs)}];")
        L.append(f"     m_body := {body} |}}.")
        L.append("")
    L.append("Definition policy_gen : prog :=")
    L.append("  [ " + ";\n    ".join(f"(m_{m}, {m}_gen)" for m, _, _, _ in methods) + " ].")
    return "\n".join(L) + "\n"


def main():
    repo = Path(sys.argv[1] if len(sys.argv) > 1 else "/repo")
    out = Path(sys.argv[2]) if len(sys.argv) > 2 else Path(__file__).resolve().parent.parent / "coq" / "gen" / "PolicyGen.v"
    src = (repo / "casbin" / "model" / "policy.py").read_text()
    try:
        tr, methods = translate(src)
    except (TranslationError, SyntaxError, OSError, KeyError, IndexError, AttributeError) as e:
        print(f"TRANSLATION-FAILED policy.py: {e}")
        sys.exit(2)
    text = emit(tr, methods)
    if not out.exists() or out.read_text() != text:
        out.write_text(text)
    print(f"translated {len(methods)} methods of Policy -> {out}")


if __name__ == "__main__":
    main()
