#!/usr/bin/env python3
"""Fail-closed translator: the p-rule wrappers of casbin/management_enforcer.py  -->  coq/gen/PolWrapGen.v   (C06 C07 C09)

  ManagementEnforcer.add_named_policy, add_named_policies, remove_named_policy, remove_named_policies,
  remove_filtered_named_policy; their un-named forms (add_policy, add_policies, remove_policy, remove_policies,
  remove_filtered_policy) must be the recognised delegations with "p".

Renders each wrapper as a program of the language of coq/theories/PolWrapLang.v; anything outside the accepted shapes aborts
(exit 2, `TRANSLATION-FAILED`).  Single-rule wrappers must have the shape
    if len(params) == 1 and isinstance(params[0], list):
        str_slice = params[0]
        <block on str_slice>
    else:
        <the same block on list(params)>
    <tail>
(the two blocks are compared after replacing `str_slice` / `list(params)` by one placeholder).
Statements:  x = self._<internal>("p", ptype, <args>) | return x | return self._<internal>("p", ptype, <args>)
"""
import ast
import copy
import sys
from pathlib import Path

METHODS = [("add_named_policy", "single"), ("add_named_policies", "batch"), ("remove_named_policy", "single"),
           ("remove_named_policies", "batch"), ("remove_filtered_named_policy", "filtered")]
INTERNAL = {"_add_policy": "WAdd", "_add_policies": "WAddMany", "_remove_policy": "WRemove", "_remove_policies": "WRemoveMany",
            "_remove_filtered_policy": "WRemoveFiltered"}
DELEGATIONS = {
    "add_policy": 'def add_policy(self, *params):\n    return self.add_named_policy("p", *params)\n',
    "add_policies": 'def add_policies(self, rules):\n    return self.add_named_policies("p", rules)\n',
    "remove_policy": 'def remove_policy(self, *params):\n    return self.remove_named_policy("p", *params)\n',
    "remove_policies": 'def remove_policies(self, rules):\n    return self.remove_named_policies("p", rules)\n',
    "remove_filtered_policy": 'def remove_filtered_policy(self, field_index, *field_values):\n'
                              '    return self.remove_filtered_named_policy("p", field_index, *field_values)\n',
}
TEST = "len(params) == 1 and isinstance(params[0], list)"
RULE = "__THE_RULE__"


class TranslationError(Exception):
    pass


def fail(node, msg):
    raise TranslationError(f"line {getattr(node, 'lineno', '?')}: {msg}: {ast.dump(node)[:200] if isinstance(node, ast.AST) else node}")


def nodoc(stmts):
    return [s for s in stmts if not (isinstance(s, ast.Expr) and isinstance(s.value, ast.Constant) and isinstance(s.value.value, str))]


def D(n):
    return ast.dump(n)


def E(src):
    return ast.dump(ast.parse(src, mode="eval").body)


class Subst(ast.NodeTransformer):
    def visit_Name(self, n):
        return ast.Name(id=RULE, ctx=ast.Load()) if n.id == "str_slice" else n

    def visit_Call(self, n):
        if D(n) == E("list(params)"):
            return ast.Name(id=RULE, ctx=ast.Load())
        return self.generic_visit(n)


class Wr:
    def __init__(self, kind):
        self.kind, self.res = kind, None

    def call(self, s, v):
        if not (isinstance(v, ast.Call) and isinstance(v.func, ast.Attribute) and isinstance(v.func.value, ast.Name) and v.func.value.id == "self"
                and v.func.attr in INTERNAL and not v.keywords and len(v.args) >= 3 and D(v.args[0]) == E('"p"') and D(v.args[1]) == E("ptype")):
            fail(s, "not a recognised internal call")
        m, rest = INTERNAL[v.func.attr], v.args[2:]
        ok = {"single": m in ("WAdd", "WRemove") and len(rest) == 1 and D(rest[0]) == E(RULE),
              "batch": m in ("WAddMany", "WRemoveMany") and len(rest) == 1 and D(rest[0]) == E("rules"),
              "filtered": m == "WRemoveFiltered" and len(rest) == 2 and D(rest[0]) == E("field_index") and isinstance(rest[1], ast.Starred)
                          and D(rest[1].value) == E("field_values")}[self.kind]
        if not ok:
            fail(s, "arguments of the internal call")
        return m

    def st(self, s):
        if isinstance(s, ast.Assign) and len(s.targets) == 1 and isinstance(s.targets[0], ast.Name):
            if self.res not in (None, s.targets[0].id):
                fail(s, "two result variables")
            self.res = s.targets[0].id
            return f"PWAssignCall {self.call(s, s.value)}"
        if isinstance(s, ast.Return) and self.res is not None and D(s.value) == E(self.res):
            return "PWReturnVar"
        if isinstance(s, ast.Return) and s.value is not None and self.res is None:
            return f"PWReturnCall {self.call(s, s.value)}"
        fail(s, "statement outside the subset")


def method(cls, name):
    fns = [n for n in cls.body if isinstance(n, ast.FunctionDef) and n.name == name]
    if len(fns) != 1:
        fail(cls, f"exactly one {cls.name}.{name}")
    return fns[0]


def same_body(fn, src, what):
    w = ast.parse(src).body[0]
    if fn.decorator_list or [D(x) for x in nodoc(fn.body)] != [D(x) for x in nodoc(w.body)] or D(fn.args) != D(w.args):
        fail(fn, f"{what} is not the recognised function")


def translate(repo):
    mmod = ast.parse((repo / "casbin" / "management_enforcer.py").read_text())
    cs = [n for n in mmod.body if isinstance(n, ast.ClassDef) and n.name == "ManagementEnforcer"]
    if len(cs) != 1:
        fail(mmod, "class ManagementEnforcer")
    me = cs[0]
    for name, src in DELEGATIONS.items():
        same_body(method(me, name), src, f"ManagementEnforcer.{name}")
    out = []
    for name, kind in METHODS:
        fn = method(me, name)
        a = fn.args
        want = {"single": (["self", "ptype"], "params"), "batch": (["self", "ptype", "rules"], None),
                "filtered": (["self", "ptype", "field_index"], "field_values")}[kind]
        if fn.decorator_list or [x.arg for x in a.args] != want[0] or (a.vararg.arg if a.vararg else None) != want[1] or a.defaults or a.kwonlyargs or a.kwarg:
            fail(fn, "signature")
        body = nodoc(fn.body)
        if kind == "single":
            i = next((j for j, s in enumerate(body) if isinstance(s, ast.If) and D(s.test) == E(TEST)), None)
            if i is None:
                fail(fn, "the one-list / separate-arguments test is missing")
            iff = body[i]
            b1 = nodoc(iff.body)
            if not b1 or D(b1[0]) != ast.dump(ast.parse("str_slice = params[0]").body[0]):
                fail(iff, "first branch must start with str_slice = params[0]")
            n1 = [D(Subst().visit(copy.deepcopy(s))) for s in b1[1:]]
            n2 = [D(Subst().visit(copy.deepcopy(s))) for s in nodoc(iff.orelse)]
            if n1 != n2:
                fail(iff, "the two branches differ beyond the spelling of the rule")
            stmts = body[:i] + [Subst().visit(copy.deepcopy(s)) for s in nodoc(iff.orelse)] + body[i + 1:]
        else:
            stmts = body
        w = Wr(kind)
        out.append((name, "[" + "; ".join(w.st(s) for s in stmts) + "]"))
    return out


def main():
    repo = Path(sys.argv[1] if len(sys.argv) > 1 else "/repo")
    out = Path(sys.argv[2]) if len(sys.argv) > 2 else Path(__file__).resolve().parent.parent / "coq" / "gen" / "PolWrapGen.v"
    try:
        ms = translate(repo)
    except (TranslationError, SyntaxError, OSError, KeyError, IndexError, AttributeError) as e:
        print(f"TRANSLATION-FAILED management_enforcer.py p-rule wrappers: {e}")
        sys.exit(2)
    L = ["(* GENERATED by translators/polwrap.py from casbin/management_enforcer.py — do not edit *)",
         "From Coq Require Import List NArith Bool.", "From PyCasbin Require Import Base PolWrapLang.", "Import ListNotations.", ""]
    for name, body in ms:
        L += [f"Definition {name}_gen : list pwst :=", f"  {body}.", ""]
    text = "\n".join(L)
    if not out.exists() or out.read_text() != text:
        out.write_text(text)
    print(f"translated {len(ms)} p-rule wrappers -> {out}")


if __name__ == "__main__":
    main()
