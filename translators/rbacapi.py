#!/usr/bin/env python3
"""Fail-closed translator: the policy-changing RBAC API wrappers of casbin/enforcer.py  -->  coq/gen/RbacApiGen.v   (C04 C06 C09 C15 C20)

Renders the wrappers listed in METHODS as programs of the language of coq/theories/WrapLang.v.  Purely syntactic; the meaning is
the interpreter in WrapLang.v.  Anything outside the accepted subset aborts (exit 2, `TRANSLATION-FAILED`).

Accepted
  def m(self, <names>[, *rest]):
  statements:  "docstring" | x = self.<callee>(<args>) | return self.<callee>(<args>) | return x or y
  callee:      add_policy, remove_policy, add_grouping_policy, remove_grouping_policy, remove_filtered_policy, remove_filtered_grouping_policy
  args:        a parameter | a small integer literal | *rest | join_slice(<parameter>, *rest)
util.join_slice must be: res = [a]; res.extend(b); return res.
"""
import ast
import sys
from pathlib import Path

METHODS = ["add_role_for_user", "delete_role_for_user", "delete_roles_for_user", "delete_user", "delete_role", "delete_permission",
           "add_permission_for_user", "delete_permission_for_user", "delete_permissions_for_user", "add_role_for_user_in_domain",
           "delete_roles_for_user_in_domain"]
CALLEES = {"add_policy": "MAddPolicy", "remove_policy": "MRemovePolicy", "add_grouping_policy": "MAddGrouping",
           "remove_grouping_policy": "MRemoveGrouping", "remove_filtered_policy": "MRemoveFilteredPolicy",
           "remove_filtered_grouping_policy": "MRemoveFilteredGrouping"}
JOIN_SLICE = "def join_slice(a, *b):\n    res = [a]\n    res.extend(b)\n    return res\n"


class TranslationError(Exception):
    pass


def fail(node, msg):
    raise TranslationError(f"line {getattr(node, 'lineno', '?')}: {msg}: {ast.dump(node)[:200] if isinstance(node, ast.AST) else node}")


def nodoc(stmts):
    return [s for s in stmts if not (isinstance(s, ast.Expr) and isinstance(s.value, ast.Constant) and isinstance(s.value.value, str))]


class Fn:
    def __init__(self, prefix, params, rest):
        self.prefix, self.vars, self.params, self.rest, self.locals = prefix, {}, params, rest, set()
        for p in params + ([rest] if rest else []):
            self.vid(p)

    def vid(self, name):
        if name not in self.vars:
            self.vars[name] = len(self.vars) + 1
        return f"{self.prefix}_{name}"

    def arg(self, a):
        if isinstance(a, ast.Name) and a.id in self.params:
            return f"WName {self.vid(a.id)}"
        if isinstance(a, ast.Constant) and isinstance(a.value, int) and not isinstance(a.value, bool) and 0 <= a.value < 10:
            return f"WIdx {a.value}"
        if isinstance(a, ast.Starred) and isinstance(a.value, ast.Name) and a.value.id == self.rest:
            return f"WSplice {self.vid(self.rest)}"
        if isinstance(a, ast.Call) and isinstance(a.func, ast.Name) and a.func.id == "join_slice" and len(a.args) == 2 and not a.keywords \
                and isinstance(a.args[0], ast.Name) and a.args[0].id in self.params and isinstance(a.args[1], ast.Starred) \
                and isinstance(a.args[1].value, ast.Name) and a.args[1].value.id == self.rest:
            return f"WJoined {self.vid(a.args[0].id)} {self.vid(self.rest)}"
        fail(a, "argument outside the subset")

    def call(self, c):
        if not (isinstance(c, ast.Call) and isinstance(c.func, ast.Attribute) and isinstance(c.func.value, ast.Name) and c.func.value.id == "self"
                and c.func.attr in CALLEES and not c.keywords):
            fail(c, "call outside the subset")
        return f"{CALLEES[c.func.attr]} [{'; '.join(self.arg(a) for a in c.args)}]"

    def st(self, s):
        if isinstance(s, ast.Assign) and len(s.targets) == 1 and isinstance(s.targets[0], ast.Name):
            x = s.targets[0].id
            if x in self.params or x == self.rest or x == "self":
                fail(s, "parameter rebound")
            c = self.call(s.value)
            self.locals.add(x)
            return f"WAssign {self.vid(x)} {c}"
        if isinstance(s, ast.Return) and s.value is not None:
            v = s.value
            if isinstance(v, ast.BoolOp) and isinstance(v.op, ast.Or) and len(v.values) == 2 and all(isinstance(x, ast.Name) and x.id in self.locals for x in v.values):
                return f"WReturnOr {self.vid(v.values[0].id)} {self.vid(v.values[1].id)}"
            return f"WReturnCall {self.call(v)}"
        fail(s, "statement outside the subset")


def translate(repo):
    mod = ast.parse((repo / "casbin" / "enforcer.py").read_text())
    umod = ast.parse((repo / "casbin" / "util" / "util.py").read_text())
    js = [n for n in umod.body if isinstance(n, ast.FunctionDef) and n.name == "join_slice"]
    if len(js) != 1 or [ast.dump(x) for x in nodoc(js[0].body)] != [ast.dump(x) for x in ast.parse(JOIN_SLICE).body[0].body] \
            or ast.dump(js[0].args) != ast.dump(ast.parse(JOIN_SLICE).body[0].args):
        fail(umod, "util.join_slice is not the recognised function")
    cls = [n for n in mod.body if isinstance(n, ast.ClassDef) and n.name == "Enforcer"]
    if len(cls) != 1:
        fail(mod, "class Enforcer")
    fns = {}
    for n in cls[0].body:
        if isinstance(n, ast.FunctionDef):
            if n.name in fns:
                fail(n, "method defined twice")
            fns[n.name] = n
    out = []
    for k, m in enumerate(METHODS):
        if m not in fns:
            fail(cls[0], f"Enforcer.{m} not found")
        fn = fns[m]
        a = fn.args
        if fn.decorator_list or a.defaults or a.kwonlyargs or a.kwarg or a.posonlyargs or [x.arg for x in a.args][:1] != ["self"]:
            fail(fn, "signature")
        f = Fn(f"w{k}", [x.arg for x in a.args][1:], a.vararg.arg if a.vararg else None)
        body = "[" + "; ".join(f.st(s) for s in nodoc(fn.body)) + "]"
        out.append((m, f, body))
    return out


def main():
    repo = Path(sys.argv[1] if len(sys.argv) > 1 else "/repo")
    out = Path(sys.argv[2]) if len(sys.argv) > 2 else Path(__file__).resolve().parent.parent / "coq" / "gen" / "RbacApiGen.v"
    try:
        ms = translate(repo)
    except (TranslationError, SyntaxError, OSError, KeyError, IndexError, AttributeError) as e:
        print(f"TRANSLATION-FAILED enforcer.py RBAC wrappers: {e}")
        sys.exit(2)
    L = ["(* GENERATED by translators/rbacapi.py from casbin/enforcer.py — do not edit *)",
         "From Coq Require Import List NArith Bool.", "From PyCasbin Require Import Base WrapLang.", "Import ListNotations.",
         "Local Open Scope N_scope.", ""]
    for m, f, body in ms:
        for v, k in f.vars.items():
            L.append(f"Definition {f.prefix}_{v} : N := {k}.")
        L.append(f"(* Enforcer.{m}: parameters {', '.join(f.params) or '-'}{'; rest-argument ' + f.rest if f.rest else ''} *)")
        L.append(f"Definition {m}_gen : list wst :=")
        L.append(f"  {body}.")
        L.append("")
    text = "\n".join(L)
    if not out.exists() or out.read_text() != text:
        out.write_text(text)
    print(f"translated {len(ms)} RBAC API wrappers -> {out}")


if __name__ == "__main__":
    main()
