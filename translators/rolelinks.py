#!/usr/bin/env python3
"""Fail-closed translator: Assertion.build_role_links / Assertion.build_incremental_role_links (casbin/model/assertion.py)
   -->  coq/gen/RoleLinksGen.v   (C04, C05, C11)

Renders the two methods as programs of the language of coq/theories/LinkLang.v.  Purely syntactic; the meaning is the
interpreter in LinkLang.v.  Anything outside the accepted subset aborts (exit 2, `TRANSLATION-FAILED`).

Accepted
  def m(self, rm, <params>):
  statements:  "docstring" | self.rm = rm | x = <expr> | if / elif / else | for x in <expr>: ...
               | raise RuntimeError(<text>) | raise TypeError(<text or text + str(x)>)
               | rm.add_link(<args>) | rm.delete_link(<args>) | self.rm.add_link(<args>)   (self.rm only after self.rm = rm)
               | self.logger.info(...) | self.rm.print_roles()                                (no effect)
  expressions: locals, small ints, self.value.count("_"), self.policy, len(e), a < b, a > b, a == b,
               PolicyOp.Policy_add / Policy_remove, e[:e2], e[k:], e[k]
  arguments:   <expr> | *<expr>
Exceptions are mapped to the codes of Base.v: the text "grouping policy elements do not meet role definition" (whatever
the class) -> EGroupArity; otherwise RuntimeError -> ERuntime, TypeError -> EType.
"""
import ast
import sys
from pathlib import Path

METHODS = ["build_role_links", "build_incremental_role_links"]
PREFIX = {"build_role_links": "kb", "build_incremental_role_links": "ki"}
GROUP_TEXT = "grouping policy elements do not meet role definition"
CODES = {"EGroupArity": 9, "ERuntime": 16, "EType": 15}
OPS = {"Policy_add": "KAdd", "Policy_remove": "KRemove"}


class TranslationError(Exception):
    pass


def fail(node, msg):
    raise TranslationError(f"line {getattr(node, 'lineno', '?')}: {msg}: {ast.dump(node)[:200] if isinstance(node, ast.AST) else node}")


def is_name(n, s):
    return isinstance(n, ast.Name) and n.id == s


def self_attr(n):
    return n.attr if isinstance(n, ast.Attribute) and is_name(n.value, "self") else None


class Fn:
    def __init__(self, prefix, params):
        self.prefix, self.vars, self.bound, self.rm_bound = prefix, {}, set(), False
        for p in params:
            self.vid(p)
            self.bound.add(p)

    def vid(self, name):
        if name not in self.vars:
            self.vars[name] = len(self.vars) + 1
        return f"{self.prefix}_{name}"

    def var(self, n):
        if n.id not in self.bound:
            fail(n, f"unknown name '{n.id}'")
        return f"KVar {self.vid(n.id)}"

    def small(self, n):
        if isinstance(n, ast.Constant) and isinstance(n.value, int) and not isinstance(n.value, bool) and 0 <= n.value < 100:
            return n.value
        fail(n, "small literal integer expected")

    def ex(self, n):
        if isinstance(n, ast.Name):
            return self.var(n)
        if isinstance(n, ast.Constant):
            return f"KInt {self.small(n)}"
        if isinstance(n, ast.Attribute):
            if self_attr(n) == "policy":
                return "KSelfPolicy"
            if is_name(n.value, "PolicyOp") and n.attr in OPS:
                return f"KOpConst {OPS[n.attr]}"
            fail(n, "attribute outside the subset")
        if isinstance(n, ast.Compare) and len(n.ops) == 1:
            k = {ast.Lt: "KLt", ast.Gt: "KGt", ast.Eq: "KEq"}.get(type(n.ops[0]))
            if k is None:
                fail(n, "comparison outside the subset")
            return f"{k} ({self.ex(n.left)}) ({self.ex(n.comparators[0])})"
        if isinstance(n, ast.Subscript):
            sl = n.slice
            if isinstance(sl, ast.Slice):
                if sl.step is not None:
                    fail(n, "slice step")
                if sl.lower is None and sl.upper is not None:
                    return f"KSliceTo ({self.ex(n.value)}) ({self.ex(sl.upper)})"
                if sl.upper is None and sl.lower is not None:
                    return f"KSliceFrom ({self.ex(n.value)}) {self.small(sl.lower)}"
                fail(n, "slice form")
            return f"KIdx ({self.ex(n.value)}) {self.small(sl)}"
        if isinstance(n, ast.Call) and not n.keywords:
            f = n.func
            if is_name(f, "len") and len(n.args) == 1:
                return f"KLen ({self.ex(n.args[0])})"
            if isinstance(f, ast.Attribute) and f.attr == "count" and self_attr(f.value) == "value" and len(n.args) == 1 \
                    and isinstance(n.args[0], ast.Constant) and n.args[0].value == "_":
                return "KCount"
            fail(n, "call outside the subset")
        fail(n, "expression outside the subset")

    def args(self, call):
        if call.keywords:
            fail(call, "keyword argument")
        out = []
        for a in call.args:
            if isinstance(a, ast.Starred):
                out.append(f"KStar ({self.ex(a.value)})")
            else:
                out.append(f"KPos ({self.ex(a)})")
        return "[" + "; ".join(out) + "]"

    def raise_code(self, s):
        e = s.exc
        if s.cause is not None or not (isinstance(e, ast.Call) and isinstance(e.func, ast.Name) and len(e.args) == 1 and not e.keywords):
            fail(s, "raise form")
        cls, msg = e.func.id, e.args[0]
        text = None
        if isinstance(msg, ast.Constant) and isinstance(msg.value, str):
            text = msg.value
        elif isinstance(msg, ast.BinOp) and isinstance(msg.op, ast.Add) and isinstance(msg.left, ast.Constant) and isinstance(msg.left.value, str):
            text = msg.left.value
        else:
            fail(s, "exception text")
        if text == GROUP_TEXT:
            return CODES["EGroupArity"]
        if cls == "RuntimeError":
            return CODES["ERuntime"]
        if cls == "TypeError":
            return CODES["EType"]
        fail(s, "exception class")

    def block(self, stmts):
        out = [x for x in (self.st(s) for s in stmts) if x is not None]
        return "[" + "; ".join(out) + "]"

    def is_rm(self, n):
        if is_name(n, "rm"):
            return True
        if self_attr(n) == "rm":
            if not self.rm_bound:
                fail(n, "self.rm used before self.rm = rm")
            return True
        return False

    def st(self, s):
        if isinstance(s, ast.Expr) and isinstance(s.value, ast.Constant) and isinstance(s.value.value, str):
            return None
        if isinstance(s, ast.Assign) and len(s.targets) == 1:
            t = s.targets[0]
            if self_attr(t) == "rm" and is_name(s.value, "rm"):
                self.rm_bound = True
                return "KBindRm"
            if isinstance(t, ast.Name) and t.id not in ("self", "rm"):
                e = self.ex(s.value)
                self.bound.add(t.id)
                return f"KAssign {self.vid(t.id)} ({e})"
            fail(s, "assignment outside the subset")
        if isinstance(s, ast.If):
            return f"KIf ({self.ex(s.test)}) {self.block(s.body)} {self.block(s.orelse)}"
        if isinstance(s, ast.For):
            if s.orelse or not isinstance(s.target, ast.Name):
                fail(s, "for form")
            it = self.ex(s.iter)
            self.bound.add(s.target.id)
            return f"KFor {self.vid(s.target.id)} ({it}) {self.block(s.body)}"
        if isinstance(s, ast.Raise):
            return f"KRaise {self.raise_code(s)}"
        if isinstance(s, ast.Expr) and isinstance(s.value, ast.Call):
            c = s.value
            f = c.func
            if isinstance(f, ast.Attribute):
                if f.attr == "info" and self_attr(f.value) == "logger":
                    return "KLog"
                if f.attr == "print_roles" and not c.args and not c.keywords and self.is_rm(f.value):
                    return "KLog"
                if f.attr == "add_link" and self.is_rm(f.value):
                    return f"KAddLink {self.args(c)}"
                if f.attr == "delete_link" and self.is_rm(f.value):
                    return f"KDelLink {self.args(c)}"
            fail(s, "call statement outside the subset")
        fail(s, "statement outside the subset")


def translate(src):
    mod = ast.parse(src)
    cls = [n for n in mod.body if isinstance(n, ast.ClassDef) and n.name == "Assertion"]
    if len(cls) != 1:
        fail(mod, "exactly one class Assertion expected")
    fns = {}
    for n in cls[0].body:
        if isinstance(n, ast.FunctionDef):
            if n.name in fns:
                fail(n, "method defined twice")
            fns[n.name] = n
    out = []
    for m in METHODS:
        if m not in fns:
            fail(cls[0], f"Assertion.{m} not found")
        fn = fns[m]
        a = fn.args
        if fn.decorator_list or a.defaults or a.kwonlyargs or a.kw_defaults or a.kwarg or a.vararg or a.posonlyargs:
            fail(fn, "method signature")
        names = [x.arg for x in a.args]
        if names[:2] != ["self", "rm"]:
            fail(fn, "method must start (self, rm, ...)")
        f = Fn(PREFIX[m], names[2:])
        out.append((m, f, names[2:], f.block(fn.body)))
    return out


def emit(methods):
    L = ["(* GENERATED by translators/rolelinks.py from casbin/model/assertion.py — do not edit *)",
         "From Coq Require Import List NArith Bool.", "From PyCasbin Require Import Base LinkLang.", "Import ListNotations.",
         "Local Open Scope N_scope.", ""]
    for m, f, params, body in methods:
        for v, k in f.vars.items():
            L.append(f"Definition {f.prefix}_{v} : N := {k}.")
        L.append(f"(* Assertion.{m}(self, rm{''.join(', ' + p for p in params)}) *)")
        L.append(f"Definition {m}_params : list N := [{'; '.join(f.prefix + '_' + p for p in params)}].")
        L.append(f"Definition {m}_locals : list N := [{'; '.join(f.prefix + '_' + v for v in f.vars if v not in params)}].")
        L.append(f"Definition {m}_gen : list kst :=")
        L.append(f"  {body}.")
        L.append("")
    return "\n".join(L)


def main():
    repo = Path(sys.argv[1] if len(sys.argv) > 1 else "/repo")
    out = Path(sys.argv[2]) if len(sys.argv) > 2 else Path(__file__).resolve().parent.parent / "coq" / "gen" / "RoleLinksGen.v"
    try:
        methods = translate((repo / "casbin" / "model" / "assertion.py").read_text())
    except (TranslationError, SyntaxError, OSError, KeyError, IndexError, AttributeError) as e:
        print(f"TRANSLATION-FAILED assertion.py: {e}")
        sys.exit(2)
    text = emit(methods)
    if not out.exists() or out.read_text() != text:
        out.write_text(text)
    print(f"translated Assertion.build_role_links, build_incremental_role_links -> {out}")


if __name__ == "__main__":
    main()
