#!/usr/bin/env python3
"""Fail-closed translator: casbin/util/rwlock.py  -->  coq/gen/RWLockGen.v   (property C16)

Renders the four methods of RWLockWrite (aquire_read, release_read, aquire_write, release_write --
the repository's spelling) as instruction lists of the monitor language of coq/theories/RWLockLang.v.

Accepted Python (anything else aborts with TranslationError, exit 2, `TRANSLATION-FAILED`):
  * module: `from threading import RLock, Condition` (any order), classes RWLockWrite, ReadRWLock,
    WriteRWLock, nothing else executable at top level.
  * RWLockWrite.__init__(self): exactly the five assignments
        self._lock = RLock(); self._cond = Condition(self._lock)
        self._active_readers = 0; self._waiting_writers = 0; self._writer_active = False   (any order)
  * each of the four methods (self only, no decorator):  [docstring]  with self._lock: <block>
    where <block> is a sequence of
        while <cond>: self._cond.wait()                      -> WaitWhile cond
        if <cond>: self._cond.wait()                         -> WaitIf cond         (not used today)
        self._v += 1 | self._v = self._v + 1 | = 1 + self._v -> Incr v              (v integer field)
        self._v -= 1 | self._v = self._v - 1                 -> Decr v
        self._writer_active = True | False                   -> SetB BWa b
        if <cond>: <one of the non-blocking statements>      -> IfThen cond i       (no else)
        self._cond.notify_all()                              -> NotifyAll
        self._cond.notify() | self._cond.notify(1)           -> Notify              (not used today)
        pass
    <cond> ::= self._v <op> INT | INT <op> self._v | self._v | self._writer_active
             | not <cond> | <cond> or <cond> | <cond> and <cond>     (<op> in == != < <= > >=)
    Acquire methods may contain at most one wait, release methods none (a blocking release would make
    "provided holders release" meaningless).
  * lock discipline, checked on the whole class: every read or write of self._active_readers,
    self._waiting_writers, self._writer_active and every use of self._cond outside __init__ is inside
    a `with self._lock:` block of one of the four methods; no other method mentions them; no nested
    `with`.
  * gen_rlock/gen_wlock return ReadRWLock(self)/WriteRWLock(self); ReadRWLock.__enter__/__exit__ call
    exactly self.rwlock.aquire_read()/release_read() (WriteRWLock: the write twins), __exit__ returns
    False (exceptions are not swallowed).
"""
import ast
import sys
from pathlib import Path


class TranslationError(Exception):
    pass


def fail(node, msg):
    line = getattr(node, "lineno", "?")
    raise TranslationError(f"line {line}: {msg}: {ast.dump(node)[:160] if isinstance(node, ast.AST) else node}")


INT_FIELDS = {"_active_readers": "VAr", "_waiting_writers": "VWw"}
BOOL_FIELDS = {"_writer_active": "BWa"}
STATE_FIELDS = set(INT_FIELDS) | set(BOOL_FIELDS) | {"_cond"}
METHODS = {"aquire_read": "acq_read", "release_read": "rel_read", "aquire_write": "acq_write",
           "release_write": "rel_write"}
CMP = {ast.Eq: "CEq", ast.NotEq: "CNe", ast.Lt: "CLt", ast.LtE: "CLe", ast.Gt: "CGt", ast.GtE: "CGe"}
FLIP = {"CEq": "CEq", "CNe": "CNe", "CLt": "CGt", "CLe": "CGe", "CGt": "CLt", "CGe": "CLe"}


def self_attr(node):
    """name of the attribute if node is `self.<name>`, else None"""
    if isinstance(node, ast.Attribute) and isinstance(node.value, ast.Name) and node.value.id == "self":
        return node.attr
    return None


def int_const(node):
    if isinstance(node, ast.Constant) and type(node.value) is int:
        return node.value
    if isinstance(node, ast.UnaryOp) and isinstance(node.op, ast.USub) and isinstance(node.operand, ast.Constant) \
            and type(node.operand.value) is int:
        return -node.operand.value
    return None


def zlit(n):
    return f"({n})%Z" if n < 0 else f"{n}%Z"


def tr_cond(node):
    if isinstance(node, ast.BoolOp):
        op = "COr" if isinstance(node.op, ast.Or) else "CAnd"
        parts = [tr_cond(v) for v in node.values]
        acc = parts[-1]
        for p in reversed(parts[:-1]):          # a or b or c  ->  COr a (COr b c)  (short-circuit order kept)
            acc = f"({op} {p} {acc})"
        return acc
    if isinstance(node, ast.UnaryOp) and isinstance(node.op, ast.Not):
        return f"(CNot {tr_cond(node.operand)})"
    a = self_attr(node)
    if a in BOOL_FIELDS:
        return f"(CB {BOOL_FIELDS[a]})"
    if a in INT_FIELDS:                          # truthiness of an int field
        return f"(CCmp {INT_FIELDS[a]} CNe 0%Z)"
    if isinstance(node, ast.Compare) and len(node.ops) == 1 and type(node.ops[0]) in CMP:
        op = CMP[type(node.ops[0])]
        l, r = node.left, node.comparators[0]
        if self_attr(l) in INT_FIELDS and int_const(r) is not None:
            return f"(CCmp {INT_FIELDS[self_attr(l)]} {op} {zlit(int_const(r))})"
        if self_attr(r) in INT_FIELDS and int_const(l) is not None:
            return f"(CCmp {INT_FIELDS[self_attr(r)]} {FLIP[op]} {zlit(int_const(l))})"
    fail(node, "unsupported condition")


def is_cond_call(node, names):
    """node is the expression statement  self._cond.<name>(...)  -> (name, args) or None"""
    if isinstance(node, ast.Expr) and isinstance(node.value, ast.Call):
        f = node.value.func
        if isinstance(f, ast.Attribute) and self_attr(f.value) == "_cond" and f.attr in names \
                and not node.value.keywords:
            return f.attr, node.value.args
    return None


def is_wait(stmts):
    if len(stmts) == 1:
        c = is_cond_call(stmts[0], ("wait",))
        if c and not c[1]:
            return True
    return False


def tr_simple(s):
    """one non-blocking statement -> instruction text, or None if it is not one"""
    if isinstance(s, ast.AugAssign) and self_attr(s.target) in INT_FIELDS and int_const(s.value) == 1:
        v = INT_FIELDS[self_attr(s.target)]
        if isinstance(s.op, ast.Add):
            return f"Incr {v}"
        if isinstance(s.op, ast.Sub):
            return f"Decr {v}"
    if isinstance(s, ast.Assign) and len(s.targets) == 1:
        t = self_attr(s.targets[0])
        if t in BOOL_FIELDS and isinstance(s.value, ast.Constant) and type(s.value.value) is bool:
            return f"SetB {BOOL_FIELDS[t]} {'true' if s.value.value else 'false'}"
        if t in INT_FIELDS and isinstance(s.value, ast.BinOp):
            b = s.value
            if isinstance(b.op, ast.Add) and ((self_attr(b.left) == t and int_const(b.right) == 1)
                                              or (self_attr(b.right) == t and int_const(b.left) == 1)):
                return f"Incr {INT_FIELDS[t]}"
            if isinstance(b.op, ast.Sub) and self_attr(b.left) == t and int_const(b.right) == 1:
                return f"Decr {INT_FIELDS[t]}"
    c = is_cond_call(s, ("notify_all", "notify"))
    if c:
        name, args = c
        if name == "notify_all" and not args:
            return "NotifyAll"
        if name == "notify" and (not args or (len(args) == 1 and int_const(args[0]) == 1)):
            return "Notify"
    return None


def tr_block(stmts):
    out = []
    for s in stmts:
        if isinstance(s, ast.Pass):
            continue
        if isinstance(s, ast.While) and not s.orelse and is_wait(s.body):
            out.append(f"WaitWhile {tr_cond(s.test)}")
            continue
        if isinstance(s, ast.If) and not s.orelse and is_wait(s.body):
            out.append(f"WaitIf {tr_cond(s.test)}")
            continue
        if isinstance(s, ast.If) and not s.orelse and len(s.body) == 1:
            inner = tr_simple(s.body[0])
            if inner is None:
                fail(s.body[0], "unsupported statement under `if`")
            out.append(f"IfThen {tr_cond(s.test)} ({inner})")
            continue
        simple = tr_simple(s)
        if simple is None:
            fail(s, "unsupported statement inside `with self._lock`")
        out.append(simple)
    return out


def strip_doc(body):
    if body and isinstance(body[0], ast.Expr) and isinstance(body[0].value, ast.Constant) \
            and isinstance(body[0].value.value, str):
        return body[1:]
    return body


def mentions_state(node):
    for n in ast.walk(node):
        if self_attr(n) in STATE_FIELDS or self_attr(n) == "_lock":
            return n
    return None


def tr_method(fn):
    if fn.decorator_list or len(fn.args.args) != 1 or fn.args.args[0].arg != "self" or fn.args.vararg \
            or fn.args.kwarg or fn.args.kwonlyargs or fn.args.defaults:
        fail(fn, "unexpected signature")
    body = [s for s in strip_doc(fn.body) if not isinstance(s, ast.Pass)]
    if len(body) != 1 or not isinstance(body[0], ast.With):
        # anything outside the with-block (in particular an unprotected field access) is rejected
        fail(fn, "method body must be exactly one `with self._lock:` block")
    w = body[0]
    if len(w.items) != 1 or w.items[0].optional_vars is not None or self_attr(w.items[0].context_expr) != "_lock":
        fail(w, "expected `with self._lock:`")
    for n in ast.walk(w):
        if n is not w and isinstance(n, (ast.With, ast.AsyncWith)):
            fail(n, "nested with")
        if self_attr(n) == "_lock" and n is not w.items[0].context_expr:
            fail(n, "self._lock used inside the critical section")
    ins = tr_block(w.body)
    nwait = sum(1 for i in ins if i.startswith("Wait"))
    if fn.name.startswith("release") and nwait:
        fail(fn, "a release method must not wait")
    if nwait > 1:
        fail(fn, "more than one wait in one method")
    return ["Lock"] + ins + ["Unlock"]


def check_init(fn):
    want = {"_lock": "RLock()", "_cond": "Condition(self._lock)", "_active_readers": "0", "_waiting_writers": "0",
            "_writer_active": "False"}
    got = {}
    for s in strip_doc(fn.body):
        if isinstance(s, ast.Assign) and len(s.targets) == 1 and self_attr(s.targets[0]) in want:
            got[self_attr(s.targets[0])] = ast.unparse(s.value)
        else:
            fail(s, "unexpected statement in RWLockWrite.__init__")
    if got != want:
        raise TranslationError(f"RWLockWrite.__init__ initialises {got}, expected {want}")


def check_factory(fn, cls):
    body = strip_doc(fn.body)
    if len(body) != 1 or not isinstance(body[0], ast.Return) or ast.unparse(body[0].value) != f"{cls}(self)":
        fail(fn, f"expected `return {cls}(self)`")


def check_guard_class(node, acq, rel):
    seen = set()
    for st in strip_doc(node.body):
        if not isinstance(st, ast.FunctionDef):
            fail(st, "unexpected member")
        body = strip_doc(st.body)
        src = [ast.unparse(s) for s in body]
        if st.name == "__init__":
            if src != ["self.rwlock = rwlock"]:
                fail(st, "unexpected __init__")
        elif st.name == "__enter__":
            if src != [f"self.rwlock.{acq}()"]:
                fail(st, f"__enter__ must be exactly self.rwlock.{acq}()")
        elif st.name == "__exit__":
            if src != [f"self.rwlock.{rel}()", "return False"]:
                fail(st, f"__exit__ must be exactly self.rwlock.{rel}(); return False")
        else:
            fail(st, "unexpected method")
        seen.add(st.name)
    if seen != {"__init__", "__enter__", "__exit__"}:
        raise TranslationError(f"class {node.name}: methods {sorted(seen)}")


def translate(repo: Path) -> str:
    src = (repo / "casbin" / "util" / "rwlock.py").read_text()
    tree = ast.parse(src)
    methods = {}
    classes = set()
    for node in tree.body:
        if isinstance(node, ast.ImportFrom) and node.module == "threading" and node.level == 0 \
                and sorted(a.name for a in node.names) == ["Condition", "RLock"] \
                and all(a.asname is None for a in node.names):
            continue
        if isinstance(node, ast.Expr) and isinstance(node.value, ast.Constant) and isinstance(node.value.value, str):
            continue
        if isinstance(node, ast.ClassDef) and not node.bases and not node.decorator_list and not node.keywords:
            classes.add(node.name)
            if node.name == "RWLockWrite":
                for st in strip_doc(node.body):
                    if not isinstance(st, ast.FunctionDef):
                        fail(st, "unexpected class member")
                    if st.name == "__init__":
                        check_init(st)
                    elif st.name in METHODS:
                        if st.name in methods:
                            fail(st, "method defined twice")
                        methods[st.name] = tr_method(st)
                    elif st.name == "gen_rlock":
                        check_factory(st, "ReadRWLock")
                    elif st.name == "gen_wlock":
                        check_factory(st, "WriteRWLock")
                    else:
                        bad = mentions_state(st)
                        if bad is not None:
                            fail(bad, f"method {st.name} touches the lock state outside the four monitor methods")
                        fail(st, "unexpected method of RWLockWrite")
                continue
            if node.name == "ReadRWLock":
                check_guard_class(node, "aquire_read", "release_read")
                continue
            if node.name == "WriteRWLock":
                check_guard_class(node, "aquire_write", "release_write")
                continue
        fail(node, "unexpected top-level statement in rwlock.py")
    if classes != {"RWLockWrite", "ReadRWLock", "WriteRWLock"}:
        raise TranslationError(f"classes found: {sorted(classes)}")
    for m in METHODS:
        if m not in methods:
            raise TranslationError(f"RWLockWrite.{m} not found")
    out = ["(* GENERATED by translators/rwlock.py from casbin/util/rwlock.py — do not edit *)",
           "From Coq Require Import List ZArith Bool.",
           "From PyCasbin Require Import RWLockLang.",
           "Import ListNotations.",
           ""]
    for m, f in METHODS.items():
        out.append(f"(* RWLockWrite.{m} *)")
        out.append(f"Definition {f}_gen : list instr :=")
        out.append("  [ " + ";\n    ".join(methods[m]) + " ].")
        out.append("")
    out.append("Definition rwlock_gen : prog :=")
    out.append("  {| acq_read := acq_read_gen; rel_read := rel_read_gen;")
    out.append("     acq_write := acq_write_gen; rel_write := rel_write_gen |}.")
    out.append("")
    return "\n".join(out)


def main():
    repo = Path(sys.argv[1] if len(sys.argv) > 1 else "/repo")
    dst = Path(sys.argv[2] if len(sys.argv) > 2 else Path(__file__).resolve().parent.parent / "coq" / "gen" / "RWLockGen.v")
    try:
        text = translate(repo)
    except (TranslationError, SyntaxError, OSError, KeyError, IndexError, AttributeError) as e:
        print(f"TRANSLATION-FAILED rwlock: {e}")
        sys.exit(2)
    if not dst.exists() or dst.read_text() != text:
        dst.parent.mkdir(parents=True, exist_ok=True)
        dst.write_text(text)
        print(f"regenerated {dst}")
    sys.exit(0)


if __name__ == "__main__":
    main()
