#!/usr/bin/env python3
"""Fail-closed translator (C17): casbin/synced_enforcer.py  +  the public API of the plain Enforcer
(casbin/core_enforcer.py, internal_enforcer.py, management_enforcer.py, enforcer.py)  -->  coq/gen/SyncedGen.v

`synced_table : list wrapper` has one record per method of class SyncedEnforcer except __init__
(record type: coq/theories/SyncedBase.v).  A method body (docstring statements stripped) is either

  DELEGATION   [with self._rl|self._wl:]  [return] self._e.<m>(ARGS)
               [with self._rl|self._wl:]  v = self._e.<m>(ARGS) ; return v     (return inside or right after the with)
               where no expression of ARGS mentions `self`;  recorded: lock mode, <m>, how every argument is written
               (plain name / *name / k=name / **name / other), whether the value is returned;
  INLINE       anything else built from the whitelisted statements below; recorded by a syntactic walk:
               the attributes X of every `self._e.X` use split by the lock held at that point (R / W / none),
               every `self.<method>(...)` call made while a lock is held (the lock is not re-entrant), and every
               `self.<method>(...)` call whose result is dereferenced, stored or passed on outside a lock.

The judgement (what is acceptable) is NOT made here: coq/theories/Synced.v defines `wrapper_ok` and
SyncedTie.v proves `forallb wrapper_ok synced_table = true` about the table generated on this run.

Rejected (TRANSLATION-FAILED, exit 2): anything outside the accepted subset — decorators, nested functions,
lambdas, comprehensions over self, `global`/`nonlocal`, `with` on anything but self._rl/self._wl, manual use of
self._rl / self._wl / self._rwlock outside a with-item, rebinding of self._e / self._rl / self._wl / self._rwlock
outside __init__, `__init__` not of the expected shape, a class-level statement that is not a method,
non-ASCII identifiers, `getattr`/`setattr`/`vars`/`__dict__` tricks on self.

`enforcer_api : list apisig`: every public (no leading underscore) method reachable on casbin.Enforcer along the
class chain Enforcer -> ManagementEnforcer -> InternalEnforcer -> CoreEnforcer (chain checked), most derived
definition, with its signature and whether some `return <non-None expr>` occurs in its body.
"""
import ast
import sys
from pathlib import Path


class TranslationError(Exception):
    pass


def fail(node, msg):
    line = getattr(node, "lineno", "?")
    raise TranslationError(f"line {line}: {msg}: {ast.dump(node)[:160] if isinstance(node, ast.AST) else node}")


def is_docstring_stmt(st):
    return isinstance(st, ast.Expr) and isinstance(st.value, ast.Constant) and isinstance(st.value.value, str)


def strip_docs(body):
    return [st for st in body if not is_docstring_stmt(st)]


def is_self_attr(node, attr=None):
    return isinstance(node, ast.Attribute) and isinstance(node.value, ast.Name) and node.value.id == "self" \
        and (attr is None or node.attr == attr)


def mentions_self(node):
    return any(isinstance(n, ast.Name) and n.id == "self" for n in ast.walk(node))


def ascii_ident(s, node=None):
    if not (isinstance(s, str) and s.isascii() and all(c.isalnum() or c == "_" for c in s) and s):
        fail(node if node is not None else s, "identifier outside [A-Za-z0-9_]")
    return s


# ----------------------------------------------------------------------------- signatures
def text_of(node):
    t = ast.unparse(node)
    if not t.isascii() or "\n" in t:
        fail(node, "non-ASCII or multi-line expression text")
    return t


def params_of(fn, drop_self=True):
    a = fn.args
    if a.posonlyargs:
        fail(fn, "positional-only parameters are outside the accepted subset")
    pos = [ascii_ident(x.arg, fn) for x in a.args]
    if drop_self:
        if not pos or pos[0] != "self":
            fail(fn, "first parameter must be self")
        pos = pos[1:]
    defaults = [text_of(d) for d in a.defaults]
    if len(defaults) > len(pos):
        fail(fn, "more defaults than parameters")
    var = ascii_ident(a.vararg.arg, fn) if a.vararg else None
    kwonly = []
    for x, d in zip(a.kwonlyargs, a.kw_defaults):
        kwonly.append((ascii_ident(x.arg, fn), text_of(d) if d is not None else ""))
    kwvar = ascii_ident(a.kwarg.arg, fn) if a.kwarg else None
    return dict(pos=pos, defaults=defaults, var=var, kwonly=kwonly, kwvar=kwvar)


# ----------------------------------------------------------------------------- delegation recognition
LOCKS = {"_rl": "LR", "_wl": "LW"}


def lock_of_with(st):
    """With statement on exactly self._rl / self._wl -> 'LR' / 'LW'; None if not a lock-with"""
    if len(st.items) == 1 and st.items[0].optional_vars is None and is_self_attr(st.items[0].context_expr) \
            and st.items[0].context_expr.attr in LOCKS:
        return LOCKS[st.items[0].context_expr.attr]
    return None


def inner_call(expr):
    """`self._e.<m>(ARGS)` with ARGS free of self -> (m, [argx...]) else None"""
    if not (isinstance(expr, ast.Call) and isinstance(expr.func, ast.Attribute) and is_self_attr(expr.func.value, "_e")):
        return None
    args = []
    for a in expr.args:
        if mentions_self(a):
            return None
        if isinstance(a, ast.Name):
            args.append(("APos", a.id))
        elif isinstance(a, ast.Starred) and isinstance(a.value, ast.Name):
            args.append(("AStar", a.value.id))
        else:
            args.append(("AOther", text_of(a)))
    for k in expr.keywords:
        if mentions_self(k.value):
            return None
        if k.arg is None:
            if isinstance(k.value, ast.Name):
                args.append(("AStarStar", k.value.id))
            else:
                args.append(("AOther", "**" + text_of(k.value)))
        elif isinstance(k.value, ast.Name):
            args.append(("AKw", k.arg, k.value.id))
        else:
            args.append(("AOther", k.arg + "=" + text_of(k.value)))
    return ascii_ident(expr.func.attr, expr), args


def delegation(body):
    """recognise the delegation shapes; returns dict(mode, target, args, returns) or None"""
    mode = "LNone"
    tail = []
    if len(body) >= 1 and isinstance(body[0], ast.With) and lock_of_with(body[0]) and len(body) <= 2:
        mode = lock_of_with(body[0])
        tail = body[1:]
        body = strip_docs(body[0].body)
    # D1: [return] call
    if len(body) == 1 and not tail:
        st = body[0]
        if isinstance(st, ast.Return) and st.value is not None:
            c = inner_call(st.value)
            if c:
                return dict(mode=mode, target=c[0], args=c[1], returns=True)
        if isinstance(st, ast.Expr):
            c = inner_call(st.value)
            if c:
                return dict(mode=mode, target=c[0], args=c[1], returns=False)
        return None
    # D2: v = call ; return v      (the return inside the with, or right after it)
    stmts = body + tail
    if len(stmts) == 2 and len(body) >= 1 and isinstance(stmts[0], ast.Assign) and len(stmts[0].targets) == 1 \
            and isinstance(stmts[0].targets[0], ast.Name) and isinstance(stmts[1], ast.Return) \
            and isinstance(stmts[1].value, ast.Name) and stmts[1].value.id == stmts[0].targets[0].id:
        c = inner_call(stmts[0].value)
        if c and not any(a[-1] == stmts[0].targets[0].id for a in c[1] if a[0] != "AOther"):
            return dict(mode=mode, target=c[0], args=c[1], returns=True)
    return None


# ----------------------------------------------------------------------------- inline bodies: syntactic walk
SIMPLE_STMTS = (ast.Expr, ast.Assign, ast.AugAssign, ast.AnnAssign, ast.Return, ast.Pass, ast.Raise, ast.Assert,
                ast.Break, ast.Continue)
FORBIDDEN_NODES = (ast.FunctionDef, ast.AsyncFunctionDef, ast.Lambda, ast.ClassDef, ast.Global, ast.Nonlocal,
                   ast.ListComp, ast.SetComp, ast.DictComp, ast.GeneratorExp, ast.Await, ast.Yield, ast.YieldFrom,
                   ast.AsyncWith, ast.AsyncFor, ast.Import, ast.ImportFrom, ast.Delete, ast.NamedExpr)
PROTECTED = ("_e", "_rl", "_wl", "_rwlock")
REFLECTION = ("getattr", "setattr", "delattr", "vars", "eval", "exec", "globals", "locals")


class Inline:
    def __init__(self, method_names):
        self.methods = method_names
        self.inner = {"LR": [], "LW": [], "LNone": []}
        self.self_locked = []
        self.escaped = []

    def add(self, lst, x):
        if x not in lst:
            lst.append(x)

    # --- statements
    def block(self, stmts, lock):
        for st in stmts:
            self.stmt(st, lock)

    def stmt(self, st, lock):
        if isinstance(st, FORBIDDEN_NODES):
            fail(st, "statement outside the accepted subset")
        if isinstance(st, ast.With):
            lk = lock_of_with(st)
            if lk is None:
                fail(st, "`with` on something other than self._rl / self._wl")
            if lock != "LNone":
                self.add(self.self_locked, "<nested with self." + st.items[0].context_expr.attr + ">")
            self.block(st.body, lk)
        elif isinstance(st, (ast.If, ast.While)):
            self.expr(st.test, lock, "test")
            self.block(st.body, lock)
            self.block(st.orelse, lock)
        elif isinstance(st, ast.For):
            self.expr(st.iter, lock, "deref")
            self.target(st.target)
            self.block(st.body, lock)
            self.block(st.orelse, lock)
        elif isinstance(st, ast.Try):
            self.block(st.body, lock)
            for h in st.handlers:
                if h.type is not None:
                    self.expr(h.type, lock, "test")
                self.block(h.body, lock)
            self.block(st.orelse, lock)
            self.block(st.finalbody, lock)
        elif isinstance(st, ast.Expr):
            self.expr(st.value, lock, "stmt")
        elif isinstance(st, ast.Return):
            if st.value is not None:
                self.expr(st.value, lock, "return")
        elif isinstance(st, ast.Assign):
            for t in st.targets:
                self.target(t, lock)
            self.expr(st.value, lock, "store")
        elif isinstance(st, ast.AugAssign):
            self.target(st.target, lock)
            self.expr(st.value, lock, "store")
        elif isinstance(st, ast.AnnAssign):
            self.target(st.target, lock)
            if st.value is not None:
                self.expr(st.value, lock, "store")
        elif isinstance(st, (ast.Raise, ast.Assert)):
            for ch in ast.iter_child_nodes(st):
                self.expr(ch, lock, "test")
        elif isinstance(st, (ast.Pass, ast.Break, ast.Continue)):
            pass
        else:
            fail(st, "statement outside the accepted subset")

    def target(self, t, lock="LNone"):
        if isinstance(t, ast.Name):
            return
        if isinstance(t, (ast.Tuple, ast.List)):
            for x in t.elts:
                self.target(x, lock)
            return
        if is_self_attr(t):
            if t.attr in PROTECTED:
                fail(t, "rebinding of self." + t.attr + " outside __init__")
            return
        if isinstance(t, (ast.Attribute, ast.Subscript)):
            # a store through some object: walk the object expression as a dereference
            self.expr(t.value, lock, "deref")
            if isinstance(t, ast.Subscript):
                self.expr(t.slice, lock, "test")
            return
        fail(t, "assignment target outside the accepted subset")

    # --- expressions.  ctx: how the VALUE of this expression is used by its parent:
    #     'stmt' discarded | 'test' only tested/compared | 'return' returned | 'deref' dereferenced (.x, [i], call
    #     receiver, iteration) | 'arg' passed to a call | 'store' bound to a name/attribute
    def expr(self, e, lock, ctx):
        if isinstance(e, FORBIDDEN_NODES):
            fail(e, "expression outside the accepted subset")
        # self._e ...
        if is_self_attr(e, "_e"):
            self.add(self.inner[lock], "<bare>")
            return
        if isinstance(e, ast.Attribute) and is_self_attr(e.value, "_e"):
            self.add(self.inner[lock], ascii_ident(e.attr, e))
            return
        if is_self_attr(e):
            if e.attr in ("_rl", "_wl", "_rwlock"):
                fail(e, "use of self." + e.attr + " outside a with-item")
            if e.attr == "__dict__":
                fail(e, "reflection on self")
            return
        if isinstance(e, ast.Name):
            if e.id == "self" and ctx != "deref":
                fail(e, "bare `self` used as a value")
            return
        if isinstance(e, ast.Call):
            if isinstance(e.func, ast.Name) and e.func.id in REFLECTION:
                fail(e, "reflection outside the accepted subset")
            if is_self_attr(e.func) and e.func.attr in self.methods:
                m = e.func.attr
                if lock != "LNone":
                    self.add(self.self_locked, m)
                elif ctx in ("deref", "arg", "store"):
                    self.add(self.escaped, m)
            elif is_self_attr(e.func):
                # a call through some other attribute of self (a stored callable): not analysable
                if e.func.attr in PROTECTED:
                    fail(e, "call of self." + e.func.attr)
            else:
                self.expr(e.func, lock, "deref")
            for a in e.args:
                self.expr(a.value if isinstance(a, ast.Starred) else a, lock, "arg")
            for k in e.keywords:
                self.expr(k.value, lock, "arg")
            return
        if isinstance(e, ast.Attribute):
            self.expr(e.value, lock, "deref")
            return
        if isinstance(e, ast.Subscript):
            self.expr(e.value, lock, "deref")
            self.expr(e.slice, lock, "test")
            return
        if isinstance(e, ast.Starred):
            self.expr(e.value, lock, ctx)
            return
        if isinstance(e, (ast.BoolOp, ast.IfExp)):
            for ch in ast.iter_child_nodes(e):
                if isinstance(ch, ast.expr):
                    self.expr(ch, lock, ctx if ctx != "stmt" else "test")
            return
        if isinstance(e, (ast.Tuple, ast.List, ast.Set)):
            for x in e.elts:
                self.expr(x, lock, "store" if ctx in ("stmt", "test") else ctx)
            return
        if isinstance(e, ast.Dict):
            for x in list(e.keys) + list(e.values):
                if x is not None:
                    self.expr(x, lock, "store")
            return
        if isinstance(e, (ast.Compare, ast.BinOp, ast.UnaryOp, ast.JoinedStr, ast.FormattedValue, ast.Slice)):
            for ch in ast.iter_child_nodes(e):
                if isinstance(ch, ast.expr):
                    self.expr(ch, lock, "test")
            return
        if isinstance(e, ast.Constant):
            return
        fail(e, "expression outside the accepted subset")


# ----------------------------------------------------------------------------- class SyncedEnforcer
def check_init(fn):
    """__init__(self, model=None, adapter=None) must bind the four protected fields exactly like today's file"""
    want = {
        "_e": "Enforcer(model, adapter)",
        "_rwlock": "RWLockWrite()",
        "_rl": "self._rwlock.gen_rlock()",
        "_wl": "self._rwlock.gen_wlock()",
    }
    got = {}
    for st in strip_docs(fn.body):
        if isinstance(st, ast.Assign) and len(st.targets) == 1 and is_self_attr(st.targets[0]):
            a = st.targets[0].attr
            if a in got and a in want:
                fail(st, "self." + a + " bound twice in __init__")
            got[a] = ast.unparse(st.value)
        else:
            fail(st, "__init__: statement other than `self.x = ...`")
    for k, v in want.items():
        if got.get(k) != v:
            raise TranslationError(f"__init__: expected self.{k} = {v}, found {got.get(k)!r}")
    p = params_of(fn)
    if p["pos"] != ["model", "adapter"] or p["var"] or p["kwvar"] or p["kwonly"]:
        fail(fn, "__init__ signature changed")


def parse_synced(src):
    tree = ast.parse(src)
    cls = None
    imports_ok = {"Enforcer": False, "RWLockWrite": False}
    for node in tree.body:
        if is_docstring_stmt(node) or isinstance(node, ast.Import):
            continue
        if isinstance(node, ast.ImportFrom):
            for al in node.names:
                if al.name == "Enforcer" and node.module == "casbin.enforcer" and al.asname is None:
                    imports_ok["Enforcer"] = True
                if al.name == "RWLockWrite" and node.module == "casbin.util.rwlock" and al.asname is None:
                    imports_ok["RWLockWrite"] = True
            continue
        if isinstance(node, ast.ClassDef) and node.name == "SyncedEnforcer":
            cls = node
            continue
        if isinstance(node, ast.ClassDef) and node.name == "AtomicBool":
            continue
        fail(node, "unexpected top-level statement in synced_enforcer.py")
    if cls is None:
        raise TranslationError("class SyncedEnforcer not found")
    if not all(imports_ok.values()):
        raise TranslationError("Enforcer / RWLockWrite are not imported from casbin.enforcer / casbin.util.rwlock")
    if cls.bases or cls.keywords or cls.decorator_list:
        fail(cls, "SyncedEnforcer must be a plain class without bases/decorators")
    methods = []
    for st in strip_docs(cls.body):
        if not isinstance(st, ast.FunctionDef):
            fail(st, "class-level statement that is not a method")
        if st.decorator_list:
            fail(st, "decorated method")
        methods.append(st)
    names = [m.name for m in methods]
    if len(set(names)) != len(names):
        raise TranslationError("a method is defined twice: " + ", ".join(sorted(n for n in names if names.count(n) > 1)))
    if "__init__" not in names:
        raise TranslationError("__init__ not found")
    table = []
    for fn in methods:
        if fn.name == "__init__":
            check_init(fn)
            continue
        ascii_ident(fn.name, fn)
        for n in ast.walk(fn):
            if n is not fn and isinstance(n, FORBIDDEN_NODES):
                fail(n, "construct outside the accepted subset")
            if isinstance(n, ast.With) and lock_of_with(n) is None:
                fail(n, "`with` on something other than self._rl / self._wl")
        body = strip_docs(fn.body)
        rec = dict(name=fn.name, line=fn.lineno, params=params_of(fn), target=None, mode="LNone", args=[], returns=False,
                   inner_r=[], inner_w=[], inner_none=[], self_locked=[], escaped=[])
        d = delegation(body)
        if d is not None:
            rec.update(target=d["target"], mode=d["mode"], args=d["args"], returns=d["returns"])
        else:
            w = Inline(set(names))
            w.block(body, "LNone")
            rec.update(inner_r=w.inner["LR"], inner_w=w.inner["LW"], inner_none=w.inner["LNone"],
                       self_locked=w.self_locked, escaped=w.escaped)
            # the lock of the body if it is exactly one lock-with (informative only)
            if len(body) == 1 and isinstance(body[0], ast.With) and lock_of_with(body[0]):
                rec["mode"] = lock_of_with(body[0])
        table.append(rec)
    return table


# ----------------------------------------------------------------------------- the plain Enforcer API
CHAIN = [("enforcer.py", "Enforcer", "ManagementEnforcer"),
         ("management_enforcer.py", "ManagementEnforcer", "InternalEnforcer"),
         ("internal_enforcer.py", "InternalEnforcer", "CoreEnforcer"),
         ("core_enforcer.py", "CoreEnforcer", None)]


def returns_value(fn):
    """some `return <expr>` (expr not the constant None) belongs to fn itself (nested defs excluded)"""
    stack = list(fn.body)
    while stack:
        n = stack.pop()
        if isinstance(n, (ast.FunctionDef, ast.AsyncFunctionDef, ast.Lambda, ast.ClassDef)):
            continue
        if isinstance(n, ast.Return) and n.value is not None and not (isinstance(n.value, ast.Constant) and n.value.value is None):
            return True
        stack.extend(ast.iter_child_nodes(n))
    return False


def parse_api(repo):
    api = {}
    order = []
    for fname, cname, base in CHAIN:
        tree = ast.parse((repo / "casbin" / fname).read_text())
        cls = [n for n in tree.body if isinstance(n, ast.ClassDef) and n.name == cname]
        if len(cls) != 1:
            raise TranslationError(f"class {cname} not found exactly once in {fname}")
        cls = cls[0]
        bases = [ast.unparse(b) for b in cls.bases]
        if bases != ([base] if base else []):
            raise TranslationError(f"class {cname}: bases {bases}, expected {[base] if base else []}")
        if cls.keywords:
            raise TranslationError(f"class {cname}: metaclass/keywords")
        for st in cls.body:
            if isinstance(st, ast.AsyncFunctionDef):
                fail(st, "async method on the plain enforcer")
            if not isinstance(st, ast.FunctionDef) or st.name.startswith("_"):
                continue
            decos = [ast.unparse(d) for d in st.decorator_list]
            if decos not in ([], ["staticmethod"]):
                fail(st, "decorator other than staticmethod on a public enforcer method")
            if st.name in api:
                continue          # a more derived class already defines it
            static = decos == ["staticmethod"]
            api[st.name] = dict(name=ascii_ident(st.name, st), cls=cname, params=params_of(st, drop_self=not static),
                                returns=returns_value(st), static=static)
            order.append(st.name)
    return [api[n] for n in sorted(order)]


# ----------------------------------------------------------------------------- rendering
def cs(s):
    if not s.isascii():
        raise TranslationError("non-ASCII text: " + repr(s))
    return '"' + s.replace('"', '""') + '"'


def clist(items):
    return "[" + "; ".join(items) + "]"


def copt(x):
    return "None" if x is None else "(Some " + cs(x) + ")"


def cbool(b):
    return "true" if b else "false"


def cparams(p):
    return ("{| p_pos := " + clist(cs(x) for x in p["pos"]) + "; p_defaults := " + clist(cs(x) for x in p["defaults"]) +
            "; p_var := " + copt(p["var"]) + "; p_kwonly := " + clist("(" + cs(k) + ", " + cs(d) + ")" for k, d in p["kwonly"]) +
            "; p_kwvar := " + copt(p["kwvar"]) + " |}")


def carg(a):
    if a[0] == "AKw":
        return f"AKw {cs(a[1])} {cs(a[2])}"
    return f"{a[0]} {cs(a[1])}"


def render(table, api):
    out = ["(* GENERATED by translators/synced.py from casbin/synced_enforcer.py and the plain Enforcer classes — do not edit *)",
           "From Coq Require Import List Bool.",
           "From PyCasbin Require Import SyncedBase.",
           "Import ListNotations.",
           "Local Open Scope text_scope.",
           "",
           "Definition synced_table : list wrapper := ["]
    rows = []
    for r in table:
        rows.append(
            "  {| w_name := " + cs(r["name"]) + "; w_line := " + str(r["line"]) + ";\n"
            "     w_params := " + cparams(r["params"]) + ";\n"
            "     w_target := " + copt(r["target"]) + "; w_mode := " + r["mode"] + "; w_args := " + clist(carg(a) for a in r["args"]) +
            "; w_returns := " + cbool(r["returns"]) + ";\n"
            "     w_inner_r := " + clist(cs(x) for x in r["inner_r"]) + "; w_inner_w := " + clist(cs(x) for x in r["inner_w"]) +
            "; w_inner_none := " + clist(cs(x) for x in r["inner_none"]) + ";\n"
            "     w_self_locked := " + clist(cs(x) for x in r["self_locked"]) + "; w_escaped := " + clist(cs(x) for x in r["escaped"]) + " |}")
    out.append(";\n".join(rows))
    out.append("].")
    out.append("")
    out.append("Definition enforcer_api : list apisig := [")
    rows = []
    for a in api:
        rows.append("  {| a_name := " + cs(a["name"]) + "; a_class := " + cs(a["cls"]) + ";\n"
                    "     a_params := " + cparams(a["params"]) + ";\n"
                    "     a_returns := " + cbool(a["returns"]) + "; a_static := " + cbool(a["static"]) + " |}")
    out.append(";\n".join(rows))
    out.append("].")
    out.append("")
    return "\n".join(out)


def translate(repo: Path) -> str:
    table = parse_synced((repo / "casbin" / "synced_enforcer.py").read_text())
    api = parse_api(repo)
    if len(table) > 2000 or len(api) > 2000:
        raise TranslationError("table too large")
    return render(table, api)


def main():
    repo = Path(sys.argv[1] if len(sys.argv) > 1 else "/repo")
    dst = Path(sys.argv[2] if len(sys.argv) > 2 else Path(__file__).resolve().parent.parent / "coq" / "gen" / "SyncedGen.v")
    try:
        text = translate(repo)
    except (TranslationError, SyntaxError, OSError, KeyError, IndexError, AttributeError, ValueError) as e:
        print(f"TRANSLATION-FAILED synced: {e}")
        sys.exit(2)
    if not dst.exists() or dst.read_text() != text:
        dst.parent.mkdir(parents=True, exist_ok=True)
        dst.write_text(text)
        print(f"regenerated {dst}")
    sys.exit(0)


if __name__ == "__main__":
    main()
